import PoryProofs.ProgramShiftE
import PoryProofs.ProgramConst
/-
P2f helpers (ProgramConst re-run over the body grammar of P1c): the reference elaboration of a script body of P1c
reads the constant substitution only at the literals of the tokens of the body.

Interface lemmas: `elabC_congr` (commands: only the plain tokens of the arguments are substituted; strings, typed
strings, `format( … )`, `moves( … )` with or without poryswitch are not), `res_congr` (leaves: operands and
comparison values of any written form), `elabOr_congr` (conditions over any leaf type); then the six-function
induction `elabS_congrE … elabPCases_congrE`.
-/
namespace Pory.P2f
open Pory Pory.Parser Pory.C02P Pory.C10b Pory.SwitchParse Pory.BoolGen Pory.CmdGen Pory.LeafGen Pory.P1c
open Pory.C14b (swVal)
open Pory.StmtG (caseValue caseTok autoPosBad operandOf Ctx ctxOf)
open Pory.C11b (operandName Form autoLeafT autoE)
open Pory.C12c
open Pory.P2
open Pory.TextValueParse
open Pory.C10c (renderArgE partE AElem)

section
variable {σ σ' : String → String}

/-! ### commands -/

theorem mem_printArgM {t : Tok} {a : List MElem} {e : MElem} (he : e ∈ a) (ht : t ∈ e.toks) :
    t ∈ printArgM a := by
  induction a with
  | nil => cases he
  | cons x r ih =>
    simp only [printArgM, List.mem_append]
    rcases List.mem_cons.1 he with rfl | he
    · exact .inl ht
    · exact .inr (ih he)

theorem mem_printMoreM {t : Tok} {more : List (Tok × List MElem)} {p : Tok × List MElem} (hp : p ∈ more)
    (ht : t ∈ printArgM p.2) : t ∈ printMoreM more := by
  induction more with
  | nil => cases hp
  | cons q r ih =>
    simp only [printMoreM, List.mem_cons, List.mem_append]
    rcases List.mem_cons.1 hp with rfl | hp
    · exact .inr (.inl ht)
    · exact .inr (.inr (ih hp))

theorem renderArgM_congr {a : List MElem} (h : AgreeOn σ σ' (printArgM a)) : renderArgM σ a = renderArgM σ' a := by
  unfold renderArgM renderArgE
  congr 1
  rw [List.map_map, List.map_map]
  apply List.map_congr_left
  intro e he
  cases e with
  | base e =>
    cases e with
    | base e =>
      cases e with
      | tok t =>
        exact argPart_congr (h t (mem_printArgM he (by simp [MElem.toks, IElem.toks, AElem.toks])))
      | _ => rfl
    | fmt => rfl
  | movesS => rfl

theorem rendered_congr {c : CmdM} (h : AgreeOn σ σ' c.print) : c.rendered σ = c.rendered σ' := by
  cases c with
  | args name lp a0 more rp =>
    simp only [CmdM.rendered, CmdM.argList]
    apply List.map_congr_left
    intro a ha
    rcases List.mem_cons.1 ha with rfl | ha
    · exact renderArgM_congr (h.mono (fun t ht => by simp [CmdM.print, printCmdM, ht]))
    · obtain ⟨p, hp, rfl⟩ := List.mem_map.1 ha
      refine renderArgM_congr (fun t ht => h t ?_)
      simp only [CmdM.print, printCmdM, List.mem_cons, List.mem_append]
      exact .inr (.inr (.inr (.inl (mem_printMoreM hp ht))))
  | empty => rfl
  | bare => rfl

/-- **Commands** read the constant table only at their own tokens. -/
theorem elabC_congr (env : Env) (sn : String) (cid : Nat) {c : CmdM} (h : AgreeOn σ σ' c.print) :
    c.elabC env sn σ cid = c.elabC env sn σ' cid := by
  unfold CmdM.elabC CmdM.node
  rw [rendered_congr h]

/-! ### leaves -/

theorem cmpVal_congr {v : CmpVal} (h : AgreeOn σ σ' v.print) : v.str σ = v.str σ' := by
  cases v with
  | toks v vs =>
    simp only [CmpVal.str]
    congr 1
    exact List.map_congr_left (fun t ht => h t (by simpa [CmpVal.print] using ht))
  | value vt lp inner rp =>
    simp only [CmpVal.str]
    congr 2
    exact List.map_congr_left (fun t ht => h t (by simp [CmpVal.print, ht]))

theorem applyVal_congr {v : CmpVal} (e : OpExpr) (op : TT) (h : v.str σ = v.str σ') :
    applyVal σ e op v = applyVal σ' e op v := by
  cases v <;> simp only [applyVal, h]

theorem ktree_congr {l : KLeaf} (h : AgreeOn σ σ' l.print) : l.tree σ = l.tree σ' := by
  obtain ⟨nt, kw, lp, o, ops, rp, post⟩ := l
  have hop : KLeaf.operand σ ⟨nt, kw, lp, o, ops, rp, post⟩ = KLeaf.operand σ' ⟨nt, kw, lp, o, ops, rp, post⟩ := by
    simp only [KLeaf.operand]
    have : (o :: ops).map (fun t => σ t.lit) = (o :: ops).map (fun t => σ' t.lit) :=
      List.map_congr_left (fun t ht => h t (by
        simp only [KLeaf.print, List.mem_append, List.mem_cons]
        rcases List.mem_cons.1 ht with rfl | ht
        · exact .inr (.inr (.inr (.inl rfl)))
        · exact .inr (.inr (.inr (.inr (.inl ht))))))
    rw [this]
  cases nt with
  | some t => simp only [KLeaf.tree, hop]
  | none =>
    cases post with
    | none => simp only [KLeaf.tree, hop]
    | flag a b => simp only [KLeaf.tree, hop]
    | var a v =>
      simp only [KLeaf.tree, hop]
      exact applyVal_congr _ _ (cmpVal_congr (h.mono (fun t ht => by
        simp only [KLeaf.print, KLeaf.postToks, List.mem_append, List.mem_cons]
        exact .inr (.inr (.inr (.inr (.inr (.inr (.inr ht)))))))))

theorem res_congr (env : Env) (sn : String) (lf : CLeaf) (h : AgreeOn σ σ' (CLeaf.print lf)) (id : Nat) :
    CLeaf.res env sn σ id lf = CLeaf.res env sn σ' id lf := by
  cases lf with
  | plain l => simp only [CLeaf.res, leafT_congr (lf := l) h]
  | kw l => simp only [CLeaf.res, ktree_congr (l := l) h]
  | auto fm c =>
    have hc : c.elabC env sn σ id = c.elabC env sn σ' id :=
      elabC_congr env sn id (h.mono (fun t ht => by simp [CLeaf.print, ht]))
    have hcmp : fm.cmpValue σ = fm.cmpValue σ' := by
      cases fm with
      | cmp p1 p2 l1 op v =>
        have := h (v.tok p2) (by simp [CLeaf.print, Form.post])
        simpa [Form.cmpValue, Val.tok] using this
      | bare => rfl
      | neg => rfl
    simp only [CLeaf.res, hc, autoLeafT, hcmp]
  | autoV c opTok v =>
    have hc : c.elabC env sn σ id = c.elabC env sn σ' id :=
      elabC_congr env sn id (h.mono (fun t ht => by simp [CLeaf.print, ht]))
    have hv : v.str σ = v.str σ' := cmpVal_congr (h.mono (fun t ht => by simp [CLeaf.print, ht]))
    simp only [CLeaf.res, hc, fun e op => applyVal_congr e op hv]

end

/-! ### conditions over any leaf type -/
section
variable {L : Type} (res : (String → String) → Nat → L → Except PFail (OpExpr × ImpData × Nat))
  (print : L → List Tok) {σ σ' : String → String}

mutual
theorem elabOr_congr (hres : ∀ lf, AgreeOn σ σ' (print lf) → ∀ id, res σ id lf = res σ' id lf) :
    ∀ (neg : Bool) (g : GOr L), AgreeOn σ σ' (printOr print g) → ∀ id, elabOr res σ neg g id = elabOr res σ' neg g id
  | neg, .one a, h, id => by
    rw [elabOr, elabOr]
    exact elabAnd_congr hres neg a (h.mono (fun t ht => by simpa [BoolGen.printOr] using ht)) id
  | neg, .more a p r, h, id => by
    have h1 := elabAnd_congr hres neg a (h.mono (fun t ht => by simp [BoolGen.printOr, ht]))
    have h2 := elabOr_congr hres neg r (h.mono (fun t ht => by simp [BoolGen.printOr, ht]))
    rw [elabOr, elabOr]
    simp only [h1, h2]
theorem elabAnd_congr (hres : ∀ lf, AgreeOn σ σ' (print lf) → ∀ id, res σ id lf = res σ' id lf) :
    ∀ (neg : Bool) (g : GAnd L), AgreeOn σ σ' (printAnd print g) → ∀ id,
      elabAnd res σ neg g id = elabAnd res σ' neg g id
  | neg, .one u, h, id => by
    rw [elabAnd, elabAnd]
    exact elabUn_congr hres neg u (h.mono (fun t ht => by simpa [BoolGen.printAnd] using ht)) id
  | neg, .more u p r, h, id => by
    have h1 := elabUn_congr hres neg u (h.mono (fun t ht => by simp [BoolGen.printAnd, ht]))
    have h2 := fun left => elabAcc_congr hres neg left r (h.mono (fun t ht => by simp [BoolGen.printAnd, ht]))
    rw [elabAnd, elabAnd]
    simp only [h1, h2]
theorem elabAcc_congr (hres : ∀ lf, AgreeOn σ σ' (print lf) → ∀ id, res σ id lf = res σ' id lf) :
    ∀ (neg : Bool) (left : BoolExpr) (g : GAnd L), AgreeOn σ σ' (printAnd print g) → ∀ id,
      elabAcc res σ neg left g id = elabAcc res σ' neg left g id
  | neg, left, .one u, h, id => by
    have h1 := elabUn_congr hres neg u (h.mono (fun t ht => by simpa [BoolGen.printAnd] using ht))
    rw [elabAcc, elabAcc]
    simp only [h1]
  | neg, left, .more u p r, h, id => by
    have h1 := elabUn_congr hres neg u (h.mono (fun t ht => by simp [BoolGen.printAnd, ht]))
    have h2 := fun left => elabAcc_congr hres neg left r (h.mono (fun t ht => by simp [BoolGen.printAnd, ht]))
    rw [elabAcc, elabAcc]
    simp only [h1, h2]
theorem elabUn_congr (hres : ∀ lf, AgreeOn σ σ' (print lf) → ∀ id, res σ id lf = res σ' id lf) :
    ∀ (neg : Bool) (g : GUn L), AgreeOn σ σ' (printUn print g) → ∀ id,
      elabUn res σ neg g id = elabUn res σ' neg g id
  | neg, .leaf lf, h, id => by
    rw [elabUn, elabUn, hres lf (h.mono (fun t ht => by simpa [BoolGen.printUn] using ht)) id]
  | neg, .paren n _ _ _ e, h, id => by
    rw [elabUn, elabUn]
    exact elabOr_congr hres (neg != n) e (h.mono (fun t ht => by simp [BoolGen.printUn, ht])) id
end
end

section
variable {σ σ' : String → String}

theorem elabCond_congrE (env : Env) (sn : String) (c : SCond) (h : AgreeOn σ σ' (printCond c)) (cid : Nat) :
    elabCond env sn σ c cid = elabCond env sn σ' c cid :=
  elabOr_congr (CLeaf.res env sn) CLeaf.print (fun lf hl id => res_congr env sn lf hl id) false c h cid

/-! ### statements -/

variable (env : Env) (sn : String)

mutual
theorem elabS_congrE : ∀ (x : SStmt), AgreeOn σ σ' (printS x) → ∀ (B C : List Nat) (nx : Bool) (sid cid : Nat),
    elabS env sn σ B C nx x sid cid = elabS env sn σ' B C nx x sid cid
  | .cmd c, h, _, _, _, _, cid => by
    rw [elabS, elabS, elabC_congr env sn cid (h.mono (fun t ht => by simpa [printS] using ht))]
  | .label .., _, _, _, _, _, _ => by rw [elabS, elabS]
  | .labelS .., _, _, _, _, _, _ => by rw [elabS, elabS]
  | .brk t, _, B, _, _, _, _ => by cases B <;> rw [elabS, elabS]
  | .cont t, _, _, C, nx, _, _ => by
    cases C with
    | nil => rw [elabS, elabS]
    | cons c Ct => cases nx <;> rw [elabS, elabS]
  | .ite i lp c rp lb body rb elifs els, h, B, C, nx, sid, cid => by
    have h0 := elabCond_congrE env sn c (h.mono (fun t ht => by simp [printS, ht]))
    have h1 := elabL_congrE body (h.mono (fun t ht => by simp [printS, ht]))
    have h2 := elabElifs_congrE elifs (h.mono (fun t ht => by simp [printS, ht]))
    have h3 := elabElse_congrE els (h.mono (fun t ht => by simp [printS, ht]))
    rw [elabS, elabS]
    simp only [h0, h1, h2, h3]
  | .while_ w lp c rp lb body rb, h, B, C, nx, sid, cid => by
    have h0 := elabCond_congrE env sn c (h.mono (fun t ht => by simp [printS, ht]))
    have h1 := elabL_congrE body (h.mono (fun t ht => by simp [printS, ht]))
    rw [elabS, elabS]
    simp only [h0, h1]
  | .whileInf w lb body rb, h, B, C, nx, sid, cid => by
    have h1 := elabL_congrE body (h.mono (fun t ht => by simp [printS, ht]))
    rw [elabS, elabS]
    simp only [h1]
  | .doWhile d lb body rb w lp c rp, h, B, C, nx, sid, cid => by
    have h0 := elabCond_congrE env sn c (h.mono (fun t ht => by simp [printS, ht]))
    have h1 := elabL_congrE body (h.mono (fun t ht => by simp [printS, ht]))
    rw [elabS, elabS]
    simp only [h0, h1]
  | .switch_ sw lp v lp2 ops rp2 rp lb cases rb, h, B, C, nx, sid, cid => by
    have h1 := elabCases_congrE cases (h.mono (fun t ht => by simp [printS, ht]))
    have h2 := operandOf_congr rp2 (h.mono (σ := σ) (σ' := σ') (l' := ops) (fun t ht => by simp [printS, ht]))
    rw [elabS, elabS]
    simp only [h1, h2]
  | .switchA sw lp c rp lb cases rb, h, B, C, nx, sid, cid => by
    have h1 := elabCases_congrE cases (h.mono (fun t ht => by simp [printS, ht]))
    have h2 := elabC_congr env sn cid (c := c) (h.mono (fun t ht => by simp [printS, ht]))
    rw [elabS, elabS]
    simp only [h1, h2]
  | .pory ps lp x rp lb cases rb, h, B, C, nx, sid, cid => by
    have h1 := elabPCases_congrE cases (h.mono (fun t ht => by simp [printS, ht]))
    rw [elabS, elabS]
    simp only [h1]
theorem elabL_congrE : ∀ (b : List SStmt), AgreeOn σ σ' (printL b) → ∀ (B C : List Nat) (last : Bool)
    (sid cid : Nat), elabL env sn σ B C last b sid cid = elabL env sn σ' B C last b sid cid
  | [], _, _, _, _, _, _ => by rw [elabL_nilE, elabL_nilE]
  | x :: rest, h, B, C, last, sid, cid => by
    have h1 := elabS_congrE x (h.mono (fun t ht => by simp [printL, ht]))
    have h2 := elabL_congrE rest (h.mono (fun t ht => by simp [printL, ht]))
    rw [elabL_consE, elabL_consE]
    simp only [h1, h2]
theorem elabElifs_congrE : ∀ (es : List SElif), AgreeOn σ σ' (printElifs es) → ∀ (B C : List Nat) (sid cid : Nat),
    elabElifs env sn σ B C es sid cid = elabElifs env sn σ' B C es sid cid
  | [], _, _, _, _, _ => by rw [elabElifs, elabElifs]
  | .mk e lp c rp lb body rb :: rest, h, B, C, sid, cid => by
    have h0 := elabCond_congrE env sn c (h.mono (fun t ht => by simp [printElifs, printElif, ht]))
    have h1 := elabL_congrE body (h.mono (fun t ht => by simp [printElifs, printElif, ht]))
    have h2 := elabElifs_congrE rest (h.mono (fun t ht => by simp [printElifs, ht]))
    rw [elabElifs, elabElifs]
    simp only [h0, h1, h2]
theorem elabElse_congrE : ∀ (el : SElse), AgreeOn σ σ' (printElse el) → ∀ (B C : List Nat) (sid cid : Nat),
    elabElse env sn σ B C el sid cid = elabElse env sn σ' B C el sid cid
  | .none, _, _, _, _, _ => by rw [elabElse, elabElse]
  | .some e lb body rb, h, B, C, sid, cid => by
    have h1 := elabL_congrE body (h.mono (fun t ht => by simp [printElse, ht]))
    rw [elabElse, elabElse]
    simp only [h1]
theorem elabCases_congrE : ∀ (cases : List SCase), AgreeOn σ σ' (printCases cases) → ∀ (B C : List Nat)
    (seen : List String) (hd : Bool) (sid cid : Nat),
    elabCases env sn σ B C cases seen hd sid cid = elabCases env sn σ' B C cases seen hd sid cid
  | [], _, _, _, _, _, _, _ => by rw [elabCases, elabCases]
  | .case ct vs colon body :: rest, h, B, C, seen, hd, sid, cid => by
    have h0 : caseValue σ vs = caseValue σ' vs :=
      caseValue_congr (h.mono (fun t ht => by simp [printCases, printCase, ht]))
    have h1 := elabL_congrE body (h.mono (fun t ht => by simp [printCases, printCase, ht]))
    have h2 := elabCases_congrE rest (h.mono (fun t ht => by simp [printCases, ht]))
    rw [elabCases, elabCases]
    simp only [caseTok, h0, h1, h2]
  | .dflt d colon body :: rest, h, B, C, seen, hd, sid, cid => by
    have h1 := elabL_congrE body (h.mono (fun t ht => by simp [printCases, printCase, ht]))
    have h2 := elabCases_congrE rest (h.mono (fun t ht => by simp [printCases, ht]))
    rw [elabCases, elabCases]
    simp only [h1, h2]
theorem elabPCases_congrE : ∀ (cases : List SPCase), AgreeOn σ σ' (printPCases cases) → ∀ (B C : List Nat)
    (acc : List (String × List Stmt × ImpData)) (sid cid : Nat),
    elabPCases env sn σ B C cases acc sid cid = elabPCases env sn σ' B C cases acc sid cid
  | [], _, _, _, _, _, _ => by rw [elabPCases, elabPCases]
  | .colon key ct x :: rest, h, B, C, acc, sid, cid => by
    have h1 := elabS_congrE x (h.mono (fun t ht => by simp [printPCases, printPCase, ht]))
    have h2 := elabPCases_congrE rest (h.mono (fun t ht => by simp [printPCases, ht]))
    rw [elabPCases, elabPCases]
    simp only [h1, h2]
  | .colon0 key ct :: rest, h, B, C, acc, sid, cid => by
    have h2 := elabPCases_congrE rest (h.mono (fun t ht => by simp [printPCases, ht]))
    rw [elabPCases, elabPCases]
    simp only [h2]
  | .brace key lbt body rbt :: rest, h, B, C, acc, sid, cid => by
    have h1 := elabL_congrE body (h.mono (fun t ht => by simp [printPCases, printPCase, ht]))
    have h2 := elabPCases_congrE rest (h.mono (fun t ht => by simp [printPCases, ht]))
    rw [elabPCases, elabPCases]
    simp only [h1, h2]
end

end
end Pory.P2f
