import PoryProofs.ParserScopesTop
/-
C18 (totality of the parser), part 1: `.panic` is unreachable.

`np m s` : running `m` from `s` does not end in `.error (.panic _)`.  `np_bind` reduces `np` of a
`do` block to `np` of its parts plus a `wp` fact about the intermediate results, so the symbolic
execution of `ParserWp.lean` / `ParserFrames.lean` is reused (`npsimp`).

The only `panic` sites of the model are
* `parseLeafBooleanExpression`: `expectPeekVarOrAutoVar` returned `none` although
  `peekTokenIsAutoVar` held  (`autoVar_some`),
* `parseElifs` / `parseIfStatement`: no condition although `requireExpression = true` (`cond_some`);
both are shown unreachable, and `no_panic_parseTokens` concludes that the parser never panics.

Part 2 (fuel, `.outOfFuel`): `PoryProofs/ParserFuel.lean` (what is proved, what is only stated, and why
the `EOF` assumption is needed).
-/
namespace Pory.Parser
open Pory

def NotPanic (e : PFail) : Prop := ∀ w, e ≠ .panic w

/-- Running `m` from `s` does not end in a panic. -/
def np {α} (m : PM α) (s : PState) : Prop := ∀ w, m.run s ≠ .error (.panic w)

theorem np_bind {α β} (m : PM α) (f : α → PM β) (s : PState) :
    np (m >>= f) s ↔ np m s ∧ wp m s (fun a s1 => np (f a) s1) := by
  unfold np wp
  simp only [StateT.run_bind]
  cases h : m.run s with
  | error e => simp [bind, Except.bind]
  | ok r =>
    obtain ⟨a, s1⟩ := r
    simp [bind, Except.bind]

theorem np_pure {α} (a : α) (s : PState) : np (pure a : PM α) s ↔ True := by
  simp [np, pure, StateT.pure, StateT.run, Except.pure]

theorem np_fail {α} (e : PFail) (s : PState) : np (fail e : PM α) s ↔ NotPanic e := by
  simp [np, NotPanic, fail, throw, throwThe, MonadExceptOf.throw, StateT.run, StateT.lift, bind, Except.bind]

theorem notPanic_err (t : Tok) (m : String) : NotPanic (newParseError t m) ↔ True :=
  iff_true_intro (fun _ h => by cases h)
theorem notPanic_rerr (t1 t2 : Tok) (m : String) : NotPanic (newRangeParseError t1 t2 m) ↔ True :=
  iff_true_intro (fun _ h => by cases h)
theorem notPanic_fuel : NotPanic .outOfFuel ↔ True := iff_true_intro (fun _ h => by cases h)
theorem notPanic_panic (w : String) : NotPanic (.panic w) ↔ False :=
  iff_false_intro (fun h => h w rfl)

theorem np_ite {α} (c : Prop) [Decidable c] (a b : PM α) (s : PState) :
    np (if c then a else b) s ↔ if c then np a s else np b s := by
  split <;> rfl

theorem np_get (s : PState) : np (get : PM PState) s ↔ True := by
  simp [np, StateT.run, get, getThe, MonadStateOf.get, StateT.get, pure, Except.pure]
theorem np_set (s1 s : PState) : np (set s1 : PM PUnit) s ↔ True := by
  simp [np, StateT.run, set, StateT.set, pure, Except.pure]
theorem np_modify (f : PState → PState) (s : PState) : np (modify f : PM PUnit) s ↔ True := by
  simp [np, StateT.run, modify, modifyGet, MonadStateOf.modifyGet, StateT.modifyGet, pure, Except.pure]

theorem np_cur (s : PState) : np cur s ↔ True := by
  unfold cur; simp only [np_bind, np_get, np_pure, wp_get, and_self]
theorem np_peekAt (n : Nat) (s : PState) : np (peekAt n) s ↔ True := by
  unfold peekAt; simp only [np_bind, np_get, np_pure, wp_get, and_self]
theorem np_peek (s : PState) : np peek s ↔ True := np_peekAt 1 s
theorem np_peek2 (s : PState) : np peek2 s ↔ True := np_peekAt 2 s
theorem np_peek3 (s : PState) : np peek3 s ↔ True := np_peekAt 3 s
theorem np_peek4 (s : PState) : np peek4 s ↔ True := np_peekAt 4 s
theorem np_nextToken (s : PState) : np nextToken s ↔ True := by unfold nextToken; exact np_modify _ s
theorem np_curIs (t : TT) (s : PState) : np (curIs t) s ↔ True := by
  unfold curIs; simp only [np_bind, np_cur, np_pure, wp_cur, and_self]
theorem np_peekIs (t : TT) (s : PState) : np (peekIs t) s ↔ True := by
  unfold peekIs; simp only [np_bind, np_peek, np_pure, wp_peek, and_self]
theorem np_peek2Is (t : TT) (s : PState) : np (peek2Is t) s ↔ True := by
  unfold peek2Is; simp only [np_bind, np_peek2, np_pure, wp_peek2, and_self]
theorem np_expectPeek (t : TT) (s : PState) : np (expectPeek t) s ↔ True := by
  unfold expectPeek
  simp only [np_bind, np_peekIs, np_ite, np_nextToken, np_pure, wp_peekIs, wp_nextToken, true_and, ite_self]
theorem np_expectPeekErr (t : TT) (s : PState) : np (expectPeekErr t) s ↔ True := by
  unfold expectPeekErr
  simp only [np_bind, np_peek, np_ite, np_nextToken, np_fail, notPanic_err, wp_peek, true_and, ite_self]
theorem np_tryReplace (v : String) (s : PState) : np (tryReplaceWithConstant v) s ↔ True := by
  unfold tryReplaceWithConstant; simp only [np_bind, np_get, np_pure, wp_get, and_self]
theorem np_newSid (s : PState) : np newSid s ↔ True := by
  unfold newSid; simp only [np_bind, np_get, np_set, np_pure, wp_get, wp_set, and_self]
theorem np_pushBreak (x : Nat) (s : PState) : np (pushBreak x) s ↔ True := by
  unfold pushBreak; exact np_modify _ s
theorem np_popBreak (s : PState) : np popBreak s ↔ True := by unfold popBreak; exact np_modify _ s
theorem np_pushContinue (x : Nat) (s : PState) : np (pushContinue x) s ↔ True := by
  unfold pushContinue; exact np_modify _ s
theorem np_popContinue (s : PState) : np popContinue s ↔ True := by unfold popContinue; exact np_modify _ s

/-- `m` never panics, from any state. -/
def NP {α} (m : PM α) : Prop := ∀ s, np m s

theorem NP.iff {α} {m : PM α} (h : NP m) (s : PState) : np m s ↔ True := iff_true_intro (h s)

theorem wp_true_iff {α} (m : PM α) (s : PState) : wp m s (fun _ _ => True) ↔ True :=
  iff_true_intro (wp_true m s)

theorem wp_unfold {α} (m : PM α) (s : PState) (Q : α → PState → Prop) :
    wp m s Q ↔ ∀ a s', m.run s = .ok (a, s') → Q a s' := Iff.rfl

/-- Symbolic execution for `np`. -/
syntax "npsimp" (" [" Lean.Parser.Tactic.simpLemma,* "]")? : tactic
macro_rules
  | `(tactic| npsimp) => `(tactic| swp [np_bind, np_pure, np_fail, np_ite, notPanic_err, notPanic_rerr,
      notPanic_fuel, notPanic_panic, np_get, np_set, np_modify, np_cur, np_peek, np_peek2, np_peek3, np_peek4,
      np_nextToken, np_curIs, np_peekIs, np_peek2Is, np_expectPeek, np_expectPeekErr, np_tryReplace, np_newSid,
      np_pushBreak, np_popBreak, np_pushContinue, np_popContinue, wp_modify, wp_set, and_true, true_and,
      wp_true_iff])
  | `(tactic| npsimp [$ts,*]) => `(tactic| swp [np_bind, np_pure, np_fail, np_ite, notPanic_err, notPanic_rerr,
      notPanic_fuel, notPanic_panic, np_get, np_set, np_modify, np_cur, np_peek, np_peek2, np_peek3, np_peek4,
      np_nextToken, np_curIs, np_peekIs, np_peek2Is, np_expectPeek, np_expectPeekErr, np_tryReplace, np_newSid,
      np_pushBreak, np_popBreak, np_pushContinue, np_popContinue, wp_modify, wp_set, and_true, true_and,
      wp_true_iff, $ts,*])

/-- Finish: alternate `npsimp` with introducing binders, splitting `if`/`match` and conjunctions. -/
syntax "npfin" (" [" Lean.Parser.Tactic.simpLemma,* "]")? : tactic
macro_rules
  | `(tactic| npfin) => `(tactic| repeat' (first | trivial | npsimp | (intros; split) | (intros; constructor)))
  | `(tactic| npfin [$ts,*]) =>
    `(tactic| repeat' (first | trivial | npsimp [$ts,*] | (intros; split) | (intros; constructor)))

theorem np_parsePoryswitchHeader (env : Env) : NP (parsePoryswitchHeader env) := by
  intro s; unfold parsePoryswitchHeader; npsimp

theorem np_parseScopeModifier (d : TT) : NP (parseScopeModifier d) := by
  intro s; unfold parseScopeModifier; npsimp

theorem np_formatNamedParams : ∀ (n : Nat) (fp : FmtParams), NP (formatNamedParams n fp) := by
  intro n
  induction n with
  | zero => intro fp s; rw [formatNamedParams]; npsimp
  | succ n ih =>
    intro fp s
    rw [formatNamedParams]
    npsimp [(ih _).iff, (frame_formatNamedParams _ _).wp_iff]

theorem np_fmtMatch {α} (x : Except String (List Char)) (f : List Char → PM α) (g : String → PM α)
    (s : PState) :
    np (parseFormatStringOperator.match_1 (fun _ => PM α) x f g) s ↔
      (∀ a, x = .ok a → np (f a) s) ∧ (∀ e, x = .error e → np (g e) s) := by
  cases x <;> simp

theorem np_parseFormatStringOperator (env : Env) (n : Nat) : NP (parseFormatStringOperator env n) := by
  intro s
  unfold parseFormatStringOperator
  npsimp [(np_formatNamedParams _ _).iff, (frame_formatNamedParams _ _).wp_iff, wp_fmtMatch, np_fmtMatch]

theorem np_parseTextValue (env : Env) (n : Nat) : NP (parseTextValue env n) := by
  intro s
  unfold parseTextValue
  npsimp [(np_parseFormatStringOperator _ _).iff, (frame_parseFormatStringOperator _ _).wp_iff]

theorem np_listBlock (env : Env) : ∀ n : Nat,
    (∀ kind am acc, NP (parseListValue env kind am n acc)) ∧
    (∀ kind, NP (parsePoryswitchListStatement env kind n)) ∧
    (∀ kind tok acc, NP (parsePoryswitchListCases env kind tok n acc)) := by
  intro n
  induction n with
  | zero =>
    refine ⟨?_, ?_, ?_⟩
    · intro kind am acc s; rw [parseListValue]; npsimp
    · intro kind s; rw [parsePoryswitchListStatement]; npsimp
    · intro kind tok acc s; rw [parsePoryswitchListCases]; npsimp
  | succ n ih =>
    obtain ⟨ih1, ih2, ih3⟩ := ih
    have f1 := fun kind am acc => (frame_listBlock env n).1 kind am acc
    have f2 := fun kind => (frame_listBlock env n).2.1 kind
    have f3 := fun kind tok acc => (frame_listBlock env n).2.2 kind tok acc
    refine ⟨?_, ?_, ?_⟩
    · intro kind am acc s
      rw [parseListValue]
      cases kind <;>
        npfin [(ih1 _ _ _).iff, (ih2 _).iff, (f1 _ _ _).wp_iff, (f2 _).wp_iff]
    · intro kind s
      rw [parsePoryswitchListStatement]
      npfin [(ih3 _ _ _).iff, (f3 _ _ _).wp_iff, (np_parsePoryswitchHeader _).iff,
        (frame_parsePoryswitchHeader _).wp_iff]
    · intro kind tok acc s
      rw [parsePoryswitchListCases]
      npfin [(ih1 _ _ _).iff, (ih3 _ _ _).iff, (f1 _ _ _).wp_iff, (f3 _ _ _).wp_iff]

theorem np_parseListValue (env : Env) (kind : ListKind) (am : Bool) (n : Nat) (acc : List Tok) :
    NP (parseListValue env kind am n acc) := (np_listBlock env n).1 kind am acc

theorem np_parseMovesOperator (env : Env) (n : Nat) : NP (parseMovesOperator env n) := by
  intro s
  unfold parseMovesOperator
  npsimp [(np_parseListValue _ _ _ _ _).iff]

theorem np_cmdArgsLoop (env : Env) (sn : String) (id : Nat) (tok : Tok) :
    ∀ (n : Nat) (a : CmdAcc), NP (cmdArgsLoop env sn id tok n a) := by
  intro n
  induction n with
  | zero => intro a s; rw [cmdArgsLoop]; npsimp
  | succ n ih =>
    intro a s
    rw [cmdArgsLoop]
    npsimp [(ih _).iff, (np_parseFormatStringOperator _ _).iff, (frame_parseFormatStringOperator _ _).wp_iff,
      (np_parseMovesOperator _ _).iff, (frame_parseMovesOperator _ _).wp_iff]

theorem np_parseCommandStatement (env : Env) (sn : String) (n : Nat) :
    NP (parseCommandStatement env sn n) := by
  intro s
  unfold parseCommandStatement
  npsimp [(np_cmdArgsLoop _ _ _ _ _ _).iff, wp_bumpCmdId]

theorem np_expectPeekVarOrAutoVar (env : Env) (sn : String) (n : Nat) :
    NP (expectPeekVarOrAutoVar env sn n) := by
  intro s
  unfold expectPeekVarOrAutoVar
  npfin [(np_parseCommandStatement _ _ _).iff, (frame_parseCommandStatement _ _ _).wp_iff]

/-- First panic site: when the peek token is an `IDENT` (as `peekTokenIsAutoVar` requires),
`expectPeekVarOrAutoVar` does not return `none`. -/
theorem autoVar_some (env : Env) (sn : String) (n : Nat) (s : PState)
    (h : (s.toks.getD 1 s.eof).type = .IDENT) :
    wp (expectPeekVarOrAutoVar env sn n) s (fun r _ => r ≠ none) := by
  unfold expectPeekVarOrAutoVar
  have h1 : ((s.toks.getD 1 s.eof).type == TT.VAR) = false := by rw [h]; decide
  wpsimp [(frame_parseCommandStatement _ _ _).wp_iff, h1]
  wpfin [wp_true_iff]
  all_goals simp [wp_true_iff]

theorem np_peekTokenIsAutoVar (env : Env) : NP (peekTokenIsAutoVar env) := by
  intro s; unfold peekTokenIsAutoVar; npsimp

/-- `peekTokenIsAutoVar` only returns `true` on an `IDENT`. -/
theorem peekTokenIsAutoVar_true (env : Env) (s : PState) :
    wp (peekTokenIsAutoVar env) s (fun r s' => s' = s ∧ (r = true → (s.toks.getD 1 s.eof).type = .IDENT)) := by
  unfold peekTokenIsAutoVar
  wpsimp
  split <;> simp_all

theorem np_collectUntil (stop : Tok → Bool) (onEOF : PFail) (h : NotPanic onEOF) :
    ∀ (n : Nat) (parts : List String), NP (collectUntil stop onEOF n parts) := by
  intro n
  induction n with
  | zero => intro parts s; rw [collectUntil]; npsimp
  | succ n ih =>
    intro parts s; rw [collectUntil]
    npsimp [(ih _).iff, iff_true_intro h]

theorem np_valueLoop (vt : Tok) : ∀ (n k : Nat) (parts : List String), NP (valueLoop vt n k parts) := by
  intro n
  induction n with
  | zero => intro k parts s; rw [valueLoop]; npsimp
  | succ n ih => intro k parts s; rw [valueLoop]; npsimp [(ih _ _).iff]

theorem np_collectUntilRange (st : Tok) :
    ∀ (n : Nat) (parts : List String), NP (parseConditionVarOperator.collectUntilRange st n parts) := by
  intro n
  induction n with
  | zero => intro parts s; rw [parseConditionVarOperator.collectUntilRange]; npsimp
  | succ n ih => intro parts s; rw [parseConditionVarOperator.collectUntilRange]; npsimp [(ih _).iff]

theorem np_parseConditionVarOperator (e : OpExpr) (n : Nat) : NP (parseConditionVarOperator e n) := by
  intro s
  unfold parseConditionVarOperator
  npsimp [(np_valueLoop _ _ _ _).iff, (frame_valueLoop _ _ _ _).wp_iff, (np_collectUntilRange _ _ _).iff,
    (frame_collectUntilRange _ _ _).wp_iff]

theorem np_parseConditionFlagLikeOperator (e : OpExpr) (nm : String) :
    NP (parseConditionFlagLikeOperator e nm) := by
  intro s; unfold parseConditionFlagLikeOperator; npsimp

theorem np_parseLeafBooleanExpression (env : Env) (sn : String) (n : Nat) :
    NP (parseLeafBooleanExpression env sn n) := by
  intro s
  unfold parseLeafBooleanExpression
  npsimp [wp_spec (peekTokenIsAutoVar_true _ _), (np_peekTokenIsAutoVar _).iff,
    (np_collectUntil _ _ ((notPanic_err _ _).2 trivial) _ _).iff, (frame_collectUntil _ _ _ _).wp_iff,
    (np_parseConditionVarOperator _ _).iff, (np_parseConditionFlagLikeOperator _ _).iff,
    (np_expectPeekVarOrAutoVar _ _ _).iff]
  have key : ∀ (st : PState) (β : Type) (F : Option (String × Cmd × ImpData) → PM β),
      (st.toks.getD 1 st.eof).type = .IDENT → (∀ x s1, np (F (some x)) s1) →
      wp (expectPeekVarOrAutoVar env sn n) st (fun a s1 => np (F a) s1) := by
    intro st β F hid hF
    refine wp_mono (autoVar_some env sn n st hid) ?_
    intro a s1 hne
    cases a with
    | none => exact absurd rfl hne
    | some x => exact hF x s1
  split
  · intro a s' _ h
    obtain ⟨rfl, hid⟩ := h
    split
    · trivial
    · split
      · trivial
      · rename_i hna
        have ha : a = true := by simpa using hna
        refine key _ _ _ (hid ha) ?_
        rintro ⟨o, p, ai⟩ s1
        npfin [(np_parseConditionVarOperator _ _).iff, (np_parseConditionFlagLikeOperator _ _).iff]
  · intro a s' _ h
    obtain ⟨rfl, hid⟩ := h
    split
    · trivial
    · split
      · trivial
      · rename_i hna
        have ha : a = true := by simpa using hna
        refine key _ _ _ (hid ha) ?_
        rintro ⟨o, p, ai⟩ s1
        npfin [(np_parseConditionVarOperator _ _).iff, (np_parseConditionFlagLikeOperator _ _).iff]

theorem np_boolBlock (env : Env) (sn : String) : ∀ n : Nat,
    (∀ single negated, NP (parseBooleanExpression env sn single negated n)) ∧
    (∀ left single negated, NP (parseRightSideExpression env sn left single negated n)) := by
  intro n
  induction n with
  | zero =>
    refine ⟨?_, ?_⟩
    · intro a b s; rw [parseBooleanExpression]; npsimp
    · intro l a b s; rw [parseRightSideExpression]; npsimp
  | succ n ih =>
    obtain ⟨ih1, ih2⟩ := ih
    have f1 := fun a b => (frame_boolBlock env sn n).1 a b
    have f2 := fun l a b => (frame_boolBlock env sn n).2 l a b
    refine ⟨?_, ?_⟩
    · intro a b s
      rw [parseBooleanExpression]
      npfin [(ih1 _ _).iff, (ih2 _ _ _).iff, (f1 _ _).wp_iff, (f2 _ _ _).wp_iff,
        (np_parseLeafBooleanExpression _ _ _).iff, (frame_parseLeafBooleanExpression _ _ _).wp_iff]
    · intro l a b s
      rw [parseRightSideExpression]
      npfin [(ih1 _ _).iff, (ih2 _ _ _).iff, (f1 _ _).wp_iff, (f2 _ _ _).wp_iff]

theorem np_parseBooleanExpression (env : Env) (sn : String) (single negated : Bool) (n : Nat) :
    NP (parseBooleanExpression env sn single negated n) := (np_boolBlock env sn n).1 single negated

theorem np_tryParseLabelStatement : NP tryParseLabelStatement := by
  intro s; unfold tryParseLabelStatement; npsimp

theorem np_switchOperandLoop (ot : Tok) :
    ∀ (n : Nat) (parts : List String), NP (parseSwitchStatement.switchOperandLoop ot n parts) := by
  intro n
  induction n with
  | zero => intro parts s; rw [parseSwitchStatement.switchOperandLoop]; npsimp
  | succ n ih => intro parts s; rw [parseSwitchStatement.switchOperandLoop]; npsimp [(ih _).iff]

/-- Second panic site: with `requireExpression = true`, `parseConditionExpression` returns a
condition. -/
theorem cond_some (env : Env) (sn : String) (n : Nat) (s : PState) :
    wp (parseConditionExpression env sn true n) s (fun r _ => r.1 ≠ none) := by
  cases n with
  | zero => rw [parseConditionExpression]; wpsimp
  | succ n =>
    rw [parseConditionExpression]
    wpsimp [(frame_parseBooleanExpression _ _ _ _ _).wp_iff, wp_unfold (parseBlockStatement _ _ _ _ _ _)]
    wpfin
    all_goals simp

theorem opt_absurd {α} {o : Option α} (h1 : ¬ o = none) (h2 : ∀ c, ¬ o = some c) : False := by
  cases o with
  | none => exact h1 rfl
  | some c => exact h2 c rfl

/-- No function of the statement block panics, at fuel `n`. -/
structure NPAll (n : Nat) : Prop where
  block : ∀ env sn tok acc imp, NP (parseBlockStatement env sn tok n acc imp)
  swblock : ∀ env sn tok acc imp, NP (parseSwitchBlockStatement env sn tok n acc imp)
  stmt : ∀ env sn, NP (parseStatement env sn n)
  cond : ∀ env sn req, NP (parseConditionExpression env sn req n)
  elifs : ∀ env sn acc imp, NP (parseElifs env sn n acc imp)
  ifs : ∀ env sn, NP (parseIfStatement env sn n)
  whiles : ∀ env sn, NP (parseWhileStatement env sn n)
  doWhiles : ∀ env sn, NP (parseDoWhileStatement env sn n)
  cases : ∀ env sn tok cs vals hd imp, NP (parseSwitchCases env sn tok n cs vals hd imp)
  switch : ∀ env sn, NP (parseSwitchStatement env sn n)
  pory : ∀ env sn, NP (parsePoryswitchStatement env sn n)
  poryCases : ∀ env sn tok acc, NP (parsePoryswitchStatementCases env sn tok n acc)
  poryStmts : ∀ env sn am acc imp, NP (parsePoryswitchStatements env sn am n acc imp)

theorem npAll_zero : NPAll 0 :=
  { block := by intros; intro s; rw [parseBlockStatement]; npsimp
    swblock := by intros; intro s; rw [parseSwitchBlockStatement]; npsimp
    stmt := by intros; intro s; rw [parseStatement]; npsimp
    cond := by intros; intro s; rw [parseConditionExpression]; npsimp
    elifs := by intros; intro s; rw [parseElifs]; npsimp
    ifs := by intros; intro s; rw [parseIfStatement]; npsimp
    whiles := by intros; intro s; rw [parseWhileStatement]; npsimp
    doWhiles := by intros; intro s; rw [parseDoWhileStatement]; npsimp
    cases := by intros; intro s; rw [parseSwitchCases]; npsimp
    switch := by intros; intro s; rw [parseSwitchStatement]; npsimp
    pory := by intros; intro s; rw [parsePoryswitchStatement]; npsimp
    poryCases := by intros; intro s; rw [parsePoryswitchStatementCases]; npsimp
    poryStmts := by intros; intro s; rw [parsePoryswitchStatements]; npsimp }

theorem npAll_succ {n : Nat} (ih : NPAll n) : NPAll (n + 1) :=
  { block := by
      intro env sn tok acc imp s
      rw [parseBlockStatement]
      npfin [(ih.stmt _ _).iff, (ih.block _ _ _ _ _).iff, wp_unfold (parseStatement _ _ _)]
    swblock := by
      intro env sn tok acc imp s
      rw [parseSwitchBlockStatement]
      npfin [(ih.stmt _ _).iff, (ih.swblock _ _ _ _ _).iff, wp_unfold (parseStatement _ _ _)]
    stmt := by
      intro env sn s
      rw [parseStatement]
      npfin [(ih.ifs _ _).iff, (ih.whiles _ _).iff, (ih.doWhiles _ _).iff, (ih.switch _ _).iff,
        (ih.pory _ _).iff, (np_tryParseLabelStatement).iff, frame_tryParseLabelStatement.wp_iff,
        (np_parseCommandStatement _ _ _).iff, (frame_parseCommandStatement _ _ _).wp_iff]
    cond := by
      intro env sn req s
      rw [parseConditionExpression]
      npfin [(ih.block _ _ _ _ _).iff, (np_parseBooleanExpression _ _ _ _ _).iff,
        (frame_parseBooleanExpression _ _ _ _ _).wp_iff, wp_unfold (parseBlockStatement _ _ _ _ _ _)]
    elifs := by
      intro env sn acc imp s
      rw [parseElifs]
      npfin [(ih.cond _ _ _).iff, (ih.elifs _ _ _ _).iff, wp_spec (cond_some _ _ _ _)]
      all_goals contradiction
    ifs := by
      intro env sn s
      rw [parseIfStatement]
      npfin [(ih.cond _ _ _).iff, (ih.elifs _ _ _ _).iff, (ih.block _ _ _ _ _).iff,
        wp_spec (cond_some _ _ _ _), wp_unfold (parseElifs _ _ _ _ _),
        wp_unfold (parseBlockStatement _ _ _ _ _ _)]
      all_goals first
        | contradiction
        | exact opt_absurd (by assumption) (by assumption)
    whiles := by
      intro env sn s
      rw [parseWhileStatement]
      npfin [(ih.cond _ _ _).iff, wp_unfold (parseConditionExpression _ _ _ _)]
    doWhiles := by
      intro env sn s
      rw [parseDoWhileStatement]
      npfin [(ih.block _ _ _ _ _).iff, wp_unfold (parseBlockStatement _ _ _ _ _ _),
        (np_parseBooleanExpression _ _ _ _ _).iff, (frame_parseBooleanExpression _ _ _ _ _).wp_iff]
    cases := by
      intro env sn tok cs vals hd imp s
      rw [parseSwitchCases]
      npfin [(ih.swblock _ _ _ _ _).iff, (ih.cases _ _ _ _ _ _ _).iff,
        wp_unfold (parseSwitchBlockStatement _ _ _ _ _ _),
        (np_collectUntil _ _ ((notPanic_err _ _).2 trivial) _ _).iff, (frame_collectUntil _ _ _ _).wp_iff]
    switch := by
      intro env sn s
      rw [parseSwitchStatement]
      npfin [(ih.cases _ _ _ _ _ _ _).iff, wp_unfold (parseSwitchCases _ _ _ _ _ _ _ _),
        (np_expectPeekVarOrAutoVar _ _ _).iff, (frame_expectPeekVarOrAutoVar _ _ _).wp_iff,
        (np_switchOperandLoop _ _ _).iff, (frame_switchOperandLoop _ _ _).wp_iff]
    pory := by
      intro env sn s
      rw [parsePoryswitchStatement]
      npfin [(ih.poryCases _ _ _ _).iff, wp_unfold (parsePoryswitchStatementCases _ _ _ _ _),
        (np_parsePoryswitchHeader _).iff, (frame_parsePoryswitchHeader _).wp_iff]
    poryCases := by
      intro env sn tok acc s
      rw [parsePoryswitchStatementCases]
      npfin [(ih.poryStmts _ _ _ _ _).iff, (ih.poryCases _ _ _ _).iff,
        wp_unfold (parsePoryswitchStatements _ _ _ _ _ _)]
    poryStmts := by
      intro env sn am acc imp s
      rw [parsePoryswitchStatements]
      npfin [(ih.stmt _ _).iff, (ih.pory _ _).iff, (ih.poryStmts _ _ _ _ _).iff,
        wp_unfold (parseStatement _ _ _), wp_unfold (parsePoryswitchStatement _ _ _)] }

/-- **No function of the statement block panics**, for every fuel. -/
theorem npAll : ∀ n : Nat, NPAll n
  | 0 => npAll_zero
  | n + 1 => npAll_succ (npAll n)

/-! ### top level -/

theorem np_parseBlockStatement (env : Env) (sn : String) (tok : Tok) (n : Nat) (acc : List Stmt)
    (imp : ImpData) : NP (parseBlockStatement env sn tok n acc imp) := (npAll n).block env sn tok acc imp

theorem np_parseScriptStatement (env : Env) (n : Nat) : NP (parseScriptStatement env n) := by
  intro s
  unfold parseScriptStatement
  npfin [(np_parseScopeModifier _).iff, (frame_parseScopeModifier _).wp_iff,
    (np_parseBlockStatement _ _ _ _ _ _).iff, wp_unfold (parseBlockStatement _ _ _ _ _ _)]

theorem np_parseRawStatement : NP parseRawStatement := by
  intro s; unfold parseRawStatement; npsimp

theorem np_poryswitchTextCases (env : Env) (tok : Tok) :
    ∀ (n : Nat) (acc : List (String × String × String)), NP (poryswitchTextCases env tok n acc) := by
  intro n
  induction n with
  | zero => intro acc s; rw [poryswitchTextCases]; npsimp
  | succ n ih =>
    intro acc s
    rw [poryswitchTextCases]
    npfin [(ih _).iff, (np_parseTextValue _ _).iff, (frame_parseTextValue _ _).wp_iff]

theorem np_parsePoryswitchTextStatement (env : Env) (n : Nat) :
    NP (parsePoryswitchTextStatement env n) := by
  intro s
  unfold parsePoryswitchTextStatement
  npfin [(np_parsePoryswitchHeader _).iff, (frame_parsePoryswitchHeader _).wp_iff,
    (np_poryswitchTextCases _ _ _ _).iff, (frame_poryswitchTextCases _ _ _ _).wp_iff]

theorem np_parseTextStatement (env : Env) (n : Nat) : NP (parseTextStatement env n) := by
  intro s
  unfold parseTextStatement
  npfin [(np_parseScopeModifier _).iff, (frame_parseScopeModifier _).wp_iff,
    (np_parsePoryswitchTextStatement _ _).iff, (frame_parsePoryswitchTextStatement _ _).wp_iff,
    (np_parseTextValue _ _).iff, (frame_parseTextValue _ _).wp_iff]

theorem np_parseMovementStatement (env : Env) (n : Nat) : NP (parseMovementStatement env n) := by
  intro s
  unfold parseMovementStatement
  npfin [(np_parseScopeModifier _).iff, (frame_parseScopeModifier _).wp_iff,
    (np_parseListValue _ _ _ _ _).iff, (frame_parseListValue _ _ _ _ _).wp_iff]

theorem np_mapM_tryReplace : ∀ (l : List Tok), NP (l.mapM fun t => tryReplaceWithConstant t.lit) := by
  intro l
  induction l with
  | nil => intro s; simp only [List.mapM_nil]; npsimp
  | cons x r ih => intro s; simp only [List.mapM_cons]; npsimp [(ih).iff]

theorem np_parseMartStatement (env : Env) (n : Nat) : NP (parseMartStatement env n) := by
  intro s
  unfold parseMartStatement
  npfin [(np_parseScopeModifier _).iff, (frame_parseScopeModifier _).wp_iff,
    (np_parseListValue _ _ _ _ _).iff, (frame_parseListValue _ _ _ _ _).wp_iff,
    (np_mapM_tryReplace _).iff, (frame_mapM_tryReplace _).wp_iff]

theorem np_tableCollect (stop : Tok → Bool) (onEOF : PFail) (h : NotPanic onEOF) :
    ∀ (n : Nat) (acc : String), NP (tableCollect stop onEOF n acc) := by
  intro n
  induction n with
  | zero => intro acc s; rw [tableCollect]; npsimp
  | succ n ih => intro acc s; rw [tableCollect]; npsimp [(ih _).iff, iff_true_intro h]

theorem np_parseTableEntries (env : Env) (ms ty : String) : ∀ (n i : Nat) (acc : List TableEntry)
    (imp : ImpData), NP (parseTableEntries env ms ty n i acc imp) := by
  intro n
  induction n with
  | zero => intro i acc imp s; rw [parseTableEntries]; npsimp
  | succ n ih =>
    intro i acc imp s
    rw [parseTableEntries]
    npfin [(ih _ _ _).iff, (np_tableCollect _ _ ((notPanic_err _ _).2 trivial) _ _).iff,
      (np_tableCollect _ _ ((notPanic_rerr _ _ _).2 trivial) _ _).iff, (frame_tableCollect _ _ _ _).wp_iff,
      (np_parseBlockStatement _ _ _ _ _ _).iff, wp_unfold (parseBlockStatement _ _ _ _ _ _)]

theorem np_parseMapScriptEntries (env : Env) (ms : String) : ∀ (n : Nat) (mss : List MapScript)
    (tables : List TableMapScript) (imp : ImpData), NP (parseMapScriptEntries env ms n mss tables imp) := by
  intro n
  induction n with
  | zero => intro mss tables imp s; rw [parseMapScriptEntries]; npsimp
  | succ n ih =>
    intro mss tables imp s
    rw [parseMapScriptEntries]
    npfin [(ih _ _ _).iff, (np_parseTableEntries _ _ _ _ _ _ _).iff,
      wp_unfold (parseTableEntries _ _ _ _ _ _ _),
      (np_parseBlockStatement _ _ _ _ _ _).iff, wp_unfold (parseBlockStatement _ _ _ _ _ _)]

theorem np_parseMapscriptsStatement (env : Env) (n : Nat) : NP (parseMapscriptsStatement env n) := by
  intro s
  unfold parseMapscriptsStatement
  npfin [(np_parseScopeModifier _).iff, (frame_parseScopeModifier _).wp_iff,
    (np_parseMapScriptEntries _ _ _ _ _ _).iff, wp_unfold (parseMapScriptEntries _ _ _ _ _ _)]

theorem np_constLoop : ∀ (n : Nat) (acc : String), NP (constLoop n acc) := by
  intro n
  induction n with
  | zero => intro acc s; rw [constLoop]; npsimp
  | succ n ih => intro acc s; rw [constLoop]; npsimp [(ih _).iff]

theorem np_parseConstant (n : Nat) : NP (parseConstant n) := by
  intro s
  unfold parseConstant
  npfin [(np_constLoop _ _).iff, (frame_constLoop _ _).wp_iff]

theorem np_addImplicitData (d : ImpData) : NP (addImplicitData d) := by
  intro s
  unfold addImplicitData addImplicitTexts addImplicitMovements
  npsimp

theorem np_parseTopLevelStatement (env : Env) (n : Nat) : NP (parseTopLevelStatement env n) := by
  intro s
  unfold parseTopLevelStatement
  npfin [(np_parseScriptStatement _ _).iff, wp_unfold (parseScriptStatement _ _),
    (np_addImplicitData _).iff, wp_unfold (addImplicitData _),
    (np_parseRawStatement).iff, wp_unfold parseRawStatement,
    (np_parseTextStatement _ _).iff, wp_unfold (parseTextStatement _ _),
    (np_parseMovementStatement _ _).iff, wp_unfold (parseMovementStatement _ _),
    (np_parseMartStatement _ _).iff, wp_unfold (parseMartStatement _ _),
    (np_parseMapscriptsStatement _ _).iff, wp_unfold (parseMapscriptsStatement _ _),
    (np_parseConstant _).iff, wp_unfold (parseConstant _)]

theorem np_topLoop (env : Env) (fuel : Nat) : ∀ (n : Nat) (acc : List Top), NP (topLoop env fuel n acc) := by
  intro n
  induction n with
  | zero => intro acc s; rw [topLoop]; npsimp
  | succ n ih =>
    intro acc s
    rw [topLoop]
    npfin [(ih _).iff, (np_parseTopLevelStatement _ _).iff, wp_unfold (parseTopLevelStatement _ _)]

theorem np_parseProgramM (env : Env) (fuel : Nat) : NP (parseProgramM env fuel) := by
  intro s
  unfold parseProgramM
  npfin [(np_topLoop _ _ _ _).iff, wp_unfold (topLoop _ _ _ _)]

/-- **The parser never panics.** -/
theorem no_panic_parseTokens (env : Env) (toks : List Tok) (w : String) :
    parseTokens env toks ≠ .error (.panic w) := by
  unfold parseTokens
  simp only [StateT.run']
  intro h
  generalize hr : (parseProgramM env (4 * toks.length + 50))
    { toks := toks, eof := toks.getLastD { type := .EOF } } = res at h
  cases res with
  | error e =>
    simp only [Functor.map, Except.map, Except.error.injEq] at h
    subst h
    exact np_parseProgramM env _ _ w hr
  | ok r => simp [Functor.map, Except.map] at h

end Pory.Parser
