import PoryProofs.ParserScopesTop
/-
C18 (totality of the parser), part 1: `.panic` is unreachable.

`np m s` : running `m` from `s` does not end in `.error (.panic _)`.  `np_bind` reduces `np` of a
`do` block to `np` of its parts plus a `wp` fact about the intermediate results, so the symbolic
execution of `ParserWp.lean` / `ParserFrames.lean` is reused (`npsimp`).

The only `panic` sites of the model are
* `parseLeafBooleanExpression`: `expectPeekVarOrAutoVar` returned `none` although
  `peekTokenIsAutoVar` held  (`autoVar_some`),
* `parseElifs` / `parseIfStatement`: no condition although `requireExpression = true` (`cond_some`);
both are shown unreachable, and `no_panic_parseTokens` concludes that the parser never panics.

Part 2 (fuel): see the end of this file for what is proved and what is only stated.
-/
namespace Pory.Parser
open Pory

def NotPanic (e : PFail) : Prop := ∀ w, e ≠ .panic w

/-- Running `m` from `s` does not end in a panic. -/
def np {α} (m : PM α) (s : PState) : Prop := ∀ w, m.run s ≠ .error (.panic w)

theorem np_bind {α β} (m : PM α) (f : α → PM β) (s : PState) :
    np (m >>= f) s ↔ np m s ∧ wp m s (fun a s1 => np (f a) s1) := by
  unfold np wp
  simp only [StateT.run_bind]
  cases h : m.run s with
  | error e => simp [bind, Except.bind]
  | ok r =>
    obtain ⟨a, s1⟩ := r
    simp [bind, Except.bind]

theorem np_pure {α} (a : α) (s : PState) : np (pure a : PM α) s ↔ True := by
  simp [np, pure, StateT.pure, StateT.run, Except.pure]

theorem np_fail {α} (e : PFail) (s : PState) : np (fail e : PM α) s ↔ NotPanic e := by
  simp [np, NotPanic, fail, throw, throwThe, MonadExceptOf.throw, StateT.run, StateT.lift, bind, Except.bind]
  constructor
  · intro h w hw; exact h w hw
  · intro h w hw; exact h w hw

theorem notPanic_err (t : Tok) (m : String) : NotPanic (newParseError t m) ↔ True :=
  iff_true_intro (fun _ h => by cases h)
theorem notPanic_rerr (t1 t2 : Tok) (m : String) : NotPanic (newRangeParseError t1 t2 m) ↔ True :=
  iff_true_intro (fun _ h => by cases h)
theorem notPanic_fuel : NotPanic .outOfFuel ↔ True := iff_true_intro (fun _ h => by cases h)
theorem notPanic_panic (w : String) : NotPanic (.panic w) ↔ False :=
  iff_false_intro (fun h => h w rfl)

theorem np_ite {α} (c : Prop) [Decidable c] (a b : PM α) (s : PState) :
    np (if c then a else b) s ↔ if c then np a s else np b s := by
  split <;> rfl

theorem np_get (s : PState) : np (get : PM PState) s ↔ True := by
  simp [np, StateT.run, get, getThe, MonadStateOf.get, StateT.get, pure, Except.pure]
theorem np_set (s1 s : PState) : np (set s1 : PM PUnit) s ↔ True := by
  simp [np, StateT.run, set, StateT.set, pure, Except.pure]
theorem np_modify (f : PState → PState) (s : PState) : np (modify f : PM PUnit) s ↔ True := by
  simp [np, StateT.run, modify, modifyGet, MonadStateOf.modifyGet, StateT.modifyGet, pure, Except.pure]

theorem np_cur (s : PState) : np cur s ↔ True := by
  unfold cur; simp only [np_bind, np_get, np_pure, wp_get, and_self]
theorem np_peekAt (n : Nat) (s : PState) : np (peekAt n) s ↔ True := by
  unfold peekAt; simp only [np_bind, np_get, np_pure, wp_get, and_self]
theorem np_peek (s : PState) : np peek s ↔ True := np_peekAt 1 s
theorem np_peek2 (s : PState) : np peek2 s ↔ True := np_peekAt 2 s
theorem np_peek3 (s : PState) : np peek3 s ↔ True := np_peekAt 3 s
theorem np_peek4 (s : PState) : np peek4 s ↔ True := np_peekAt 4 s
theorem np_nextToken (s : PState) : np nextToken s ↔ True := by unfold nextToken; exact np_modify _ s
theorem np_curIs (t : TT) (s : PState) : np (curIs t) s ↔ True := by
  unfold curIs; simp only [np_bind, np_cur, np_pure, wp_cur, and_self]
theorem np_peekIs (t : TT) (s : PState) : np (peekIs t) s ↔ True := by
  unfold peekIs; simp only [np_bind, np_peek, np_pure, wp_peek, and_self]
theorem np_peek2Is (t : TT) (s : PState) : np (peek2Is t) s ↔ True := by
  unfold peek2Is; simp only [np_bind, np_peek2, np_pure, wp_peek2, and_self]
theorem np_expectPeek (t : TT) (s : PState) : np (expectPeek t) s ↔ True := by
  unfold expectPeek
  simp only [np_bind, np_peekIs, np_ite, np_nextToken, np_pure, wp_peekIs, wp_nextToken, true_and, ite_self]
theorem np_expectPeekErr (t : TT) (s : PState) : np (expectPeekErr t) s ↔ True := by
  unfold expectPeekErr
  simp only [np_bind, np_peek, np_ite, np_nextToken, np_fail, notPanic_err, wp_peek, true_and, ite_self]
theorem np_tryReplace (v : String) (s : PState) : np (tryReplaceWithConstant v) s ↔ True := by
  unfold tryReplaceWithConstant; simp only [np_bind, np_get, np_pure, wp_get, and_self]
theorem np_newSid (s : PState) : np newSid s ↔ True := by
  unfold newSid; simp only [np_bind, np_get, np_set, np_pure, wp_get, wp_set, and_self]
theorem np_pushBreak (x : Nat) (s : PState) : np (pushBreak x) s ↔ True := by
  unfold pushBreak; exact np_modify _ s
theorem np_popBreak (s : PState) : np popBreak s ↔ True := by unfold popBreak; exact np_modify _ s
theorem np_pushContinue (x : Nat) (s : PState) : np (pushContinue x) s ↔ True := by
  unfold pushContinue; exact np_modify _ s
theorem np_popContinue (s : PState) : np popContinue s ↔ True := by unfold popContinue; exact np_modify _ s

/-- `m` never panics, from any state. -/
def NP {α} (m : PM α) : Prop := ∀ s, np m s

theorem NP.iff {α} {m : PM α} (h : NP m) (s : PState) : np m s ↔ True := iff_true_intro (h s)

theorem wp_unfold {α} (m : PM α) (s : PState) (Q : α → PState → Prop) :
    wp m s Q ↔ ∀ a s', m.run s = .ok (a, s') → Q a s' := Iff.rfl

/-- Symbolic execution for `np`. -/
syntax "npsimp" (" [" Lean.Parser.Tactic.simpLemma,* "]")? : tactic
macro_rules
  | `(tactic| npsimp) => `(tactic| swp [np_bind, np_pure, np_fail, np_ite, notPanic_err, notPanic_rerr,
      notPanic_fuel, notPanic_panic, np_get, np_set, np_modify, np_cur, np_peek, np_peek2, np_peek3, np_peek4,
      np_nextToken, np_curIs, np_peekIs, np_peek2Is, np_expectPeek, np_expectPeekErr, np_tryReplace, np_newSid,
      np_pushBreak, np_popBreak, np_pushContinue, np_popContinue, wp_modify, wp_set, and_true, true_and])
  | `(tactic| npsimp [$ts,*]) => `(tactic| swp [np_bind, np_pure, np_fail, np_ite, notPanic_err, notPanic_rerr,
      notPanic_fuel, notPanic_panic, np_get, np_set, np_modify, np_cur, np_peek, np_peek2, np_peek3, np_peek4,
      np_nextToken, np_curIs, np_peekIs, np_peek2Is, np_expectPeek, np_expectPeekErr, np_tryReplace, np_newSid,
      np_pushBreak, np_popBreak, np_pushContinue, np_popContinue, wp_modify, wp_set, and_true, true_and, $ts,*])

/-- Finish: alternate `npsimp` with introducing binders, splitting `if`/`match` and conjunctions. -/
syntax "npfin" (" [" Lean.Parser.Tactic.simpLemma,* "]")? : tactic
macro_rules
  | `(tactic| npfin) => `(tactic| repeat' (first | trivial | npsimp | (intros; split) | (intros; constructor)))
  | `(tactic| npfin [$ts,*]) =>
    `(tactic| repeat' (first | trivial | npsimp [$ts,*] | (intros; split) | (intros; constructor)))

theorem np_parsePoryswitchHeader (env : Env) : NP (parsePoryswitchHeader env) := by
  intro s; unfold parsePoryswitchHeader; npsimp

theorem np_parseScopeModifier (d : TT) : NP (parseScopeModifier d) := by
  intro s; unfold parseScopeModifier; npsimp

theorem np_formatNamedParams : ∀ (n : Nat) (fp : FmtParams), NP (formatNamedParams n fp) := by
  intro n
  induction n with
  | zero => intro fp s; rw [formatNamedParams]; npsimp
  | succ n ih =>
    intro fp s
    rw [formatNamedParams]
    npsimp [(ih _).iff, (frame_formatNamedParams _ _).wp_iff]

end Pory.Parser
