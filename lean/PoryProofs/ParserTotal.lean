import PoryProofs.ParserScopesTop
/-
C18 (totality of the parser), part 1: `.panic` is unreachable.

`np m s` : running `m` from `s` does not end in `.error (.panic _)`.  `np_bind` reduces `np` of a
`do` block to `np` of its parts plus a `wp` fact about the intermediate results, so the symbolic
execution of `ParserWp.lean` / `ParserFrames.lean` is reused (`npsimp`).

The only `panic` sites of the model are
* `parseLeafBooleanExpression`: `expectPeekVarOrAutoVar` returned `none` although
  `peekTokenIsAutoVar` held  (`autoVar_some`),
* `parseElifs` / `parseIfStatement`: no condition although `requireExpression = true` (`cond_some`);
both are shown unreachable, and `no_panic_parseTokens` concludes that the parser never panics.

Part 2 (fuel): see the end of this file for what is proved and what is only stated.
-/
namespace Pory.Parser
open Pory

def NotPanic (e : PFail) : Prop := ∀ w, e ≠ .panic w

/-- Running `m` from `s` does not end in a panic. -/
def np {α} (m : PM α) (s : PState) : Prop := ∀ w, m.run s ≠ .error (.panic w)

theorem np_bind {α β} (m : PM α) (f : α → PM β) (s : PState) :
    np (m >>= f) s ↔ np m s ∧ wp m s (fun a s1 => np (f a) s1) := by
  unfold np wp
  simp only [StateT.run_bind]
  cases h : m.run s with
  | error e => simp [bind, Except.bind]
  | ok r =>
    obtain ⟨a, s1⟩ := r
    simp [bind, Except.bind]

theorem np_pure {α} (a : α) (s : PState) : np (pure a : PM α) s ↔ True := by
  simp [np, pure, StateT.pure, StateT.run, Except.pure]

theorem np_fail {α} (e : PFail) (s : PState) : np (fail e : PM α) s ↔ NotPanic e := by
  simp [np, NotPanic, fail, throw, throwThe, MonadExceptOf.throw, StateT.run, StateT.lift, bind, Except.bind]

theorem notPanic_err (t : Tok) (m : String) : NotPanic (newParseError t m) ↔ True :=
  iff_true_intro (fun _ h => by cases h)
theorem notPanic_rerr (t1 t2 : Tok) (m : String) : NotPanic (newRangeParseError t1 t2 m) ↔ True :=
  iff_true_intro (fun _ h => by cases h)
theorem notPanic_fuel : NotPanic .outOfFuel ↔ True := iff_true_intro (fun _ h => by cases h)
theorem notPanic_panic (w : String) : NotPanic (.panic w) ↔ False :=
  iff_false_intro (fun h => h w rfl)

theorem np_ite {α} (c : Prop) [Decidable c] (a b : PM α) (s : PState) :
    np (if c then a else b) s ↔ if c then np a s else np b s := by
  split <;> rfl

theorem np_get (s : PState) : np (get : PM PState) s ↔ True := by
  simp [np, StateT.run, get, getThe, MonadStateOf.get, StateT.get, pure, Except.pure]
theorem np_set (s1 s : PState) : np (set s1 : PM PUnit) s ↔ True := by
  simp [np, StateT.run, set, StateT.set, pure, Except.pure]
theorem np_modify (f : PState → PState) (s : PState) : np (modify f : PM PUnit) s ↔ True := by
  simp [np, StateT.run, modify, modifyGet, MonadStateOf.modifyGet, StateT.modifyGet, pure, Except.pure]

theorem np_cur (s : PState) : np cur s ↔ True := by
  unfold cur; simp only [np_bind, np_get, np_pure, wp_get, and_self]
theorem np_peekAt (n : Nat) (s : PState) : np (peekAt n) s ↔ True := by
  unfold peekAt; simp only [np_bind, np_get, np_pure, wp_get, and_self]
theorem np_peek (s : PState) : np peek s ↔ True := np_peekAt 1 s
theorem np_peek2 (s : PState) : np peek2 s ↔ True := np_peekAt 2 s
theorem np_peek3 (s : PState) : np peek3 s ↔ True := np_peekAt 3 s
theorem np_peek4 (s : PState) : np peek4 s ↔ True := np_peekAt 4 s
theorem np_nextToken (s : PState) : np nextToken s ↔ True := by unfold nextToken; exact np_modify _ s
theorem np_curIs (t : TT) (s : PState) : np (curIs t) s ↔ True := by
  unfold curIs; simp only [np_bind, np_cur, np_pure, wp_cur, and_self]
theorem np_peekIs (t : TT) (s : PState) : np (peekIs t) s ↔ True := by
  unfold peekIs; simp only [np_bind, np_peek, np_pure, wp_peek, and_self]
theorem np_peek2Is (t : TT) (s : PState) : np (peek2Is t) s ↔ True := by
  unfold peek2Is; simp only [np_bind, np_peek2, np_pure, wp_peek2, and_self]
theorem np_expectPeek (t : TT) (s : PState) : np (expectPeek t) s ↔ True := by
  unfold expectPeek
  simp only [np_bind, np_peekIs, np_ite, np_nextToken, np_pure, wp_peekIs, wp_nextToken, true_and, ite_self]
theorem np_expectPeekErr (t : TT) (s : PState) : np (expectPeekErr t) s ↔ True := by
  unfold expectPeekErr
  simp only [np_bind, np_peek, np_ite, np_nextToken, np_fail, notPanic_err, wp_peek, true_and, ite_self]
theorem np_tryReplace (v : String) (s : PState) : np (tryReplaceWithConstant v) s ↔ True := by
  unfold tryReplaceWithConstant; simp only [np_bind, np_get, np_pure, wp_get, and_self]
theorem np_newSid (s : PState) : np newSid s ↔ True := by
  unfold newSid; simp only [np_bind, np_get, np_set, np_pure, wp_get, wp_set, and_self]
theorem np_pushBreak (x : Nat) (s : PState) : np (pushBreak x) s ↔ True := by
  unfold pushBreak; exact np_modify _ s
theorem np_popBreak (s : PState) : np popBreak s ↔ True := by unfold popBreak; exact np_modify _ s
theorem np_pushContinue (x : Nat) (s : PState) : np (pushContinue x) s ↔ True := by
  unfold pushContinue; exact np_modify _ s
theorem np_popContinue (s : PState) : np popContinue s ↔ True := by unfold popContinue; exact np_modify _ s

/-- `m` never panics, from any state. -/
def NP {α} (m : PM α) : Prop := ∀ s, np m s

theorem NP.iff {α} {m : PM α} (h : NP m) (s : PState) : np m s ↔ True := iff_true_intro (h s)

theorem wp_true_iff {α} (m : PM α) (s : PState) : wp m s (fun _ _ => True) ↔ True :=
  iff_true_intro (wp_true m s)

theorem wp_unfold {α} (m : PM α) (s : PState) (Q : α → PState → Prop) :
    wp m s Q ↔ ∀ a s', m.run s = .ok (a, s') → Q a s' := Iff.rfl

/-- Symbolic execution for `np`. -/
syntax "npsimp" (" [" Lean.Parser.Tactic.simpLemma,* "]")? : tactic
macro_rules
  | `(tactic| npsimp) => `(tactic| swp [np_bind, np_pure, np_fail, np_ite, notPanic_err, notPanic_rerr,
      notPanic_fuel, notPanic_panic, np_get, np_set, np_modify, np_cur, np_peek, np_peek2, np_peek3, np_peek4,
      np_nextToken, np_curIs, np_peekIs, np_peek2Is, np_expectPeek, np_expectPeekErr, np_tryReplace, np_newSid,
      np_pushBreak, np_popBreak, np_pushContinue, np_popContinue, wp_modify, wp_set, and_true, true_and,
      wp_true_iff])
  | `(tactic| npsimp [$ts,*]) => `(tactic| swp [np_bind, np_pure, np_fail, np_ite, notPanic_err, notPanic_rerr,
      notPanic_fuel, notPanic_panic, np_get, np_set, np_modify, np_cur, np_peek, np_peek2, np_peek3, np_peek4,
      np_nextToken, np_curIs, np_peekIs, np_peek2Is, np_expectPeek, np_expectPeekErr, np_tryReplace, np_newSid,
      np_pushBreak, np_popBreak, np_pushContinue, np_popContinue, wp_modify, wp_set, and_true, true_and,
      wp_true_iff, $ts,*])

/-- Finish: alternate `npsimp` with introducing binders, splitting `if`/`match` and conjunctions. -/
syntax "npfin" (" [" Lean.Parser.Tactic.simpLemma,* "]")? : tactic
macro_rules
  | `(tactic| npfin) => `(tactic| repeat' (first | trivial | npsimp | (intros; split) | (intros; constructor)))
  | `(tactic| npfin [$ts,*]) =>
    `(tactic| repeat' (first | trivial | npsimp [$ts,*] | (intros; split) | (intros; constructor)))

theorem np_parsePoryswitchHeader (env : Env) : NP (parsePoryswitchHeader env) := by
  intro s; unfold parsePoryswitchHeader; npsimp

theorem np_parseScopeModifier (d : TT) : NP (parseScopeModifier d) := by
  intro s; unfold parseScopeModifier; npsimp

theorem np_formatNamedParams : ∀ (n : Nat) (fp : FmtParams), NP (formatNamedParams n fp) := by
  intro n
  induction n with
  | zero => intro fp s; rw [formatNamedParams]; npsimp
  | succ n ih =>
    intro fp s
    rw [formatNamedParams]
    npsimp [(ih _).iff, (frame_formatNamedParams _ _).wp_iff]

theorem np_fmtMatch {α} (x : Except String (List Char)) (f : List Char → PM α) (g : String → PM α)
    (s : PState) :
    np (parseFormatStringOperator.match_1 (fun _ => PM α) x f g) s ↔
      (∀ a, x = .ok a → np (f a) s) ∧ (∀ e, x = .error e → np (g e) s) := by
  cases x <;> simp

theorem np_parseFormatStringOperator (env : Env) (n : Nat) : NP (parseFormatStringOperator env n) := by
  intro s
  unfold parseFormatStringOperator
  npsimp [(np_formatNamedParams _ _).iff, (frame_formatNamedParams _ _).wp_iff, wp_fmtMatch, np_fmtMatch]

theorem np_parseTextValue (env : Env) (n : Nat) : NP (parseTextValue env n) := by
  intro s
  unfold parseTextValue
  npsimp [(np_parseFormatStringOperator _ _).iff, (frame_parseFormatStringOperator _ _).wp_iff]

theorem np_listBlock (env : Env) : ∀ n : Nat,
    (∀ kind am acc, NP (parseListValue env kind am n acc)) ∧
    (∀ kind, NP (parsePoryswitchListStatement env kind n)) ∧
    (∀ kind tok acc, NP (parsePoryswitchListCases env kind tok n acc)) := by
  intro n
  induction n with
  | zero =>
    refine ⟨?_, ?_, ?_⟩
    · intro kind am acc s; rw [parseListValue]; npsimp
    · intro kind s; rw [parsePoryswitchListStatement]; npsimp
    · intro kind tok acc s; rw [parsePoryswitchListCases]; npsimp
  | succ n ih =>
    obtain ⟨ih1, ih2, ih3⟩ := ih
    have f1 := fun kind am acc => (frame_listBlock env n).1 kind am acc
    have f2 := fun kind => (frame_listBlock env n).2.1 kind
    have f3 := fun kind tok acc => (frame_listBlock env n).2.2 kind tok acc
    refine ⟨?_, ?_, ?_⟩
    · intro kind am acc s
      rw [parseListValue]
      cases kind <;>
        npfin [(ih1 _ _ _).iff, (ih2 _).iff, (f1 _ _ _).wp_iff, (f2 _).wp_iff]
    · intro kind s
      rw [parsePoryswitchListStatement]
      npfin [(ih3 _ _ _).iff, (f3 _ _ _).wp_iff, (np_parsePoryswitchHeader _).iff,
        (frame_parsePoryswitchHeader _).wp_iff]
    · intro kind tok acc s
      rw [parsePoryswitchListCases]
      npfin [(ih1 _ _ _).iff, (ih3 _ _ _).iff, (f1 _ _ _).wp_iff, (f3 _ _ _).wp_iff]

theorem np_parseListValue (env : Env) (kind : ListKind) (am : Bool) (n : Nat) (acc : List Tok) :
    NP (parseListValue env kind am n acc) := (np_listBlock env n).1 kind am acc

theorem np_parseMovesOperator (env : Env) (n : Nat) : NP (parseMovesOperator env n) := by
  intro s
  unfold parseMovesOperator
  npsimp [(np_parseListValue _ _ _ _ _).iff]

theorem np_cmdArgsLoop (env : Env) (sn : String) (id : Nat) (tok : Tok) :
    ∀ (n : Nat) (a : CmdAcc), NP (cmdArgsLoop env sn id tok n a) := by
  intro n
  induction n with
  | zero => intro a s; rw [cmdArgsLoop]; npsimp
  | succ n ih =>
    intro a s
    rw [cmdArgsLoop]
    npsimp [(ih _).iff, (np_parseFormatStringOperator _ _).iff, (frame_parseFormatStringOperator _ _).wp_iff,
      (np_parseMovesOperator _ _).iff, (frame_parseMovesOperator _ _).wp_iff]

theorem np_parseCommandStatement (env : Env) (sn : String) (n : Nat) :
    NP (parseCommandStatement env sn n) := by
  intro s
  unfold parseCommandStatement
  npsimp [(np_cmdArgsLoop _ _ _ _ _ _).iff, wp_bumpCmdId]

theorem np_expectPeekVarOrAutoVar (env : Env) (sn : String) (n : Nat) :
    NP (expectPeekVarOrAutoVar env sn n) := by
  intro s
  unfold expectPeekVarOrAutoVar
  npfin [(np_parseCommandStatement _ _ _).iff, (frame_parseCommandStatement _ _ _).wp_iff]

/-- First panic site: when the peek token is an `IDENT` (as `peekTokenIsAutoVar` requires),
`expectPeekVarOrAutoVar` does not return `none`. -/
theorem autoVar_some (env : Env) (sn : String) (n : Nat) (s : PState)
    (h : (s.toks.getD 1 s.eof).type = .IDENT) :
    wp (expectPeekVarOrAutoVar env sn n) s (fun r _ => r ≠ none) := by
  unfold expectPeekVarOrAutoVar
  have h1 : ((s.toks.getD 1 s.eof).type == TT.VAR) = false := by rw [h]; decide
  wpsimp [(frame_parseCommandStatement _ _ _).wp_iff, h1]
  wpfin [wp_true_iff]
  all_goals first | exact wp_true _ _ | simp

theorem np_peekTokenIsAutoVar (env : Env) : NP (peekTokenIsAutoVar env) := by
  intro s; unfold peekTokenIsAutoVar; npsimp

/-- `peekTokenIsAutoVar` only returns `true` on an `IDENT`. -/
theorem peekTokenIsAutoVar_true (env : Env) (s : PState) :
    wp (peekTokenIsAutoVar env) s (fun r s' => s' = s ∧ (r = true → (s.toks.getD 1 s.eof).type = .IDENT)) := by
  unfold peekTokenIsAutoVar
  wpsimp
  split <;> simp_all

theorem np_collectUntil (stop : Tok → Bool) (onEOF : PFail) (h : NotPanic onEOF) :
    ∀ (n : Nat) (parts : List String), NP (collectUntil stop onEOF n parts) := by
  intro n
  induction n with
  | zero => intro parts s; rw [collectUntil]; npsimp
  | succ n ih =>
    intro parts s; rw [collectUntil]
    npsimp [(ih _).iff, iff_true_intro h]

theorem np_valueLoop (vt : Tok) : ∀ (n k : Nat) (parts : List String), NP (valueLoop vt n k parts) := by
  intro n
  induction n with
  | zero => intro k parts s; rw [valueLoop]; npsimp
  | succ n ih => intro k parts s; rw [valueLoop]; npsimp [(ih _ _).iff]

theorem np_collectUntilRange (st : Tok) :
    ∀ (n : Nat) (parts : List String), NP (parseConditionVarOperator.collectUntilRange st n parts) := by
  intro n
  induction n with
  | zero => intro parts s; rw [parseConditionVarOperator.collectUntilRange]; npsimp
  | succ n ih => intro parts s; rw [parseConditionVarOperator.collectUntilRange]; npsimp [(ih _).iff]

theorem np_parseConditionVarOperator (e : OpExpr) (n : Nat) : NP (parseConditionVarOperator e n) := by
  intro s
  unfold parseConditionVarOperator
  npsimp [(np_valueLoop _ _ _ _).iff, (frame_valueLoop _ _ _ _).wp_iff, (np_collectUntilRange _ _ _).iff,
    (frame_collectUntilRange _ _ _).wp_iff]

theorem np_parseConditionFlagLikeOperator (e : OpExpr) (nm : String) :
    NP (parseConditionFlagLikeOperator e nm) := by
  intro s; unfold parseConditionFlagLikeOperator; npsimp

end Pory.Parser
