import PoryProofs.ParserFrames2
import PoryProofs.Scoped
/-
C20 (scopes well-formed): the statement parser balances its break / continue stacks, every
`break` / `continue` it emits names a scope on the stack at that point, the scope ids it introduces
are fresh and pairwise distinct, and every `switch` has at most one `default` case.

Part 1 (this section): the static predicates (`bindersL`, `odStmts`, `WF`) and their algebra.
Part 2: the invariant of the mutual statement block, by simultaneous induction on fuel (`specAll`).
-/
namespace Pory.Parser
open Pory Pory.Sem

/-! ### scope ids introduced by statements -/
mutual
def binders : Stmt → List Nat
  | .cmd _ => []
  | .label .. => []
  | .ite _ _ t elifs els =>
    bindersL t ++ (bindersE elifs ++ (match els with | some e => bindersL e | none => []))
  | .while_ _ sid _ b => sid :: bindersL b
  | .doWhile _ sid _ b => sid :: bindersL b
  | .brk .. => []
  | .cont .. => []
  | .switch_ _ sid _ cases => sid :: bindersC cases
def bindersL : List Stmt → List Nat
  | [] => []
  | s :: r => binders s ++ bindersL r
def bindersE : List (BoolExpr × List Stmt) → List Nat
  | [] => []
  | (_, b) :: r => bindersL b ++ bindersE r
def bindersC : List SwitchCase → List Nat
  | [] => []
  | (_, _, b) :: r => bindersL b ++ bindersC r
end

/-- Number of `default` cases of a switch. -/
def numDefaults (cs : List SwitchCase) : Nat := (cs.filter (fun c => c.2.1)).length

/-! ### at most one `default` per switch, everywhere -/
mutual
def odStmt : Stmt → Prop
  | .cmd _ => True
  | .label .. => True
  | .ite _ _ t elifs els =>
    odStmts t ∧ odElifs elifs ∧ (match els with | some e => odStmts e | none => True)
  | .while_ _ _ _ b => odStmts b
  | .doWhile _ _ _ b => odStmts b
  | .brk .. => True
  | .cont .. => True
  | .switch_ _ _ _ cases => numDefaults cases ≤ 1 ∧ odCases cases
def odStmts : List Stmt → Prop
  | [] => True
  | s :: r => odStmt s ∧ odStmts r
def odElifs : List (BoolExpr × List Stmt) → Prop
  | [] => True
  | (_, b) :: r => odStmts b ∧ odElifs r
def odCases : List SwitchCase → Prop
  | [] => True
  | (_, _, b) :: r => odStmts b ∧ odCases r
end

/-- Every `switch` statement anywhere inside has at most one `default` case. -/
def OneDefault (l : List Stmt) : Prop := odStmts l

theorem binders_ite (tok : Tok) (c : BoolExpr) (t : List Stmt) (elifs : List (BoolExpr × List Stmt))
    (els : Option (List Stmt)) :
    binders (.ite tok c t elifs els) =
      bindersL t ++ (bindersE elifs ++ (match els with | some e => bindersL e | none => [])) := by
  cases els <;> simp only [binders]

theorem odStmt_ite (tok : Tok) (c : BoolExpr) (t : List Stmt) (elifs : List (BoolExpr × List Stmt))
    (els : Option (List Stmt)) :
    odStmt (.ite tok c t elifs els) ↔
      (odStmts t ∧ odElifs elifs ∧ (match els with | some e => odStmts e | none => True)) := by
  cases els <;> simp only [odStmt]

/-! ### append lemmas -/
theorem bindersL_append (a b : List Stmt) : bindersL (a ++ b) = bindersL a ++ bindersL b := by
  induction a with
  | nil => simp [bindersL]
  | cons x r ih => simp [bindersL, ih]

theorem bindersE_append (a b : List (BoolExpr × List Stmt)) :
    bindersE (a ++ b) = bindersE a ++ bindersE b := by
  induction a with
  | nil => simp [bindersE]
  | cons x r ih => obtain ⟨e, bd⟩ := x; simp [bindersE, ih]

theorem bindersC_append (a b : List SwitchCase) : bindersC (a ++ b) = bindersC a ++ bindersC b := by
  induction a with
  | nil => simp [bindersC]
  | cons x r ih => obtain ⟨t, d, bd⟩ := x; simp [bindersC, ih]

theorem scopedStmts_append (B C : List Nat) (a b : List Stmt) :
    scopedStmts B C (a ++ b) ↔ scopedStmts B C a ∧ scopedStmts B C b := by
  induction a with
  | nil => simp [scopedStmts]
  | cons x r ih => simp [scopedStmts, ih, and_assoc]

theorem scopedElifs_append (B C : List Nat) (a b : List (BoolExpr × List Stmt)) :
    scopedElifs B C (a ++ b) ↔ scopedElifs B C a ∧ scopedElifs B C b := by
  induction a with
  | nil => simp [scopedElifs]
  | cons x r ih => obtain ⟨e, bd⟩ := x; simp [scopedElifs, ih, and_assoc]

theorem scopedCases_append (B C : List Nat) (a b : List SwitchCase) :
    scopedCases B C (a ++ b) ↔ scopedCases B C a ∧ scopedCases B C b := by
  induction a with
  | nil => simp [scopedCases]
  | cons x r ih => obtain ⟨t, d, bd⟩ := x; simp [scopedCases, ih, and_assoc]

theorem odStmts_append (a b : List Stmt) : odStmts (a ++ b) ↔ odStmts a ∧ odStmts b := by
  induction a with
  | nil => simp [odStmts]
  | cons x r ih => simp [odStmts, ih, and_assoc]

theorem odElifs_append (a b : List (BoolExpr × List Stmt)) :
    odElifs (a ++ b) ↔ odElifs a ∧ odElifs b := by
  induction a with
  | nil => simp [odElifs]
  | cons x r ih => obtain ⟨e, bd⟩ := x; simp [odElifs, ih, and_assoc]

theorem odCases_append (a b : List SwitchCase) : odCases (a ++ b) ↔ odCases a ∧ odCases b := by
  induction a with
  | nil => simp [odCases]
  | cons x r ih => obtain ⟨t, d, bd⟩ := x; simp [odCases, ih, and_assoc]

theorem numDefaults_append (a b : List SwitchCase) :
    numDefaults (a ++ b) = numDefaults a + numDefaults b := by
  simp [numDefaults]

theorem numDefaults_nil : numDefaults [] = 0 := rfl
theorem numDefaults_single (t : Tok) (d : Bool) (b : List Stmt) :
    numDefaults [(t, d, b)] = if d then 1 else 0 := by
  cases d <;> simp [numDefaults]

/-- Two duplicate-free lists in adjacent ranges. -/
theorem nodup_append_ranges {a b : List Nat} {mid : Nat} (ha : a.Nodup) (hb : b.Nodup)
    (hla : ∀ x ∈ a, x < mid) (hlb : ∀ x ∈ b, mid ≤ x) : (a ++ b).Nodup := by
  rw [List.nodup_append]
  refine ⟨ha, hb, ?_⟩
  intro x hx y hy hxy
  have := hla x hx
  have := hlb y hy
  omega

/-! ### the bundled invariant of a parsed statement list -/

/-- `l` is statically scoped w.r.t. the stacks `B`, `C`; the scope ids it introduces are pairwise
distinct and lie in `[lo, hi)`; every switch inside has at most one default. -/
structure WF (B C : List Nat) (lo hi : Nat) (l : List Stmt) : Prop where
  sc : scopedStmts B C l
  nd : (bindersL l).Nodup
  rg : ∀ x ∈ bindersL l, lo ≤ x ∧ x < hi
  od : odStmts l

structure WFE (B C : List Nat) (lo hi : Nat) (l : List (BoolExpr × List Stmt)) : Prop where
  sc : scopedElifs B C l
  nd : (bindersE l).Nodup
  rg : ∀ x ∈ bindersE l, lo ≤ x ∧ x < hi
  od : odElifs l

structure WFC (B C : List Nat) (lo hi : Nat) (l : List SwitchCase) : Prop where
  sc : scopedCases B C l
  nd : (bindersC l).Nodup
  rg : ∀ x ∈ bindersC l, lo ≤ x ∧ x < hi
  od : odCases l

theorem WF.nil {B C lo hi} : WF B C lo hi [] :=
  ⟨trivial, List.nodup_nil, fun _ h => by simp [bindersL] at h, trivial⟩
theorem WFE.nil {B C lo hi} : WFE B C lo hi [] :=
  ⟨trivial, List.nodup_nil, fun _ h => by simp [bindersE] at h, trivial⟩
theorem WFC.nil {B C lo hi} : WFC B C lo hi [] :=
  ⟨trivial, List.nodup_nil, fun _ h => by simp [bindersC] at h, trivial⟩

theorem WF.mono {B C lo hi lo' hi' l} (h : WF B C lo hi l) (h1 : lo' ≤ lo) (h2 : hi ≤ hi') :
    WF B C lo' hi' l :=
  ⟨h.sc, h.nd, fun x hx => by have := h.rg x hx; omega, h.od⟩
theorem WFE.mono {B C lo hi lo' hi' l} (h : WFE B C lo hi l) (h1 : lo' ≤ lo) (h2 : hi ≤ hi') :
    WFE B C lo' hi' l :=
  ⟨h.sc, h.nd, fun x hx => by have := h.rg x hx; omega, h.od⟩
theorem WFC.mono {B C lo hi lo' hi' l} (h : WFC B C lo hi l) (h1 : lo' ≤ lo) (h2 : hi ≤ hi') :
    WFC B C lo' hi' l :=
  ⟨h.sc, h.nd, fun x hx => by have := h.rg x hx; omega, h.od⟩

theorem WF.append {B C lo mid hi a b} (ha : WF B C lo mid a) (hb : WF B C mid hi b)
    (h1 : lo ≤ mid) (h2 : mid ≤ hi) : WF B C lo hi (a ++ b) := by
  refine ⟨(scopedStmts_append ..).2 ⟨ha.sc, hb.sc⟩, ?_, ?_, (odStmts_append ..).2 ⟨ha.od, hb.od⟩⟩
  · rw [bindersL_append]
    exact nodup_append_ranges ha.nd hb.nd (fun x hx => (ha.rg x hx).2) (fun x hx => (hb.rg x hx).1)
  · intro x hx
    rw [bindersL_append, List.mem_append] at hx
    rcases hx with hx | hx
    · have := ha.rg x hx; omega
    · have := hb.rg x hx; omega

theorem WFE.snoc {B C lo mid hi a e b} (ha : WFE B C lo mid a) (hb : WF B C mid hi b)
    (h1 : lo ≤ mid) (h2 : mid ≤ hi) : WFE B C lo hi (a ++ [(e, b)]) := by
  have e1 : bindersE [(e, b)] = bindersL b := by simp [bindersE]
  refine ⟨(scopedElifs_append ..).2 ⟨ha.sc, by simpa [scopedElifs] using hb.sc⟩, ?_, ?_,
    (odElifs_append ..).2 ⟨ha.od, by simpa [odElifs] using hb.od⟩⟩
  · rw [bindersE_append, e1]
    exact nodup_append_ranges ha.nd hb.nd (fun x hx => (ha.rg x hx).2) (fun x hx => (hb.rg x hx).1)
  · intro x hx
    rw [bindersE_append, e1, List.mem_append] at hx
    rcases hx with hx | hx
    · have := ha.rg x hx; omega
    · have := hb.rg x hx; omega

theorem WFC.snoc {B C lo mid hi a t d b} (ha : WFC B C lo mid a) (hb : WF B C mid hi b)
    (h1 : lo ≤ mid) (h2 : mid ≤ hi) : WFC B C lo hi (a ++ [(t, d, b)]) := by
  have e1 : bindersC [(t, d, b)] = bindersL b := by simp [bindersC]
  refine ⟨(scopedCases_append ..).2 ⟨ha.sc, by simpa [scopedCases] using hb.sc⟩, ?_, ?_,
    (odCases_append ..).2 ⟨ha.od, by simpa [odCases] using hb.od⟩⟩
  · rw [bindersC_append, e1]
    exact nodup_append_ranges ha.nd hb.nd (fun x hx => (ha.rg x hx).2) (fun x hx => (hb.rg x hx).1)
  · intro x hx
    rw [bindersC_append, e1, List.mem_append] at hx
    rcases hx with hx | hx
    · have := ha.rg x hx; omega
    · have := hb.rg x hx; omega

theorem WF.cmd {B C lo hi} (c : Cmd) : WF B C lo hi [.cmd c] :=
  ⟨by simp [scopedStmts, scopedStmt], by simp [bindersL, binders],
   fun _ h => by simp [bindersL, binders] at h, by simp [odStmts, odStmt]⟩
theorem WF.label {B C lo hi} (t : Tok) (n : String) (g : Bool) : WF B C lo hi [.label t n g] :=
  ⟨by simp [scopedStmts, scopedStmt], by simp [bindersL, binders],
   fun _ h => by simp [bindersL, binders] at h, by simp [odStmts, odStmt]⟩
theorem WF.brk {B C lo hi} (t : Tok) {sid : Nat} (h : sid ∈ B) : WF B C lo hi [.brk t sid] :=
  ⟨by simpa [scopedStmts, scopedStmt] using h, by simp [bindersL, binders],
   fun _ h => by simp [bindersL, binders] at h, by simp [odStmts, odStmt]⟩
theorem WF.cont {B C lo hi} (t : Tok) {sid : Nat} (h : sid ∈ C) : WF B C lo hi [.cont t sid] :=
  ⟨by simpa [scopedStmts, scopedStmt] using h, by simp [bindersL, binders],
   fun _ h => by simp [bindersL, binders] at h, by simp [odStmts, odStmt]⟩

theorem WF.while_ {B C hi sid} (t : Tok) (c : Option BoolExpr) {b : List Stmt}
    (hb : WF (sid :: B) (sid :: C) (sid + 1) hi b) (h : sid + 1 ≤ hi) :
    WF B C sid hi [.while_ t sid c b] := by
  refine ⟨by simpa [scopedStmts, scopedStmt] using hb.sc, ?_, ?_, by simpa [odStmts, odStmt] using hb.od⟩
  · simp only [bindersL, binders, List.append_nil, List.nodup_cons]
    exact ⟨fun hm => by have := hb.rg _ hm; omega, hb.nd⟩
  · intro x hx
    simp only [bindersL, binders, List.append_nil, List.mem_cons] at hx
    rcases hx with rfl | hx
    · omega
    · have := hb.rg x hx; omega

theorem WF.doWhile {B C hi sid} (t : Tok) (c : BoolExpr) {b : List Stmt}
    (hb : WF (sid :: B) (sid :: C) (sid + 1) hi b) (h : sid + 1 ≤ hi) :
    WF B C sid hi [.doWhile t sid c b] := by
  refine ⟨by simpa [scopedStmts, scopedStmt] using hb.sc, ?_, ?_, by simpa [odStmts, odStmt] using hb.od⟩
  · simp only [bindersL, binders, List.append_nil, List.nodup_cons]
    exact ⟨fun hm => by have := hb.rg _ hm; omega, hb.nd⟩
  · intro x hx
    simp only [bindersL, binders, List.append_nil, List.mem_cons] at hx
    rcases hx with rfl | hx
    · omega
    · have := hb.rg x hx; omega

theorem WF.switch_ {B C hi sid} (t op : Tok) {cs : List SwitchCase}
    (hc : WFC (sid :: B) C (sid + 1) hi cs) (hd : numDefaults cs ≤ 1) (h : sid + 1 ≤ hi) :
    WF B C sid hi [.switch_ t sid op cs] := by
  refine ⟨by simpa [scopedStmts, scopedStmt] using hc.sc, ?_, ?_,
    by simpa [odStmts, odStmt] using ⟨hd, hc.od⟩⟩
  · simp only [bindersL, binders, List.append_nil, List.nodup_cons]
    exact ⟨fun hm => by have := hc.rg _ hm; omega, hc.nd⟩
  · intro x hx
    simp only [bindersL, binders, List.append_nil, List.mem_cons] at hx
    rcases hx with rfl | hx
    · omega
    · have := hc.rg x hx; omega

theorem WF.ite {B C lo m1 m2 hi} (tok : Tok) (c : BoolExpr) {t : List Stmt}
    {el : List (BoolExpr × List Stmt)} {els : Option (List Stmt)}
    (ht : WF B C lo m1 t) (hel : WFE B C m1 m2 el) (hels : ∀ e, els = some e → WF B C m2 hi e)
    (h1 : lo ≤ m1) (h2 : m1 ≤ m2) (h3 : m2 ≤ hi) : WF B C lo hi [.ite tok c t el els] := by
  cases els with
  | none =>
    refine ⟨by simpa [scopedStmts, scopedStmt] using ⟨ht.sc, hel.sc⟩, ?_, ?_,
      by simpa [odStmts, odStmt] using ⟨ht.od, hel.od⟩⟩
    · simp only [bindersL, binders, List.append_nil]
      exact nodup_append_ranges ht.nd hel.nd (fun x hx => (ht.rg x hx).2) (fun x hx => (hel.rg x hx).1)
    · intro x hx
      simp only [bindersL, binders, List.append_nil, List.mem_append] at hx
      rcases hx with hx | hx
      · have := ht.rg x hx; omega
      · have := hel.rg x hx; omega
  | some e =>
    have he := hels e rfl
    refine ⟨by simpa [scopedStmts, scopedStmt] using ⟨ht.sc, hel.sc, he.sc⟩, ?_, ?_,
      by simpa [odStmts, odStmt] using ⟨ht.od, hel.od, he.od⟩⟩
    · simp only [bindersL, binders, List.append_nil]
      refine nodup_append_ranges ht.nd ?_ (fun x hx => (ht.rg x hx).2) ?_
      · exact nodup_append_ranges hel.nd he.nd (fun x hx => (hel.rg x hx).2) (fun x hx => (he.rg x hx).1)
      · intro x hx
        rw [List.mem_append] at hx
        rcases hx with hx | hx
        · exact (hel.rg x hx).1
        · have := he.rg x hx; omega
    · intro x hx
      simp only [bindersL, binders, List.append_nil, List.mem_append] at hx
      rcases hx with hx | hx | hx
      · have := ht.rg x hx; omega
      · have := hel.rg x hx; omega
      · have := he.rg x hx; omega

/-! ## Part 2: the invariant of the statement block -/

def setSid (s : PState) (n : Nat) : PState := { s with nextSid := n }
def setB (s : PState) (B : List Nat) : PState := { s with breakStack := B }
def setC (s : PState) (C : List Nat) : PState := { s with continueStack := C }

theorem setSid_toks (s : PState) (n : Nat) : (setSid s n).toks = s.toks := id rfl
theorem setSid_eof (s : PState) (n : Nat) : (setSid s n).eof = s.eof := id rfl
theorem setSid_constants (s : PState) (n : Nat) : (setSid s n).constants = s.constants := id rfl
theorem setSid_nextCmdId (s : PState) (n : Nat) : (setSid s n).nextCmdId = s.nextCmdId := id rfl
theorem setSid_breakStack (s : PState) (n : Nat) : (setSid s n).breakStack = s.breakStack := id rfl
theorem setSid_continueStack (s : PState) (n : Nat) : (setSid s n).continueStack = s.continueStack := id rfl
theorem setSid_nextSid (s : PState) (n : Nat) : (setSid s n).nextSid = n := id rfl
theorem setB_toks (s : PState) (B : List Nat) : (setB s B).toks = s.toks := id rfl
theorem setB_eof (s : PState) (B : List Nat) : (setB s B).eof = s.eof := id rfl
theorem setB_constants (s : PState) (B : List Nat) : (setB s B).constants = s.constants := id rfl
theorem setB_nextCmdId (s : PState) (B : List Nat) : (setB s B).nextCmdId = s.nextCmdId := id rfl
theorem setB_breakStack (s : PState) (B : List Nat) : (setB s B).breakStack = B := id rfl
theorem setB_continueStack (s : PState) (B : List Nat) : (setB s B).continueStack = s.continueStack := id rfl
theorem setB_nextSid (s : PState) (B : List Nat) : (setB s B).nextSid = s.nextSid := id rfl
theorem setC_toks (s : PState) (C : List Nat) : (setC s C).toks = s.toks := id rfl
theorem setC_eof (s : PState) (C : List Nat) : (setC s C).eof = s.eof := id rfl
theorem setC_constants (s : PState) (C : List Nat) : (setC s C).constants = s.constants := id rfl
theorem setC_nextCmdId (s : PState) (C : List Nat) : (setC s C).nextCmdId = s.nextCmdId := id rfl
theorem setC_breakStack (s : PState) (C : List Nat) : (setC s C).breakStack = s.breakStack := id rfl
theorem setC_continueStack (s : PState) (C : List Nat) : (setC s C).continueStack = C := id rfl
theorem setC_nextSid (s : PState) (C : List Nat) : (setC s C).nextSid = s.nextSid := id rfl

theorem wp_newSid (s : PState) (Q : Nat → PState → Prop) :
    wp newSid s Q ↔ Q s.nextSid (setSid s (s.nextSid + 1)) := by
  unfold newSid
  simp only [wp_bind, wp_get, wp_set, wp_pure]
  rfl
theorem wp_pushBreak (sid : Nat) (s : PState) (Q : Unit → PState → Prop) :
    wp (pushBreak sid) s Q ↔ Q () (setB s (sid :: s.breakStack)) := by
  unfold pushBreak; rw [wp_modify]; rfl
theorem wp_popBreak (s : PState) (Q : Unit → PState → Prop) :
    wp popBreak s Q ↔ Q () (setB s s.breakStack.tail) := by
  unfold popBreak; rw [wp_modify]; rfl
theorem wp_pushContinue (sid : Nat) (s : PState) (Q : Unit → PState → Prop) :
    wp (pushContinue sid) s Q ↔ Q () (setC s (sid :: s.continueStack)) := by
  unfold pushContinue; rw [wp_modify]; rfl
theorem wp_popContinue (s : PState) (Q : Unit → PState → Prop) :
    wp popContinue s Q ↔ Q () (setC s s.continueStack.tail) := by
  unfold popContinue; rw [wp_modify]; rfl

/-- Stacks unchanged, `nextSid` did not decrease. -/
def Same (s s' : PState) : Prop :=
  s'.breakStack = s.breakStack ∧ s'.continueStack = s.continueStack ∧ s.nextSid ≤ s'.nextSid

/-- Postcondition of the statement-level functions: stacks restored, the statements are well formed
w.r.t. the stacks at entry, with scope ids in `[lo, s'.nextSid)`. -/
def StmtsPost (s : PState) (lo : Nat) (r : List Stmt × ImpData) (s' : PState) : Prop :=
  Same s s' ∧ WF s.breakStack s.continueStack lo s'.nextSid r.1

/-- Symbolic execution including the scope primitives. -/
syntax "swp" (" [" Lean.Parser.Tactic.simpLemma,* "]")? : tactic
macro_rules
  | `(tactic| swp) => `(tactic| wpsimp [wp_newSid, wp_pushBreak, wp_popBreak, wp_pushContinue, wp_popContinue,
      setSid_toks, setSid_eof, setSid_constants, setSid_nextCmdId, setSid_breakStack, setSid_continueStack,
      setSid_nextSid, setB_toks, setB_eof, setB_constants, setB_nextCmdId, setB_breakStack, setB_continueStack,
      setB_nextSid, setC_toks, setC_eof, setC_constants, setC_nextCmdId, setC_breakStack, setC_continueStack,
      setC_nextSid, StmtsPost, Same, Nat.le_refl, true_and, and_true, imp_self, List.tail_cons])
  | `(tactic| swp [$ts,*]) => `(tactic| wpsimp [wp_newSid, wp_pushBreak, wp_popBreak, wp_pushContinue,
      wp_popContinue,
      setSid_toks, setSid_eof, setSid_constants, setSid_nextCmdId, setSid_breakStack, setSid_continueStack,
      setSid_nextSid, setB_toks, setB_eof, setB_constants, setB_nextCmdId, setB_breakStack, setB_continueStack,
      setB_nextSid, setC_toks, setC_eof, setC_constants, setC_nextCmdId, setC_breakStack, setC_continueStack,
      setC_nextSid, StmtsPost, Same, Nat.le_refl, true_and, and_true, imp_self, List.tail_cons, $ts,*])

/-- The invariant of the whole mutual block at fuel `n`. -/
structure SpecAll (n : Nat) : Prop where
  block : ∀ env sn tok acc imp s lo, lo ≤ s.nextSid → WF s.breakStack s.continueStack lo s.nextSid acc →
    wp (parseBlockStatement env sn tok n acc imp) s (StmtsPost s lo)
  swblock : ∀ env sn tok acc imp s lo, lo ≤ s.nextSid → WF s.breakStack s.continueStack lo s.nextSid acc →
    wp (parseSwitchBlockStatement env sn tok n acc imp) s (StmtsPost s lo)
  stmt : ∀ env sn s, wp (parseStatement env sn n) s (StmtsPost s s.nextSid)
  cond : ∀ env sn req s, wp (parseConditionExpression env sn req n) s
    (fun r s' => Same s s' ∧ WF s.breakStack s.continueStack s.nextSid s'.nextSid r.2.1)
  elifs : ∀ env sn acc imp s lo, lo ≤ s.nextSid → WFE s.breakStack s.continueStack lo s.nextSid acc →
    wp (parseElifs env sn n acc imp) s
      (fun r s' => Same s s' ∧ WFE s.breakStack s.continueStack lo s'.nextSid r.1)
  ifs : ∀ env sn s, wp (parseIfStatement env sn n) s (StmtsPost s s.nextSid)
  whiles : ∀ env sn s, wp (parseWhileStatement env sn n) s (StmtsPost s s.nextSid)
  doWhiles : ∀ env sn s, wp (parseDoWhileStatement env sn n) s (StmtsPost s s.nextSid)
  cases : ∀ env sn tok cs vals hd imp s lo, lo ≤ s.nextSid →
    WFC s.breakStack s.continueStack lo s.nextSid cs → numDefaults cs ≤ 1 →
    (hd = false → numDefaults cs = 0) →
    wp (parseSwitchCases env sn tok n cs vals hd imp) s
      (fun r s' => Same s s' ∧ WFC s.breakStack s.continueStack lo s'.nextSid r.1 ∧ numDefaults r.1 ≤ 1)
  switch : ∀ env sn s, wp (parseSwitchStatement env sn n) s (StmtsPost s s.nextSid)
  pory : ∀ env sn s, wp (parsePoryswitchStatement env sn n) s (StmtsPost s s.nextSid)
  poryCases : ∀ env sn tok acc s lo, lo ≤ s.nextSid →
    (∀ e ∈ acc, WF s.breakStack s.continueStack lo s.nextSid e.2.1) →
    wp (parsePoryswitchStatementCases env sn tok n acc) s
      (fun r s' => Same s s' ∧ ∀ e ∈ r, WF s.breakStack s.continueStack lo s'.nextSid e.2.1)
  poryStmts : ∀ env sn am acc imp s lo, lo ≤ s.nextSid →
    WF s.breakStack s.continueStack lo s.nextSid acc →
    wp (parsePoryswitchStatements env sn am n acc imp) s (StmtsPost s lo)

/-- Close the propositional skeleton of a verification condition. -/
macro "vc" : tactic => `(tactic| repeat' (first | trivial | assumption | (intros; split) | (intros; assumption)))

/-- Re-base a postcondition from an intermediate state `s1` to the entry state `s`. -/
theorem post_trans {P : List Nat → List Nat → Nat → Prop} {s s1 s' : PState}
    (h : Same s1 s' ∧ P s1.breakStack s1.continueStack s'.nextSid)
    (hb : s1.breakStack = s.breakStack) (hc : s1.continueStack = s.continueStack)
    (hn : s.nextSid ≤ s1.nextSid) :
    Same s s' ∧ P s.breakStack s.continueStack s'.nextSid := by
  obtain ⟨⟨a, b, c⟩, w⟩ := h
  exact ⟨⟨a.trans hb, b.trans hc, Nat.le_trans hn c⟩, hb ▸ hc ▸ w⟩

theorem lookup_mem {α β} [BEq α] [LawfulBEq α] {l : List (α × β)} {k : α} {v : β}
    (h : l.lookup k = some v) : (k, v) ∈ l := by
  induction l with
  | nil => simp at h
  | cons x r ih =>
    obtain ⟨a, b⟩ := x
    simp only [List.lookup_cons] at h
    by_cases hk : k == a
    · simp only [hk] at h
      have : k = a := by simpa using hk
      simp only [Option.some.injEq] at h
      subst h; subst this; exact List.mem_cons_self
    · simp only [hk] at h
      exact List.mem_cons_of_mem _ (ih h)

theorem selectCase_mem {α} {env : Env} {cases : List (String × α)} {v : String} {r : α}
    (h : selectCase env cases v = some r) : ∃ k, (k, r) ∈ cases := by
  unfold selectCase at h
  split at h
  · rename_i x hx
    simp only [Option.some.injEq] at h
    subst h
    exact ⟨_, lookup_mem hx⟩
  · exact ⟨_, lookup_mem h⟩

/-- `tryParseLabelStatement` only moves the token window and returns a label (or nothing). -/
theorem tryParseLabel_spec (s : PState) :
    wp tryParseLabelStatement s (fun r s' => (∃ l k, s' = upd s l k) ∧
      ∀ st, r = some st → ∃ t nm g, st = Stmt.label t nm g) := by
  unfold tryParseLabelStatement
  wpsimp
  vc
  all_goals (refine ⟨trivial, ?_⟩; intro st hst; cases hst <;> exact ⟨_, _, _, rfl⟩)

theorem while_step {n : Nat} (ih : SpecAll n) (env : Env) (sn : String) (s : PState) :
    wp (parseWhileStatement env sn (n + 1)) s (StmtsPost s s.nextSid) := by
  rw [parseWhileStatement]
  swp [wp_spec (ih.cond _ _ _ _)]
  intro a s' _ h
  obtain ⟨⟨hb, hc, hn⟩, hw⟩ := h
  exact ⟨⟨by rw [hb]; rfl, by rw [hc]; rfl, by omega⟩, WF.while_ _ _ hw hn⟩

theorem doWhile_step {n : Nat} (ih : SpecAll n) (env : Env) (sn : String) (s : PState) :
    wp (parseDoWhileStatement env sn (n + 1)) s (StmtsPost s s.nextSid) := by
  rw [parseDoWhileStatement]
  swp [wp_spec (ih.block _ _ _ [] _ _ _ (Nat.le_refl _) WF.nil), (frame_parseBooleanExpression _ _ _ _ _).wp_iff]
  split
  · intro a s' _ h
    obtain ⟨⟨hb, hc, hn⟩, hw⟩ := h
    split
    · split
      · intro a3 l k _
        exact ⟨⟨by rw [hb]; rfl, by rw [hc]; rfl, by omega⟩, WF.doWhile _ _ hw hn⟩
      · trivial
    · trivial
  · trivial

theorem stmt_step {n : Nat} (ih : SpecAll n) (env : Env) (sn : String) (s : PState) :
    wp (parseStatement env sn (n + 1)) s (StmtsPost s s.nextSid) := by
  rw [parseStatement]
  swp
  split
  · -- IDENT
    swp [wp_spec (tryParseLabel_spec _)]
    intro a s' _ h
    obtain ⟨⟨l, k, rfl⟩, hl⟩ := h
    cases a with
    | some st =>
      obtain ⟨t, nm, g, rfl⟩ := hl st rfl
      swp
      exact WF.label _ _ _
    | none =>
      swp [(frame_parseCommandStatement _ _ _).wp_iff]
      intro a l k _
      exact WF.cmd _
  · exact ih.ifs env sn s
  · exact ih.whiles env sn s
  · exact ih.doWhiles env sn s
  · -- BREAK
    swp
    split
    · swp
    · rename_i sid tl hbs
      swp
      refine WF.brk _ ?_
      rw [hbs]; exact List.mem_cons_self
  · -- CONTINUE
    swp
    split
    · swp
    · rename_i sid tl hcs
      swp
      split
      · trivial
      · refine WF.cont _ ?_
        rw [hcs]; exact List.mem_cons_self
  · exact ih.switch env sn s
  · exact ih.pory env sn s
  · swp

theorem block_step {n : Nat} (ih : SpecAll n) (env : Env) (sn : String) (tok : Tok) (acc : List Stmt)
    (imp : ImpData) (s : PState) (lo : Nat) (hlo : lo ≤ s.nextSid)
    (hacc : WF s.breakStack s.continueStack lo s.nextSid acc) :
    wp (parseBlockStatement env sn tok (n + 1) acc imp) s (StmtsPost s lo) := by
  rw [parseBlockStatement]
  swp [wp_spec (ih.stmt _ _ _)]
  split
  · exact hacc
  · split
    · trivial
    · intro a s' _ h
      obtain ⟨⟨hb, hc, hn⟩, hw⟩ := h
      refine wp_mono (ih.block env sn tok (acc ++ a.1) (imp.add a.2) (upd s' s'.toks.tail s'.nextCmdId) lo
        (Nat.le_trans hlo hn) ?_) ?_
      · show WF s'.breakStack s'.continueStack lo s'.nextSid (acc ++ a.1)
        rw [hb, hc]
        exact WF.append hacc hw hlo hn
      · intro r s'' h
        exact post_trans (P := fun B C m => WF B C lo m r.1) h hb hc hn

theorem swblock_step {n : Nat} (ih : SpecAll n) (env : Env) (sn : String) (tok : Tok) (acc : List Stmt)
    (imp : ImpData) (s : PState) (lo : Nat) (hlo : lo ≤ s.nextSid)
    (hacc : WF s.breakStack s.continueStack lo s.nextSid acc) :
    wp (parseSwitchBlockStatement env sn tok (n + 1) acc imp) s (StmtsPost s lo) := by
  rw [parseSwitchBlockStatement]
  swp [wp_spec (ih.stmt _ _ _)]
  split
  · exact hacc
  · split
    · trivial
    · intro a s' _ h
      obtain ⟨⟨hb, hc, hn⟩, hw⟩ := h
      refine wp_mono (ih.swblock env sn tok (acc ++ a.1) (imp.add a.2) (upd s' s'.toks.tail s'.nextCmdId) lo
        (Nat.le_trans hlo hn) ?_) ?_
      · show WF s'.breakStack s'.continueStack lo s'.nextSid (acc ++ a.1)
        rw [hb, hc]
        exact WF.append hacc hw hlo hn
      · intro r s'' h
        exact post_trans (P := fun B C m => WF B C lo m r.1) h hb hc hn

theorem cond_step {n : Nat} (ih : SpecAll n) (env : Env) (sn : String) (req : Bool) (s : PState) :
    wp (parseConditionExpression env sn req (n + 1)) s
      (fun r s' => Same s s' ∧ WF s.breakStack s.continueStack s.nextSid s'.nextSid r.2.1) := by
  rw [parseConditionExpression]
  swp [wp_spec (ih.block _ _ _ [] _ _ _ (Nat.le_refl _) WF.nil), (frame_parseBooleanExpression _ _ _ _ _).wp_iff]
  vc

theorem elifs_step {n : Nat} (ih : SpecAll n) (env : Env) (sn : String)
    (acc : List (BoolExpr × List Stmt)) (imp : ImpData) (s : PState) (lo : Nat) (hlo : lo ≤ s.nextSid)
    (hacc : WFE s.breakStack s.continueStack lo s.nextSid acc) :
    wp (parseElifs env sn (n + 1) acc imp) s
      (fun r s' => Same s s' ∧ WFE s.breakStack s.continueStack lo s'.nextSid r.1) := by
  rw [parseElifs]
  swp [wp_spec (ih.cond _ _ _ _)]
  split
  · exact hacc
  · intro a s' _ h
    obtain ⟨⟨hb, hc, hn⟩, hw⟩ := h
    split
    · swp
    · rename_i e he
      refine wp_mono (ih.elifs env sn (acc ++ [(e, a.2.1)]) (imp.add a.2.2) s' lo (Nat.le_trans hlo hn) ?_) ?_
      · rw [hb, hc]
        exact WFE.snoc hacc hw hlo hn
      · intro r s'' h
        exact post_trans (P := fun B C m => WFE B C lo m r.1) h hb hc hn

theorem if_step {n : Nat} (ih : SpecAll n) (env : Env) (sn : String) (s : PState) :
    wp (parseIfStatement env sn (n + 1)) s (StmtsPost s s.nextSid) := by
  rw [parseIfStatement]
  swp [wp_spec (ih.cond _ _ _ _)]
  intro a s1 _ h
  obtain ⟨⟨hb1, hc1, hn1⟩, hw1⟩ := h
  split
  · rename_i c hc
    swp [wp_spec (ih.elifs _ _ [] _ _ _ (Nat.le_refl _) WFE.nil),
      wp_spec (ih.block _ _ _ [] _ _ _ (Nat.le_refl _) WF.nil)]
    intro b s2 _ h
    obtain ⟨⟨hb2, hc2, hn2⟩, hw2⟩ := h
    rw [hb1, hc1] at hw2
    split
    · split
      · intro e s3 _ h
        obtain ⟨⟨hb3, hc3, hn3⟩, hw3⟩ := h
        rw [hb2, hc2, hb1, hc1] at hw3
        refine ⟨⟨by rw [hb3, hb2, hb1], by rw [hc3, hc2, hc1], by omega⟩, ?_⟩
        exact WF.ite _ _ hw1 hw2 (fun e' he' => by cases he'; exact hw3) hn1 hn2 hn3
      · trivial
    · refine ⟨⟨by rw [hb2, hb1], by rw [hc2, hc1], by omega⟩, ?_⟩
      exact WF.ite _ _ hw1 hw2 (fun e' he' => by cases he') hn1 hn2 (Nat.le_refl _)
  · swp

theorem cases_step {n : Nat} (ih : SpecAll n) (env : Env) (sn : String) (tok : Tok)
    (cs : List SwitchCase) (vals : List String) (hd : Bool) (imp : ImpData) (s : PState) (lo : Nat)
    (hlo : lo ≤ s.nextSid) (hcs : WFC s.breakStack s.continueStack lo s.nextSid cs)
    (h1 : numDefaults cs ≤ 1) (h0 : hd = false → numDefaults cs = 0) :
    wp (parseSwitchCases env sn tok (n + 1) cs vals hd imp) s
      (fun r s' => Same s s' ∧ WFC s.breakStack s.continueStack lo s'.nextSid r.1 ∧ numDefaults r.1 ≤ 1) := by
  rw [parseSwitchCases]
  swp [(frame_collectUntil _ _ _ _).wp_iff, wp_spec (ih.swblock _ _ _ [] _ _ _ (Nat.le_refl _) WF.nil)]
  split
  · exact ⟨hcs, h1⟩
  · split
    · -- case
      intro parts l k _
      split
      · trivial
      · intro a s' _ h
        obtain ⟨⟨hb, hc, hn⟩, hw⟩ := h
        refine wp_mono (ih.cases env sn tok _ _ hd _ s' lo (Nat.le_trans hlo hn) ?_ ?_ ?_) ?_
        · rw [hb, hc]
          exact WFC.snoc hcs hw hlo hn
        · rw [numDefaults_append, numDefaults_single]; simpa using h1
        · intro hh; rw [numDefaults_append, numDefaults_single, h0 hh]; rfl
        · intro r s'' h
          exact post_trans (P := fun B C m => WFC B C lo m r.1 ∧ numDefaults r.1 ≤ 1) h hb hc hn
    · split
      · -- default
        split
        · trivial
        · rename_i hnd
          split
          · intro a s' _ h
            obtain ⟨⟨hb, hc, hn⟩, hw⟩ := h
            have hd0 : numDefaults cs = 0 := h0 (by simpa using hnd)
            refine wp_mono (ih.cases env sn tok _ _ true _ s' lo (Nat.le_trans hlo hn) ?_ ?_ ?_) ?_
            · rw [hb, hc]
              exact WFC.snoc hcs hw hlo hn
            · rw [numDefaults_append, numDefaults_single, hd0]; decide
            · intro hh; cases hh
            · intro r s'' h
              exact post_trans (P := fun B C m => WFC B C lo m r.1 ∧ numDefaults r.1 ≤ 1) h hb hc hn
          · trivial
      · trivial

theorem switch_step {n : Nat} (ih : SpecAll n) (env : Env) (sn : String) (s : PState) :
    wp (parseSwitchStatement env sn (n + 1)) s (StmtsPost s s.nextSid) := by
  rw [parseSwitchStatement]
  swp [(frame_expectPeekVarOrAutoVar _ _ _).wp_iff]
  split
  · intro a l k _
    split
    · -- `var(...)` operand
      swp [(frame_switchOperandLoop _ _ _).wp_iff,
        wp_spec (ih.cases _ _ _ [] [] false _ _ _ (Nat.le_refl _) WFC.nil (Nat.zero_le _) (fun _ => rfl))]
      intro parts l2 k2 _
      split
      · intro r s' _ h
        obtain ⟨⟨hb, hc, hn⟩, hw, hd⟩ := h
        split
        · trivial
        · exact ⟨⟨by rw [hb]; rfl, hc, by omega⟩, WF.switch_ _ _ hw hd hn⟩
      · trivial
    · -- auto-var operand: the command precedes the switch
      swp [wp_spec (ih.cases _ _ _ [] [] false _ _ _ (Nat.le_refl _) WFC.nil (Nat.zero_le _) (fun _ => rfl))]
      split
      · split
        · intro r s' _ h
          obtain ⟨⟨hb, hc, hn⟩, hw, hd⟩ := h
          split
          · trivial
          · exact ⟨⟨by rw [hb]; rfl, hc, by omega⟩,
              WF.append (WF.cmd _) (WF.switch_ _ _ hw hd hn) (Nat.le_refl _) (by omega)⟩
        · trivial
      · trivial
  · trivial

theorem pory_step {n : Nat} (ih : SpecAll n) (env : Env) (sn : String) (s : PState) :
    wp (parsePoryswitchStatement env sn (n + 1)) s (StmtsPost s s.nextSid) := by
  rw [parsePoryswitchStatement]
  swp [(frame_parsePoryswitchHeader _).wp_iff,
    wp_spec (ih.poryCases _ _ _ [] _ _ (Nat.le_refl _) (fun _ he => absurd he List.not_mem_nil))]
  intro hdr l k _ cs s' _ h
  obtain ⟨hs, hall⟩ := h
  split
  · rename_i r hr
    swp
    obtain ⟨key, hmem⟩ := selectCase_mem hr
    exact ⟨hs, hall _ hmem⟩
  · swp
    split
    · trivial
    · exact ⟨hs, WF.nil⟩

/-- The recursive call of `parsePoryswitchStatementCases` after one parsed case. -/
theorem poryCases_rec {n : Nat} (ih : SpecAll n) (env : Env) (sn : String) (tok : Tok)
    (acc : List (String × List Stmt × ImpData)) (s s'' : PState) (lo : Nat) (lit : String)
    (a : List Stmt × ImpData) (hlo : lo ≤ s.nextSid)
    (hacc : ∀ e ∈ acc, WF s.breakStack s.continueStack lo s.nextSid e.2.1)
    (hb : s''.breakStack = s.breakStack) (hc : s''.continueStack = s.continueStack)
    (hn : s.nextSid ≤ s''.nextSid) (hw : WF s.breakStack s.continueStack s.nextSid s''.nextSid a.1) :
    wp (parsePoryswitchStatementCases env sn tok n ((lit, a.1, a.2) :: acc)) s''
      (fun r s3 => Same s s3 ∧ ∀ e ∈ r, WF s.breakStack s.continueStack lo s3.nextSid e.2.1) := by
  refine wp_mono (ih.poryCases env sn tok _ s'' lo (Nat.le_trans hlo hn) ?_) ?_
  · intro e he
    rw [hb, hc]
    rcases List.mem_cons.1 he with rfl | he
    · exact hw.mono hlo (Nat.le_refl _)
    · exact (hacc e he).mono (Nat.le_refl _) hn
  · intro r s3 h
    exact post_trans (P := fun B C m => ∀ e ∈ r, WF B C lo m e.2.1) h hb hc hn

theorem poryCases_step {n : Nat} (ih : SpecAll n) (env : Env) (sn : String) (tok : Tok)
    (acc : List (String × List Stmt × ImpData)) (s : PState) (lo : Nat) (hlo : lo ≤ s.nextSid)
    (hacc : ∀ e ∈ acc, WF s.breakStack s.continueStack lo s.nextSid e.2.1) :
    wp (parsePoryswitchStatementCases env sn tok (n + 1) acc) s
      (fun r s' => Same s s' ∧ ∀ e ∈ r, WF s.breakStack s.continueStack lo s'.nextSid e.2.1) := by
  rw [parsePoryswitchStatementCases]
  swp [wp_spec (ih.poryStmts _ _ _ [] _ _ _ (Nat.le_refl _) WF.nil)]
  split
  · exact hacc
  · split
    · trivial
    · split
      · trivial
      · split
        · intro a s' _ h
          obtain ⟨⟨hb, hc, hn⟩, hw⟩ := h
          split
          · split
            · trivial
            · exact poryCases_rec ih env sn tok acc s _ lo _ a hlo hacc hb hc hn hw
          · exact poryCases_rec ih env sn tok acc s _ lo _ a hlo hacc hb hc hn hw
        · trivial

theorem poryStmts_step {n : Nat} (ih : SpecAll n) (env : Env) (sn : String) (am : Bool)
    (acc : List Stmt) (imp : ImpData) (s : PState) (lo : Nat) (hlo : lo ≤ s.nextSid)
    (hacc : WF s.breakStack s.continueStack lo s.nextSid acc) :
    wp (parsePoryswitchStatements env sn am (n + 1) acc imp) s (StmtsPost s lo) := by
  rw [parsePoryswitchStatements]
  swp [wp_spec (ih.stmt _ _ _), wp_spec (ih.pory _ _ _)]
  have key : ∀ (a : List Stmt × ImpData) (s' : PState),
      (s'.breakStack = s.breakStack ∧ s'.continueStack = s.continueStack ∧ s.nextSid ≤ s'.nextSid) ∧
        WF s.breakStack s.continueStack s.nextSid s'.nextSid a.1 →
      (if (!am) = true then
          (s'.breakStack = s.breakStack ∧ s'.continueStack = s.continueStack ∧ s.nextSid ≤ s'.nextSid) ∧
            WF s.breakStack s.continueStack lo s'.nextSid (acc ++ a.1)
        else
          wp (parsePoryswitchStatements env sn am n (acc ++ a.1) (imp.add a.2))
            (upd s' s'.toks.tail s'.nextCmdId) (StmtsPost s lo)) := by
    intro a s' h
    obtain ⟨⟨hb, hc, hn⟩, hw⟩ := h
    split
    · exact ⟨⟨hb, hc, hn⟩, WF.append hacc hw hlo hn⟩
    · refine wp_mono (ih.poryStmts env sn am (acc ++ a.1) (imp.add a.2) (upd s' s'.toks.tail s'.nextCmdId) lo
        (Nat.le_trans hlo hn) ?_) ?_
      · show WF s'.breakStack s'.continueStack lo s'.nextSid (acc ++ a.1)
        rw [hb, hc]
        exact WF.append hacc hw hlo hn
      · intro r s'' h
        exact post_trans (P := fun B C m => WF B C lo m r.1) h hb hc hn
  split
  · exact hacc
  · split
    · intro a s' _ h; exact key a s' h
    · intro a s' _ h; exact key a s' h

/-- **Main invariant** of the statement block, for every fuel. -/
theorem specAll : ∀ n : Nat, SpecAll n
  | 0 =>
    { block := by intros; rw [parseBlockStatement]; swp
      swblock := by intros; rw [parseSwitchBlockStatement]; swp
      stmt := by intros; rw [parseStatement]; swp
      cond := by intros; rw [parseConditionExpression]; swp
      elifs := by intros; rw [parseElifs]; swp
      ifs := by intros; rw [parseIfStatement]; swp
      whiles := by intros; rw [parseWhileStatement]; swp
      doWhiles := by intros; rw [parseDoWhileStatement]; swp
      cases := by intros; rw [parseSwitchCases]; swp
      switch := by intros; rw [parseSwitchStatement]; swp
      pory := by intros; rw [parsePoryswitchStatement]; swp
      poryCases := by intros; rw [parsePoryswitchStatementCases]; swp
      poryStmts := by intros; rw [parsePoryswitchStatements]; swp }
  | n + 1 =>
    have ih := specAll n
    { block := block_step ih
      swblock := swblock_step ih
      stmt := stmt_step ih
      cond := cond_step ih
      elifs := elifs_step ih
      ifs := if_step ih
      whiles := while_step ih
      doWhiles := doWhile_step ih
      cases := cases_step ih
      switch := switch_step ih
      pory := pory_step ih
      poryCases := poryCases_step ih
      poryStmts := poryStmts_step ih }

/-! ### run-form corollaries -/

/-- The four parts of C20 for a statement list parsed between `s` and `s'`. -/
structure ScopesOK (s s' : PState) (stmts : List Stmt) : Prop where
  breakStack_eq : s'.breakStack = s.breakStack
  continueStack_eq : s'.continueStack = s.continueStack
  nextSid_le : s.nextSid ≤ s'.nextSid
  wellScoped : scopedStmts s.breakStack s.continueStack stmts
  nodup : (bindersL stmts).Nodup
  range : ∀ x ∈ bindersL stmts, s.nextSid ≤ x ∧ x < s'.nextSid
  oneDefault : OneDefault stmts

theorem StmtsPost.scopesOK {s s' : PState} {r : List Stmt × ImpData} (h : StmtsPost s s.nextSid r s') :
    ScopesOK s s' r.1 :=
  ⟨h.1.1, h.1.2.1, h.1.2.2, h.2.sc, h.2.nd, h.2.rg, h.2.od⟩

theorem parseStatement_scopes {env : Env} {sn : String} {fuel : Nat} {s s' : PState} {stmts : List Stmt}
    {imp : ImpData} (h : (parseStatement env sn fuel).run s = .ok ((stmts, imp), s')) :
    ScopesOK s s' stmts :=
  ((specAll fuel).stmt env sn s _ _ h).scopesOK

theorem parseBlockStatement_scopes {env : Env} {sn : String} {tok : Tok} {fuel : Nat} {s s' : PState}
    {stmts : List Stmt} {imp0 imp : ImpData}
    (h : (parseBlockStatement env sn tok fuel [] imp0).run s = .ok ((stmts, imp), s')) :
    ScopesOK s s' stmts :=
  ((specAll fuel).block env sn tok [] imp0 s s.nextSid (Nat.le_refl _) WF.nil _ _ h).scopesOK

theorem parseIfStatement_scopes {env : Env} {sn : String} {fuel : Nat} {s s' : PState} {stmts : List Stmt}
    {imp : ImpData} (h : (parseIfStatement env sn fuel).run s = .ok ((stmts, imp), s')) :
    ScopesOK s s' stmts := ((specAll fuel).ifs env sn s _ _ h).scopesOK
theorem parseWhileStatement_scopes {env : Env} {sn : String} {fuel : Nat} {s s' : PState}
    {stmts : List Stmt} {imp : ImpData}
    (h : (parseWhileStatement env sn fuel).run s = .ok ((stmts, imp), s')) :
    ScopesOK s s' stmts := ((specAll fuel).whiles env sn s _ _ h).scopesOK
theorem parseDoWhileStatement_scopes {env : Env} {sn : String} {fuel : Nat} {s s' : PState}
    {stmts : List Stmt} {imp : ImpData}
    (h : (parseDoWhileStatement env sn fuel).run s = .ok ((stmts, imp), s')) :
    ScopesOK s s' stmts := ((specAll fuel).doWhiles env sn s _ _ h).scopesOK
theorem parseSwitchStatement_scopes {env : Env} {sn : String} {fuel : Nat} {s s' : PState}
    {stmts : List Stmt} {imp : ImpData}
    (h : (parseSwitchStatement env sn fuel).run s = .ok ((stmts, imp), s')) :
    ScopesOK s s' stmts := ((specAll fuel).switch env sn s _ _ h).scopesOK
theorem parsePoryswitchStatement_scopes {env : Env} {sn : String} {fuel : Nat} {s s' : PState}
    {stmts : List Stmt} {imp : ImpData}
    (h : (parsePoryswitchStatement env sn fuel).run s = .ok ((stmts, imp), s')) :
    ScopesOK s s' stmts := ((specAll fuel).pory env sn s _ _ h).scopesOK

/-! ### ids on the stacks are older than every id handed out later -/

/-- Every scope id on the stacks has already been handed out. -/
def Good (s : PState) : Prop := ∀ x ∈ s.breakStack ++ s.continueStack, x < s.nextSid

theorem Good.of_same {s s' : PState} (hg : Good s) (h : Same s s') : Good s' := by
  intro x hx
  rw [h.1, h.2.1] at hx
  exact Nat.lt_of_lt_of_le (hg x hx) h.2.2

/-- Entering a loop (`newSid`, `pushBreak`, `pushContinue`) preserves `Good`. -/
theorem Good.enter_loop {s : PState} (hg : Good s) :
    Good (setC (setB (setSid s (s.nextSid + 1)) (s.nextSid :: s.breakStack)) (s.nextSid :: s.continueStack)) := by
  intro x hx
  simp only [setC_breakStack, setB_breakStack, setC_continueStack, setC_nextSid, setB_nextSid, setSid_nextSid,
    List.mem_append, List.mem_cons] at hx ⊢
  rcases hx with (rfl | hx) | (rfl | hx)
  · omega
  · have := hg x (List.mem_append.2 (Or.inl hx)); omega
  · omega
  · have := hg x (List.mem_append.2 (Or.inr hx)); omega

/-- Entering a switch (`newSid`, `pushBreak`) preserves `Good`. -/
theorem Good.enter_switch {s : PState} (hg : Good s) :
    Good (setB (setSid s (s.nextSid + 1)) (s.nextSid :: s.breakStack)) := by
  intro x hx
  simp only [setB_breakStack, setB_continueStack, setSid_continueStack, setB_nextSid, setSid_nextSid,
    List.mem_append, List.mem_cons] at hx ⊢
  rcases hx with (rfl | hx) | hx
  · omega
  · have := hg x (List.mem_append.2 (Or.inl hx)); omega
  · have := hg x (List.mem_append.2 (Or.inr hx)); omega

/-- The scope ids introduced by parsed statements differ from every id on the stacks. -/
theorem ScopesOK.fresh {s s' : PState} {stmts : List Stmt} (h : ScopesOK s s' stmts) (hg : Good s) :
    ∀ x ∈ bindersL stmts, x ∉ s.breakStack ++ s.continueStack := by
  intro x hx hm
  have := (h.range x hx).1
  have := hg x hm
  omega

theorem ScopesOK.good {s s' : PState} {stmts : List Stmt} (h : ScopesOK s s' stmts) (hg : Good s) :
    Good s' := hg.of_same ⟨h.breakStack_eq, h.continueStack_eq, h.nextSid_le⟩

/-! ### non-vacuity: `while { break }` followed by the closing brace of the block -/
section Example
private def tk (t : TT) : Tok := { type := t }
private def exState : PState :=
  { toks := [tk .WHILE, tk .LBRACE, tk .BREAK, tk .RBRACE, tk .RBRACE], eof := tk .EOF, nextSid := 7 }

example : ∃ imp s', (parseBlockStatement {} "S" (tk .LBRACE) 10 [] {}).run exState =
    .ok (([.while_ (tk .WHILE) 7 none [.brk (tk .BREAK) 7]], imp), s') ∧ s'.nextSid = 8 :=
  ⟨_, _, rfl, rfl⟩

example : ScopesOK exState { exState with toks := [tk .RBRACE], nextSid := 8 }
    [.while_ (tk .WHILE) 7 none [.brk (tk .BREAK) 7]] :=
  parseBlockStatement_scopes (env := {}) (sn := "S") (tok := tk .LBRACE) (fuel := 10) (imp0 := {})
    (imp := {}) rfl
end Example

end Pory.Parser
