import PoryProofs.ErrLoc3
/-
Located parser errors, part 4: the mutual block of the 13 statement-level functions, by one induction on
the fuel (`locAll`).
-/
namespace Pory.ErrLoc
open Pory Pory.Parser

section
variable (T : List Tok) (E : Tok)

/-- Implicit data of parsed poryswitch statement cases. -/
def AllImp (l : List (String × List Stmt × ImpData)) : Prop := ∀ e ∈ l, ImpOK T E e.2.2

theorem allimp_nil : AllImp T E [] := fun _ h => absurd h List.not_mem_nil
theorem allimp_cons {x : String × List Stmt × ImpData} {l : List (String × List Stmt × ImpData)}
    (hx : ImpOK T E x.2.2) (hl : AllImp T E l) : AllImp T E (x :: l) := by
  intro e he
  rcases List.mem_cons.1 he with h | h
  · subst h; exact hx
  · exact hl e h

theorem selectCase_impok {env : Env} {cases : List (String × List Stmt × ImpData)} {v : String}
    {r : List Stmt × ImpData} (hl : AllImp T E cases) (h : selectCase env cases v = some r) :
    ImpOK T E r.2 := by
  unfold selectCase at h
  split at h
  · rename_i x hx
    cases h
    exact hl _ (lookup_mem hx)
  · exact hl _ (lookup_mem h)

/-- The specification of the whole statement block at fuel `n`. -/
structure LocAll (n : Nat) : Prop where
  block : ∀ env sn i acc imp k s, Inv T E k s → ImpOK T E imp →
    tri (El T E) (parseBlockStatement env sn (T.getD i E) n acc imp) s (Post T E k (fun r => ImpOK T E r.2))
  swblock : ∀ env sn i acc imp k s, Inv T E k s → i ≤ k → ImpOK T E imp →
    tri (El T E) (parseSwitchBlockStatement env sn (T.getD i E) n acc imp) s
      (Post T E k (fun r => ImpOK T E r.2))
  stmt : ∀ env sn k s, Inv T E k s →
    tri (El T E) (parseStatement env sn n) s (Post T E k (fun r => ImpOK T E r.2))
  cond : ∀ env sn req k s, Inv T E k s →
    tri (El T E) (parseConditionExpression env sn req n) s (Post T E k (fun r => ImpOK T E r.2.2))
  elifs : ∀ env sn acc imp k s, Inv T E k s → ImpOK T E imp →
    tri (El T E) (parseElifs env sn n acc imp) s (Post T E k (fun r => ImpOK T E r.2))
  ifs : ∀ env sn k s, Inv T E k s →
    tri (El T E) (parseIfStatement env sn n) s (Post T E k (fun r => ImpOK T E r.2))
  whiles : ∀ env sn k s, Inv T E k s →
    tri (El T E) (parseWhileStatement env sn n) s (Post T E k (fun r => ImpOK T E r.2))
  doWhiles : ∀ env sn k s, Inv T E k s →
    tri (El T E) (parseDoWhileStatement env sn n) s (Post T E k (fun r => ImpOK T E r.2))
  cases : ∀ env sn i cs vals hd imp k s, Inv T E k s → i ≤ k → ImpOK T E imp →
    tri (El T E) (parseSwitchCases env sn (T.getD i E) n cs vals hd imp) s
      (Post T E k (fun r => ImpOK T E r.2.2))
  switch : ∀ env sn k s, Inv T E k s →
    tri (El T E) (parseSwitchStatement env sn n) s (Post T E k (fun r => ImpOK T E r.2))
  pory : ∀ env sn k s, Inv T E k s →
    tri (El T E) (parsePoryswitchStatement env sn n) s (Post T E k (fun r => ImpOK T E r.2))
  poryCases : ∀ env sn i acc k s, Inv T E k s → AllImp T E acc →
    tri (El T E) (parsePoryswitchStatementCases env sn (T.getD i E) n acc) s (Post T E k (AllImp T E))
  poryStmts : ∀ env sn am acc imp k s, Inv T E k s → ImpOK T E imp →
    tri (El T E) (parsePoryswitchStatements env sn am n acc imp) s (Post T E k (fun r => ImpOK T E r.2))

theorem locAll_zero : LocAll T E 0 :=
  { block := by intros; rw [parseBlockStatement]; tsimp
    swblock := by intros; rw [parseSwitchBlockStatement]; tsimp
    stmt := by intros; rw [parseStatement]; tsimp
    cond := by intros; rw [parseConditionExpression]; tsimp
    elifs := by intros; rw [parseElifs]; tsimp
    ifs := by intros; rw [parseIfStatement]; tsimp
    whiles := by intros; rw [parseWhileStatement]; tsimp
    doWhiles := by intros; rw [parseDoWhileStatement]; tsimp
    cases := by intros; rw [parseSwitchCases]; tsimp
    switch := by intros; rw [parseSwitchStatement]; tsimp
    pory := by intros; rw [parsePoryswitchStatement]; tsimp
    poryCases := by intros; rw [parsePoryswitchStatementCases]; tsimp
    poryStmts := by intros; rw [parsePoryswitchStatements]; tsimp }

theorem locAll_succ {n : Nat} (ih : LocAll T E n) : LocAll T E (n + 1) :=
  { block := by
      intro env sn i acc imp k s hi himp
      rw [parseBlockStatement]
      tstart hi
      tgo [ih.stmt, ih.block]
    swblock := by
      intro env sn i acc imp k s hi hik himp
      rw [parseSwitchBlockStatement]
      tstart hi
      tgo [ih.stmt, ih.swblock]
    stmt := by
      intro env sn k s hi
      rw [parseStatement]
      tstart hi
      tgo [ih.ifs, ih.whiles, ih.doWhiles, ih.switch, ih.pory, sp_tryParseLabelStatement T E,
        sp_parseCommandStatement T E]
    cond := by
      intro env sn req k s hi
      rw [parseConditionExpression]
      tstart hi
      tgo [ih.block, sp_parseBooleanExpression T E]
    elifs := by
      intro env sn acc imp k s hi himp
      rw [parseElifs]
      tstart hi
      tgo [ih.cond, ih.elifs]
    ifs := by
      intro env sn k s hi
      rw [parseIfStatement]
      tstart hi
      tgo [ih.cond, ih.elifs, ih.block]
    whiles := by
      intro env sn k s hi
      rw [parseWhileStatement]
      tstart hi
      tgo [ih.cond]
    doWhiles := by
      intro env sn k s hi
      rw [parseDoWhileStatement]
      tstart hi
      tgo [ih.block, sp_parseBooleanExpression T E]
    cases := by
      intro env sn i cs vals hd imp k s hi hik himp
      rw [parseSwitchCases]
      tstart hi
      tgo [ih.swblock, ih.cases, sp_collectUntil T E]
    switch := by
      intro env sn k s hi
      rw [parseSwitchStatement]
      tstart hi
      tgo [ih.cases, sp_expectPeekVarOrAutoVar T E, sp_switchOperandLoop T E]
    pory := by
      intro env sn k s hi
      rw [parsePoryswitchStatement]
      tstart hi
      tgo [ih.poryCases, sp_parsePoryswitchHeader T E, selectCase_impok T E, allimp_nil T E]
    poryCases := by
      intro env sn i acc k s hi hacc
      rw [parsePoryswitchStatementCases]
      tstart hi
      tgo [ih.poryStmts, ih.poryCases, allimp_cons T E]
    poryStmts := by
      intro env sn am acc imp k s hi himp
      rw [parsePoryswitchStatements]
      tstart hi
      tgo [ih.stmt, ih.pory, ih.poryStmts] }

/-- **Every function of the statement block fails only with located errors**, for every fuel. -/
theorem locAll : ∀ n : Nat, LocAll T E n
  | 0 => locAll_zero T E
  | n + 1 => locAll_succ T E (locAll n)

end
end Pory.ErrLoc
