import PoryModel.FormatText
/-
Helper definitions and lemmas for property C07 (`format()`), about `PoryModel/FormatText.lean`.

Layer 1 (word level).  `runWords` folds `formatStep` over a list of words (look-ahead = the
following word, `[]` after the last).  An abstract machine (`AS`, `stepA`, `traceA`) emits the
output as a list of items (`OutItem`): words and break codes tagged with their origin
(explicit `\n` `\l` `\p` of the input, `\N` resolved, automatic wrap).  `sim` shows that the
characters produced by `runWords` are exactly `render` of the abstract trace; the properties
W1..W4 are then predicates on the trace alone.

Layer 2 (scanner).  `wordsOf` iterates `getNextWord`; `formatLoop_eq_runWords` ties the real
loop to `runWords`; `nextWordLoop` facts (`nextWordLoop_spec`: end position, the word is a
contiguous slice preceded by spaces only, an empty word means only spaces were left);
`wordsOf_cover`: the scanned words contain exactly the non-space characters of the text.

Status: finding F15 (`getNextWord` dropped the first of two backslashes at the start of a word) is
FIXED in `formattext.go` and in the model (`nextWordLoop`, backslash branch: `foundRegularRune`
becomes true when `escape` was already set).  All results here are for the fixed model and hold
for every text; nothing is partial.  The old hypothesis `NoDoubleBS` is no longer needed; the
`…_partial` names survive only as trivial corollaries of the unconditional theorems.
-/
namespace Pory.Fmt
open Pory

/-! ## Layer 1: definitions -/

/-- Where a break code in the output comes from. -/
inductive BK
  | explicit   -- `\n`, `\l`, `\p` written in the input
  | auto       -- `\N` of the input, resolved to `\n` or `\l`
  | wrap       -- inserted by the formatter because the next word did not fit
  deriving DecidableEq, Repr

/-- Abstract output item. -/
inductive OutItem
  | word (w : List Char)
  | brk (k : BK) (code : List Char)
  deriving DecidableEq, Repr

/-- The break code the text-box discipline prescribes on line number `k` of a paragraph. -/
def expectedBreak (numLines k : Int) : List Char :=
  if k < numLines - 1 then ['\\', 'n'] else ['\\', 'l']

/-- Line number after a break with code `c` on line `k`. -/
def nextLineNum (k : Int) (c : List Char) : Int := if isParagraphBreak c then 0 else k + 1

/-- Concrete characters of an abstract output; the flag says whether the previous item was a
word (then a space separates). Every break code is followed by a newline character. -/
def render : Bool → List OutItem → List Char
  | _, [] => []
  | b, .word w :: r => (if b then [' '] else []) ++ w ++ render true r
  | _, .brk _ c :: r => c ++ ['\n'] ++ render false r

/-- Words joined by single spaces. -/
def joinSp : List (List Char) → List Char
  | [] => []
  | [w] => w
  | w :: w' :: ws => w ++ ' ' :: joinSp (w' :: ws)

/-- Pixel width of a line: sum of word widths plus one space between neighbours. -/
def lineW (wd : List Char → Int) (spaceW : Int) : List (List Char) → Int
  | [] => 0
  | [w] => wd w
  | w :: w' :: ws => wd w + spaceW + lineW wd spaceW (w' :: ws)

/-- Abstract state: the words on the current line and the current line number. -/
structure AS where
  line : List (List Char) := []
  lineNum : Int := 0

/-- The look-ahead rule: the cursor overlap is added iff there is a next word and the line is
the last of the box or the next word is `\p`. -/
def overlapApplies (numLines k : Int) (next : List Char) : Prop :=
  next.length > 0 ∧ (k ≥ numLines - 1 ∨ isParagraphBreak next = true)

instance (numLines k : Int) (next : List Char) : Decidable (overlapApplies numLines k next) := by
  unfold overlapApplies; infer_instance

section Abstract
variable (wd : List Char → Int) (maxWidth overlap numLines spaceW : Int)

/-- Width tested against `maxWidth` when `word` is about to join `line`. -/
def testWidth (line : List (List Char)) (k : Int) (word next : List Char) : Int :=
  lineW wd spaceW (line ++ [word]) + (if overlapApplies numLines k next then overlap else 0)

/-- Abstract step: emitted items and next abstract state. -/
def stepA (word next : List Char) (as : AS) : List OutItem × AS :=
  if isLineBreak word then
    ([if isAutoLineBreak word then .brk .auto (expectedBreak numLines as.lineNum)
      else .brk .explicit word],
     { line := [], lineNum := nextLineNum as.lineNum word })
  else if testWidth wd overlap numLines spaceW as.line as.lineNum word next > maxWidth
      ∧ as.line ≠ [] then
    ([.brk .wrap (expectedBreak numLines as.lineNum), .word word],
     { line := [word], lineNum := as.lineNum + 1 })
  else
    ([.word word], { as with line := as.line ++ [word] })

/-- Items emitted when the words `ws` are processed from abstract state `as`. -/
def traceA : List (List Char) → AS → List OutItem
  | [], _ => []
  | w :: ws, as =>
    (stepA wd maxWidth overlap numLines spaceW w (ws.headD []) as).1 ++
      traceA ws (stepA wd maxWidth overlap numLines spaceW w (ws.headD []) as).2

/-- Final abstract state. -/
def finalA : List (List Char) → AS → AS
  | [], as => as
  | w :: ws, as => finalA ws (stepA wd maxWidth overlap numLines spaceW w (ws.headD []) as).2

end Abstract

section Concrete
variable (fc : FontConfig) (fontID : String) (maxWidth overlap numLines spaceW : Int)

/-- The word-level loop: `formatStep` folded over a word list, each step seeing the next word. -/
def runWords : List (List Char) → FS → FS
  | [], st => st
  | w :: ws, st =>
    runWords ws (formatStep fc fontID maxWidth overlap numLines spaceW w (ws.headD []) st)

/-- Refinement relation between abstract and concrete state. -/
structure R (as : AS) (st : FS) : Prop where
  line : st.curLine = joinSp as.line
  width : st.curWidth = lineW (fun w => getWordPixelWidth fc w fontID) spaceW as.line
  num : st.curLineNum = as.lineNum
  first : st.isFirstWord = as.line.isEmpty
  ne : ∀ w ∈ as.line, w ≠ []

end Concrete

/-! ## Small list facts -/

theorem joinSp_snoc (l : List (List Char)) (w : List Char) (h : l ≠ []) :
    joinSp (l ++ [w]) = joinSp l ++ [' '] ++ w := by
  induction l with
  | nil => exact absurd rfl h
  | cons a t ih =>
    cases t with
    | nil => simp [joinSp]
    | cons b t' =>
      have := ih (by simp)
      simp only [List.cons_append] at this ⊢
      simp [joinSp, this]

theorem lineW_snoc (wd : List Char → Int) (spaceW : Int) (l : List (List Char)) (w : List Char)
    (h : l ≠ []) : lineW wd spaceW (l ++ [w]) = lineW wd spaceW l + spaceW + wd w := by
  induction l with
  | nil => exact absurd rfl h
  | cons a t ih =>
    cases t with
    | nil => simp [lineW]
    | cons b t' =>
      have := ih (by simp)
      simp only [List.cons_append] at this ⊢
      simp only [lineW, this]; omega

theorem joinSp_eq_nil (l : List (List Char)) (hne : ∀ w ∈ l, w ≠ []) :
    joinSp l = [] ↔ l = [] := by
  cases l with
  | nil => simp [joinSp]
  | cons a t =>
    cases t with
    | nil => simpa [joinSp] using hne
    | cons b t' => simp [joinSp]

/-! ## One step: concrete characterisation and simulation -/

section Step
variable (fc : FontConfig) (fontID : String) (maxWidth overlap numLines spaceW : Int)

/-- The quantity `formatStep` compares with `maxWidth`. -/
def nextWidthC (word nextWord : List Char) (st : FS) : Int :=
  st.curWidth + (if st.isFirstWord then 0 else spaceW) + getWordPixelWidth fc word fontID +
    (if overlapApplies numLines st.curLineNum nextWord then overlap else 0)

/-- Case 1 of `formatStep`: the word is a break code. -/
theorem formatStep_break (word nextWord : List Char) (st : FS) (h : isLineBreak word = true) :
    formatStep fc fontID maxWidth overlap numLines spaceW word nextWord st =
      { formatted := st.formatted ++ st.curLine ++
          (if isAutoLineBreak word then expectedBreak numLines st.curLineNum else word) ++ ['\n'],
        curLine := [], curWidth := 0,
        curLineNum := nextLineNum st.curLineNum word, isFirstWord := true } := by
  simp [formatStep, h, expectedBreak, nextLineNum]

/-- Cases 2 and 3: an ordinary word either wraps (it does not fit and the current line is
non-empty) or is appended. -/
theorem formatStep_word (word nextWord : List Char) (st : FS) (h : isLineBreak word = false) :
    formatStep fc fontID maxWidth overlap numLines spaceW word nextWord st =
      if nextWidthC fc fontID overlap numLines spaceW word nextWord st > maxWidth ∧ st.curLine ≠ []
      then
        { formatted := st.formatted ++ st.curLine ++ expectedBreak numLines st.curLineNum ++ ['\n'],
          curLine := word, curWidth := getWordPixelWidth fc word fontID,
          curLineNum := st.curLineNum + 1, isFirstWord := false }
      else
        { st with
          curWidth := st.curWidth + (if st.isFirstWord then 0 else spaceW) +
            getWordPixelWidth fc word fontID,
          curLine := (if st.isFirstWord then st.curLine else st.curLine ++ [' ']) ++ word,
          isFirstWord := false } := by
  have e : (if (nextWord.length > 0 && (decide (st.curLineNum ≥ numLines - 1) || isParagraphBreak nextWord)) = true
      then st.curWidth + (if (!st.isFirstWord) = true then getWordPixelWidth fc word fontID + spaceW
        else getWordPixelWidth fc word fontID) + overlap
      else st.curWidth + (if (!st.isFirstWord) = true then getWordPixelWidth fc word fontID + spaceW
        else getWordPixelWidth fc word fontID)) =
      nextWidthC fc fontID overlap numLines spaceW word nextWord st := by
    unfold nextWidthC overlapApplies
    cases st.isFirstWord <;> simp <;> split <;> omega
  simp only [formatStep, h, Bool.false_eq_true, ↓reduceIte]
  rw [e]
  have e2 : (st.curLine.length > 0) ↔ st.curLine ≠ [] := by
    cases st.curLine <;> simp
  have e3 : expectedBreak numLines st.curLineNum =
      if st.curLineNum ≥ numLines - 1 then ['\\', 'l'] else ['\\', 'n'] := by
    unfold expectedBreak; split <;> split <;> first | rfl | omega
  rw [e3]
  by_cases c1 : nextWidthC fc fontID overlap numLines spaceW word nextWord st > maxWidth ∧ st.curLine ≠ []
  · rw [if_pos c1, if_pos (by simpa [e2] using c1)]
  · rw [if_neg c1, if_neg (by simpa [e2] using c1)]
    cases st.isFirstWord <;> simp <;> omega

/-- Under the refinement relation the concrete and abstract tested widths agree. -/
theorem nextWidthC_eq (as : AS) (st : FS) (w nx : List Char) (hR : R fc fontID spaceW as st) :
    nextWidthC fc fontID overlap numLines spaceW w nx st =
      testWidth (fun w => getWordPixelWidth fc w fontID) overlap numLines spaceW
        as.line as.lineNum w nx := by
  unfold nextWidthC testWidth
  rw [hR.width, hR.num, hR.first]
  cases hl : as.line with
  | nil => simp [lineW]
  | cons a t => rw [← hl, lineW_snoc _ _ _ _ (by simp [hl])]; simp [hl]

/-- One step of the concrete loop is simulated by one abstract step. -/
theorem step_sim (as : AS) (st : FS) (w nx : List Char) (hR : R fc fontID spaceW as st)
    (hw : w ≠ []) :
    R fc fontID spaceW
      (stepA (fun w => getWordPixelWidth fc w fontID) maxWidth overlap numLines spaceW w nx as).2
      (formatStep fc fontID maxWidth overlap numLines spaceW w nx st) ∧
    ∀ r,
      (formatStep fc fontID maxWidth overlap numLines spaceW w nx st).formatted ++
      (formatStep fc fontID maxWidth overlap numLines spaceW w nx st).curLine ++
      render (!(stepA (fun w => getWordPixelWidth fc w fontID) maxWidth overlap numLines spaceW
          w nx as).2.line.isEmpty) r =
      st.formatted ++ st.curLine ++ render (!as.line.isEmpty)
        ((stepA (fun w => getWordPixelWidth fc w fontID) maxWidth overlap numLines spaceW
          w nx as).1 ++ r) := by
  have hne0 : st.curLine ≠ [] ↔ as.line ≠ [] := by
    rw [hR.line]; exact not_congr (joinSp_eq_nil _ hR.ne)
  cases hb : isLineBreak w with
  | true =>
    rw [formatStep_break _ _ _ _ _ _ _ _ _ hb]
    simp only [stepA, hb, ↓reduceIte]
    refine ⟨⟨rfl, rfl, by simp [hR.num], rfl, by simp⟩, ?_⟩
    intro r
    by_cases ha : isAutoLineBreak w = true
    · simp [ha, render, hR.num]
    · simp [ha, render]
  | false =>
    rw [formatStep_word _ _ _ _ _ _ _ _ _ hb, nextWidthC_eq fc fontID overlap numLines spaceW as st w nx hR]
    simp only [stepA, hb, Bool.false_eq_true, ↓reduceIte]
    by_cases c : testWidth (fun w => getWordPixelWidth fc w fontID) overlap numLines spaceW
        as.line as.lineNum w nx > maxWidth ∧ as.line ≠ []
    · rw [if_pos c, if_pos (show _ ∧ st.curLine ≠ [] from ⟨c.1, hne0.2 c.2⟩)]
      refine ⟨⟨rfl, rfl, by simp [hR.num], by simp, by simpa using hw⟩, ?_⟩
      intro r
      simp [render, hR.num]
    · rw [if_neg c, if_neg (show ¬ (_ ∧ st.curLine ≠ []) from fun h => c ⟨h.1, hne0.1 h.2⟩)]
      cases hl : as.line with
      | nil =>
        have hf : st.isFirstWord = true := by rw [hR.first, hl]; rfl
        have hc : st.curLine = [] := by rw [hR.line, hl]; rfl
        have hcw : st.curWidth = 0 := by rw [hR.width, hl]; rfl
        refine ⟨⟨by simp [hf, hc, joinSp], by simp [hf, hcw, lineW], by simp [hR.num], by simp,
          by simpa using hw⟩, ?_⟩
        intro r
        simp [render, hf, hc]
      | cons a t =>
        have hf : st.isFirstWord = false := by rw [hR.first, hl]; rfl
        have hne : as.line ≠ [] := by simp [hl]
        refine ⟨⟨?_, ?_, by simp [hR.num], by simp, ?_⟩, ?_⟩
        · simp only [hf]; rw [← hl, joinSp_snoc _ _ hne, hR.line]; simp
        · simp only [hf]; rw [← hl, lineW_snoc _ _ _ _ hne, hR.width]; simp
        · intro x hx
          rw [← hl] at hx
          rcases List.mem_append.1 hx with h | h
          · exact hR.ne x h
          · simp at h; subst h; exact hw
        · intro r
          simp [render, hf]

end Step

/-! ## The whole word-level run -/

section Run
variable (fc : FontConfig) (fontID : String) (maxWidth overlap numLines spaceW : Int)

/-- `runWords` is simulated by the abstract machine: the final states are related and the
characters appended to the output are `render` of the abstract trace. -/
theorem sim (ws : List (List Char)) (hws : ∀ w ∈ ws, w ≠ []) (as : AS) (st : FS)
    (hR : R fc fontID spaceW as st) :
    R fc fontID spaceW
      (finalA (fun w => getWordPixelWidth fc w fontID) maxWidth overlap numLines spaceW ws as)
      (runWords fc fontID maxWidth overlap numLines spaceW ws st) ∧
    (runWords fc fontID maxWidth overlap numLines spaceW ws st).formatted ++
      (runWords fc fontID maxWidth overlap numLines spaceW ws st).curLine =
    st.formatted ++ st.curLine ++ render (!as.line.isEmpty)
      (traceA (fun w => getWordPixelWidth fc w fontID) maxWidth overlap numLines spaceW ws as) := by
  induction ws generalizing as st with
  | nil => simp [finalA, runWords, traceA, render, hR]
  | cons w t ih =>
    have hw : w ≠ [] := hws w (by simp)
    obtain ⟨hR', hout⟩ := step_sim fc fontID maxWidth overlap numLines spaceW as st w (t.headD []) hR hw
    obtain ⟨h1, h2⟩ := ih (fun x hx => hws x (by simp [hx])) _ _ hR'
    refine ⟨by simpa [finalA, runWords] using h1, ?_⟩
    simp only [runWords, traceA]
    rw [h2, hout]

/-- The initial states are related. -/
theorem R_init : R fc fontID spaceW {} {} :=
  ⟨rfl, rfl, rfl, rfl, by simp⟩

end Run

/-! ## Specification predicates on abstract outputs -/

def OutItem.isWrap : OutItem → Bool
  | .brk .wrap _ => true
  | _ => false

/-- `Matches item x`: the output item is what the input word `x` must become. -/
def Matches : OutItem → List Char → Prop
  | .word w, x => isLineBreak x = false ∧ w = x
  | .brk .explicit c, x => isLineBreak x = true ∧ isAutoLineBreak x = false ∧ c = x
  | .brk .auto c, x => isAutoLineBreak x = true ∧ (c = ['\\', 'n'] ∨ c = ['\\', 'l'])
  | .brk .wrap _, _ => False

/-- Pointwise `Matches` between a list of items and a list of input words (same length). -/
def AllMatch : List OutItem → List (List Char) → Prop
  | [], [] => True
  | i :: is, w :: ws => Matches i w ∧ AllMatch is ws
  | _, _ => False

/-- Does the output continue with a `\p`? -/
def nextPara : List OutItem → Bool
  | .brk _ c :: _ => isParagraphBreak c
  | _ => false

/-- Line number after the items, starting on line `k`. -/
def numOf : Int → List OutItem → Int
  | k, [] => k
  | k, .word _ :: r => numOf k r
  | k, .brk _ c :: r => numOf (nextLineNum k c) r

/-- Words on the (unfinished) last line after the items, starting with `cur`. -/
def curOf : List (List Char) → List OutItem → List (List Char)
  | cur, [] => cur
  | cur, .word w :: r => curOf (cur ++ [w]) r
  | _, .brk _ _ :: r => curOf [] r

/-- W4: every break that is not an explicit `\n` `\l` `\p` of the input carries the code the
text-box discipline prescribes for the line number it ends. -/
def Disciplined (numLines : Int) : Int → List OutItem → Prop
  | _, [] => True
  | k, .word _ :: r => Disciplined numLines k r
  | k, .brk bk c :: r =>
    (bk ≠ .explicit → c = expectedBreak numLines k) ∧ Disciplined numLines (nextLineNum k c) r

section Spec
variable (wd : List Char → Int) (maxWidth overlap numLines spaceW : Int)

/-- The cursor overlap charged to a word on line `k` that is followed by the items `r`. -/
def ovA (k : Int) (r : List OutItem) : Int :=
  if r ≠ [] ∧ (k ≥ numLines - 1 ∨ nextPara r = true) then overlap else 0

/-- W2: whenever a word joins a non-empty line, the line (plus the cursor overlap when the
look-ahead rule fires) fits. -/
def Fits : Int → List (List Char) → List OutItem → Prop
  | _, _, [] => True
  | k, cur, .word w :: r =>
    (cur ≠ [] → lineW wd spaceW (cur ++ [w]) + ovA overlap numLines k r ≤ maxWidth) ∧
      Fits k (cur ++ [w]) r
  | k, _, .brk _ c :: r => Fits (nextLineNum k c) [] r

/-- A wrap after the line `cur` is justified by the word that follows it. -/
def WrapJustified (k : Int) (cur : List (List Char)) : List OutItem → Prop
  | .word w :: r => lineW wd spaceW (cur ++ [w]) + ovA overlap numLines k r > maxWidth
  | _ => False

/-- W3: an automatic break is only inserted after a non-empty line, before a word that
would not have fitted on it. -/
def Greedy : Int → List (List Char) → List OutItem → Prop
  | _, _, [] => True
  | k, cur, .word w :: r => Greedy k (cur ++ [w]) r
  | k, cur, .brk bk c :: r =>
    (bk = .wrap → cur ≠ [] ∧ WrapJustified wd maxWidth overlap numLines spaceW k cur r) ∧
      Greedy (nextLineNum k c) [] r

/-- Every completed line with at least two words fits, the cursor overlap included when the
line is the last of the box or is followed by `\p`; the unfinished last line fits too. -/
def LinesFit : Int → List (List Char) → List OutItem → Prop
  | _, cur, [] => cur.length ≥ 2 → lineW wd spaceW cur ≤ maxWidth
  | k, cur, .word w :: r => LinesFit k (cur ++ [w]) r
  | k, cur, .brk _ c :: r =>
    (cur.length ≥ 2 → lineW wd spaceW cur +
        (if k ≥ numLines - 1 ∨ isParagraphBreak c = true then overlap else 0) ≤ maxWidth) ∧
      LinesFit (nextLineNum k c) [] r

end Spec

/-! ## Facts about break words -/

theorem isLineBreak_of_para {w : List Char} (h : isParagraphBreak w = true) :
    isLineBreak w = true := by
  simp only [isParagraphBreak, beq_iff_eq] at h; subst h; decide

theorem isLineBreak_of_auto {w : List Char} (h : isAutoLineBreak w = true) :
    isLineBreak w = true := by
  simp only [isAutoLineBreak, beq_iff_eq] at h; subst h; decide

theorem para_expectedBreak (numLines k : Int) :
    isParagraphBreak (expectedBreak numLines k) = false := by
  unfold expectedBreak; split <;> decide

theorem nextLineNum_expectedBreak (numLines k : Int) :
    nextLineNum k (expectedBreak numLines k) = k + 1 := by
  simp [nextLineNum, para_expectedBreak]

theorem para_of_auto {w : List Char} (h : isAutoLineBreak w = true) :
    isParagraphBreak w = false := by
  simp only [isAutoLineBreak, beq_iff_eq] at h; subst h; decide

theorem nextLineNum_auto (k : Int) {w : List Char} (h : isAutoLineBreak w = true) :
    nextLineNum k w = k + 1 := by
  simp [nextLineNum, para_of_auto h]

theorem expectedBreak_cases (numLines k : Int) :
    expectedBreak numLines k = ['\\', 'n'] ∨ expectedBreak numLines k = ['\\', 'l'] := by
  unfold expectedBreak; split <;> simp

/-- The ordinary word carried by an item, if any. -/
def OutItem.word? : OutItem → Option (List Char)
  | .word w => some w
  | .brk _ _ => none

theorem isWrap_word (w : List Char) : (OutItem.word w).isWrap = false := rfl
theorem isWrap_brk (bk : BK) (c : List Char) : (OutItem.brk bk c).isWrap = decide (bk = .wrap) := by
  cases bk <;> rfl
theorem word?_word (w : List Char) : (OutItem.word w).word? = some w := rfl
theorem word?_brk (bk : BK) (c : List Char) : (OutItem.brk bk c).word? = none := rfl

theorem filterMap_word_filter_wrap (its : List OutItem) :
    (its.filter (fun i => !i.isWrap)).filterMap OutItem.word? = its.filterMap OutItem.word? := by
  induction its with
  | nil => rfl
  | cons i r ih =>
    cases i with
    | word w => simp only [List.filter_cons, isWrap_word, Bool.not_false, ↓reduceIte,
        List.filterMap_cons, word?_word, ih]
    | brk bk c =>
      rw [List.filter_cons]
      split
      · simp only [List.filterMap_cons, word?_brk, ih]
      · simp only [List.filterMap_cons, word?_brk, ih]

theorem allMatch_words (its : List OutItem) (ws : List (List Char)) (h : AllMatch its ws) :
    its.filterMap OutItem.word? = ws.filter (fun w => !isLineBreak w) := by
  induction its generalizing ws with
  | nil => cases ws <;> simp_all [AllMatch]
  | cons i r ih =>
    cases ws with
    | nil => simp [AllMatch] at h
    | cons w t =>
      obtain ⟨hm, ht⟩ := h
      have := ih t ht
      cases i with
      | word x =>
        obtain ⟨h1, h2⟩ := hm
        simp only [List.filterMap_cons, word?_word, List.filter_cons, h1, Bool.not_false,
          ↓reduceIte, this, h2]
      | brk bk c =>
        have hb : isLineBreak w = true := by
          cases bk with
          | explicit => exact hm.1
          | auto => exact isLineBreak_of_auto hm.1
          | wrap => exact hm.elim
        simp only [List.filterMap_cons, word?_brk, List.filter_cons, hb, Bool.not_true,
          Bool.false_eq_true, ↓reduceIte, this]

/-- The characters carried by an item. -/
def OutItem.text : OutItem → List Char
  | .word w => w
  | .brk _ c => c

/-- Separators written by the formatter: the space and the newline character. -/
def isSep (c : Char) : Bool := c == ' ' || c == '\n'

/-- Up to separators, the rendered output is the concatenation of the items: rendering only
adds spaces and newline characters. -/
theorem render_nonsep (b : Bool) (its : List OutItem) :
    (render b its).filter (fun c => !isSep c) =
      ((its.map OutItem.text).flatten).filter (fun c => !isSep c) := by
  have h1 : isSep ' ' = true := by decide
  have h2 : isSep '\n' = true := by decide
  induction its generalizing b with
  | nil => rfl
  | cons i r ih =>
    cases i with
    | word w =>
      cases b <;>
        simp only [render, OutItem.text, List.filter_append, ih, List.filter_cons, List.map_cons,
          List.flatten_cons, h1, Bool.not_true, Bool.false_eq_true, ↓reduceIte, List.filter_nil,
          List.nil_append]
    | brk bk c =>
      simp only [render, OutItem.text, List.filter_append, ih, List.filter_cons, List.map_cons,
        List.flatten_cons, h2, Bool.not_true, Bool.false_eq_true, ↓reduceIte, List.filter_nil,
        List.append_nil]

/-! ## The abstract trace satisfies the specification -/

section TraceProps
variable (wd : List Char → Int) (maxWidth overlap numLines spaceW : Int)

/-- The item a break word becomes on line `k`. -/
def breakItem (numLines k : Int) (w : List Char) : OutItem :=
  if isAutoLineBreak w then .brk .auto (expectedBreak numLines k) else .brk .explicit w

/-- Three-way case analysis of an abstract step. -/
theorem stepA_cases (w nx : List Char) (as : AS) :
    (isLineBreak w = true ∧
      stepA wd maxWidth overlap numLines spaceW w nx as =
        ([breakItem numLines as.lineNum w],
          { line := [], lineNum := nextLineNum as.lineNum w })) ∨
    (isLineBreak w = false ∧
      (testWidth wd overlap numLines spaceW as.line as.lineNum w nx > maxWidth ∧ as.line ≠ []) ∧
      stepA wd maxWidth overlap numLines spaceW w nx as =
        ([.brk .wrap (expectedBreak numLines as.lineNum), .word w],
          { line := [w], lineNum := as.lineNum + 1 })) ∨
    (isLineBreak w = false ∧
      ¬ (testWidth wd overlap numLines spaceW as.line as.lineNum w nx > maxWidth ∧ as.line ≠ []) ∧
      stepA wd maxWidth overlap numLines spaceW w nx as =
        ([.word w], { line := as.line ++ [w], lineNum := as.lineNum })) := by
  cases hb : isLineBreak w with
  | true => left; simp [stepA, hb, breakItem]
  | false =>
    right
    by_cases c : testWidth wd overlap numLines spaceW as.line as.lineNum w nx > maxWidth ∧
        as.line ≠ []
    · left; refine ⟨rfl, c, ?_⟩; simp only [stepA, hb, Bool.false_eq_true, ↓reduceIte, if_pos c]
    · right; refine ⟨rfl, c, ?_⟩; simp only [stepA, hb, Bool.false_eq_true, ↓reduceIte, if_neg c]

theorem traceA_cons (w : List (Char)) (t : List (List Char)) (as : AS) :
    traceA wd maxWidth overlap numLines spaceW (w :: t) as =
      (stepA wd maxWidth overlap numLines spaceW w (t.headD []) as).1 ++
        traceA wd maxWidth overlap numLines spaceW t
          (stepA wd maxWidth overlap numLines spaceW w (t.headD []) as).2 := rfl

theorem finalA_cons (w : List (Char)) (t : List (List Char)) (as : AS) :
    finalA wd maxWidth overlap numLines spaceW (w :: t) as =
      finalA wd maxWidth overlap numLines spaceW t
        (stepA wd maxWidth overlap numLines spaceW w (t.headD []) as).2 := rfl

theorem breakItem_cases (numLines k : Int) (w : List Char) :
    (isAutoLineBreak w = true ∧ breakItem numLines k w = .brk .auto (expectedBreak numLines k)) ∨
    (isAutoLineBreak w = false ∧ breakItem numLines k w = .brk .explicit w) := by
  unfold breakItem; cases isAutoLineBreak w <;> simp

/-- W4 on traces. -/
theorem trace_disciplined (ws : List (List Char)) (as : AS) :
    Disciplined numLines as.lineNum (traceA wd maxWidth overlap numLines spaceW ws as) := by
  induction ws generalizing as with
  | nil => simp [traceA, Disciplined]
  | cons w t ih =>
    rw [traceA_cons]
    rcases stepA_cases wd maxWidth overlap numLines spaceW w (t.headD []) as with
      ⟨hb, e⟩ | ⟨hb, c, e⟩ | ⟨hb, c, e⟩
    · rw [e]
      rcases breakItem_cases numLines as.lineNum w with ⟨ha, e2⟩ | ⟨ha, e2⟩
      · have := ih { line := [], lineNum := nextLineNum as.lineNum w }
        rw [nextLineNum_auto _ ha] at this ⊢
        simp only [e2, List.cons_append, List.nil_append, Disciplined, nextLineNum_expectedBreak]
        exact ⟨by simp, this⟩
      · have := ih { line := [], lineNum := nextLineNum as.lineNum w }
        simp only [e2, List.cons_append, List.nil_append, Disciplined]
        exact ⟨fun h => absurd rfl h, this⟩
    · rw [e]
      have := ih { line := [w], lineNum := as.lineNum + 1 }
      simp only [List.cons_append, List.nil_append, Disciplined, nextLineNum_expectedBreak]
      exact ⟨by simp, this⟩
    · rw [e]
      exact ih { line := as.line ++ [w], lineNum := as.lineNum }

/-- The final abstract state is determined by the trace. -/
theorem finalA_eq (ws : List (List Char)) (as : AS) :
    (finalA wd maxWidth overlap numLines spaceW ws as).lineNum =
      numOf as.lineNum (traceA wd maxWidth overlap numLines spaceW ws as) ∧
    (finalA wd maxWidth overlap numLines spaceW ws as).line =
      curOf as.line (traceA wd maxWidth overlap numLines spaceW ws as) := by
  induction ws generalizing as with
  | nil => simp [traceA, finalA, numOf, curOf]
  | cons w t ih =>
    rw [traceA_cons, finalA_cons]
    rcases stepA_cases wd maxWidth overlap numLines spaceW w (t.headD []) as with
      ⟨hb, e⟩ | ⟨hb, c, e⟩ | ⟨hb, c, e⟩
    · rw [e]
      have := ih { line := [], lineNum := nextLineNum as.lineNum w }
      rcases breakItem_cases numLines as.lineNum w with ⟨ha, e2⟩ | ⟨ha, e2⟩
      · rw [nextLineNum_auto _ ha] at this ⊢
        simpa only [e2, List.cons_append, List.nil_append, numOf, curOf, nextLineNum_expectedBreak] using this
      · simpa only [e2, List.cons_append, List.nil_append, numOf, curOf] using this
    · rw [e]
      have := ih { line := [w], lineNum := as.lineNum + 1 }
      simpa only [List.cons_append, List.nil_append, numOf, curOf, nextLineNum_expectedBreak] using this
    · rw [e]
      exact ih { line := as.line ++ [w], lineNum := as.lineNum }

/-- W1 on traces: dropping the inserted wraps, the items are the input words one for one. -/
theorem trace_content (ws : List (List Char)) (as : AS) :
    AllMatch
      ((traceA wd maxWidth overlap numLines spaceW ws as).filter (fun i => !i.isWrap)) ws := by
  induction ws generalizing as with
  | nil => simp [traceA, AllMatch]
  | cons w t ih =>
    rw [traceA_cons]
    rcases stepA_cases wd maxWidth overlap numLines spaceW w (t.headD []) as with
      ⟨hb, e⟩ | ⟨hb, c, e⟩ | ⟨hb, c, e⟩
    · rw [e]
      rcases breakItem_cases numLines as.lineNum w with ⟨ha, e2⟩ | ⟨ha, e2⟩
      · simp only [e2, List.cons_append, List.nil_append, List.filter_cons, OutItem.isWrap]
        exact ⟨⟨ha, expectedBreak_cases _ _⟩, ih _⟩
      · simp only [e2, List.cons_append, List.nil_append, List.filter_cons, OutItem.isWrap]
        exact ⟨⟨hb, ha, rfl⟩, ih _⟩
    · rw [e]
      simp only [List.cons_append, List.nil_append, List.filter_cons, OutItem.isWrap]
      exact ⟨⟨hb, rfl⟩, ih _⟩
    · rw [e]
      simp only [List.cons_append, List.nil_append, List.filter_cons, OutItem.isWrap]
      exact ⟨⟨hb, rfl⟩, ih _⟩

theorem trace_eq_nil (ws : List (List Char)) (as : AS) :
    traceA wd maxWidth overlap numLines spaceW ws as = [] ↔ ws = [] := by
  cases ws with
  | nil => simp [traceA]
  | cons w t =>
    rw [traceA_cons]
    rcases stepA_cases wd maxWidth overlap numLines spaceW w (t.headD []) as with
      ⟨hb, e⟩ | ⟨hb, c, e⟩ | ⟨hb, c, e⟩ <;> rw [e] <;> simp

theorem trace_nextPara (ws : List (List Char)) (as : AS) :
    nextPara (traceA wd maxWidth overlap numLines spaceW ws as) =
      isParagraphBreak (ws.headD []) := by
  cases ws with
  | nil => simp [traceA, nextPara]; decide
  | cons w t =>
    rw [traceA_cons]
    have hnb : isLineBreak w = false → isParagraphBreak w = false := by
      intro h
      cases hp : isParagraphBreak w with
      | false => rfl
      | true => rw [isLineBreak_of_para hp] at h; cases h
    rcases stepA_cases wd maxWidth overlap numLines spaceW w (t.headD []) as with
      ⟨hb, e⟩ | ⟨hb, c, e⟩ | ⟨hb, c, e⟩
    · rw [e]
      rcases breakItem_cases numLines as.lineNum w with ⟨ha, e2⟩ | ⟨ha, e2⟩
      · simp [e2, nextPara, para_expectedBreak, para_of_auto ha]
      · simp [e2, nextPara]
    · rw [e]; simp [nextPara, para_expectedBreak, hnb hb]
    · rw [e]; simp [nextPara, hnb hb]

/-- The overlap charged according to the output equals the one the look-ahead rule charges. -/
theorem ovA_trace (k : Int) (t : List (List Char)) (ht : ∀ w ∈ t, w ≠ []) (as : AS) :
    ovA overlap numLines k (traceA wd maxWidth overlap numLines spaceW t as) =
      if overlapApplies numLines k (t.headD []) then overlap else 0 := by
  unfold ovA overlapApplies
  rw [trace_nextPara]
  have : (t.headD []).length > 0 ↔ traceA wd maxWidth overlap numLines spaceW t as ≠ [] := by
    rw [Ne, trace_eq_nil]
    cases t with
    | nil => simp
    | cons a t' =>
      have := ht a (by simp)
      simp [List.length_pos_iff, this]
  simp only [this]

theorem testWidth_trace (line : List (List Char)) (k : Int) (w : List Char)
    (t : List (List Char)) (ht : ∀ w ∈ t, w ≠ []) (as : AS) :
    testWidth wd overlap numLines spaceW line k w (t.headD []) =
      lineW wd spaceW (line ++ [w]) +
        ovA overlap numLines k (traceA wd maxWidth overlap numLines spaceW t as) := by
  rw [ovA_trace wd maxWidth overlap numLines spaceW k t ht as]; rfl

/-- W2 on traces. -/
theorem trace_fits (ws : List (List Char)) (hws : ∀ w ∈ ws, w ≠ []) (as : AS) :
    Fits wd maxWidth overlap numLines spaceW as.lineNum as.line
      (traceA wd maxWidth overlap numLines spaceW ws as) := by
  induction ws generalizing as with
  | nil => simp [traceA, Fits]
  | cons w t ih =>
    have ht : ∀ x ∈ t, x ≠ [] := fun x hx => hws x (by simp [hx])
    rw [traceA_cons]
    rcases stepA_cases wd maxWidth overlap numLines spaceW w (t.headD []) as with
      ⟨hb, e⟩ | ⟨hb, c, e⟩ | ⟨hb, c, e⟩
    · rw [e]
      have := ih ht { line := [], lineNum := nextLineNum as.lineNum w }
      rcases breakItem_cases numLines as.lineNum w with ⟨ha, e2⟩ | ⟨ha, e2⟩
      · rw [nextLineNum_auto _ ha] at this ⊢
        simpa only [e2, List.cons_append, List.nil_append, Fits, nextLineNum_expectedBreak] using this
      · simpa only [e2, List.cons_append, List.nil_append, Fits] using this
    · rw [e]
      have := ih ht { line := [w], lineNum := as.lineNum + 1 }
      simp only [List.cons_append, List.nil_append, Fits, nextLineNum_expectedBreak]
      exact ⟨fun h => absurd rfl h, this⟩
    · rw [e]
      have := ih ht { line := as.line ++ [w], lineNum := as.lineNum }
      simp only [List.cons_append, List.nil_append, Fits]
      refine ⟨fun hne => ?_, this⟩
      rw [testWidth_trace wd maxWidth overlap numLines spaceW as.line as.lineNum w t ht
        { line := as.line ++ [w], lineNum := as.lineNum }] at c
      have : ¬ (_ > maxWidth) := fun h => c ⟨h, hne⟩
      omega

/-- W3 on traces. -/
theorem trace_greedy (ws : List (List Char)) (hws : ∀ w ∈ ws, w ≠ []) (as : AS) :
    Greedy wd maxWidth overlap numLines spaceW as.lineNum as.line
      (traceA wd maxWidth overlap numLines spaceW ws as) := by
  induction ws generalizing as with
  | nil => simp [traceA, Greedy]
  | cons w t ih =>
    have ht : ∀ x ∈ t, x ≠ [] := fun x hx => hws x (by simp [hx])
    rw [traceA_cons]
    rcases stepA_cases wd maxWidth overlap numLines spaceW w (t.headD []) as with
      ⟨hb, e⟩ | ⟨hb, c, e⟩ | ⟨hb, c, e⟩
    · rw [e]
      have := ih ht { line := [], lineNum := nextLineNum as.lineNum w }
      rcases breakItem_cases numLines as.lineNum w with ⟨ha, e2⟩ | ⟨ha, e2⟩
      · rw [nextLineNum_auto _ ha] at this ⊢
        simp only [e2, List.cons_append, List.nil_append, Greedy, nextLineNum_expectedBreak]
        exact ⟨by simp, this⟩
      · simp only [e2, List.cons_append, List.nil_append, Greedy]
        exact ⟨by simp, this⟩
    · rw [e]
      have := ih ht { line := [w], lineNum := as.lineNum + 1 }
      simp only [List.cons_append, List.nil_append, Greedy, nextLineNum_expectedBreak,
        WrapJustified]
      rw [testWidth_trace wd maxWidth overlap numLines spaceW as.line as.lineNum w t ht
        { line := [w], lineNum := as.lineNum + 1 }] at c
      exact ⟨fun _ => ⟨c.2, c.1⟩, this⟩
    · rw [e]
      exact ih ht { line := as.line ++ [w], lineNum := as.lineNum }

/-- Consequence of W2 (pure list reasoning): completed lines with at least two words fit. -/
theorem fits_linesFit (its : List OutItem) (k : Int) (cur : List (List Char))
    (hf : Fits wd maxWidth overlap numLines spaceW k cur its)
    (hc : cur.length ≥ 2 → lineW wd spaceW cur + ovA overlap numLines k its ≤ maxWidth) :
    LinesFit wd maxWidth overlap numLines spaceW k cur its := by
  induction its generalizing k cur with
  | nil => simpa [LinesFit, ovA] using hc
  | cons i r ih =>
    cases i with
    | word w =>
      simp only [Fits] at hf
      simp only [LinesFit]
      refine ih _ _ hf.2 (fun hl => hf.1 ?_)
      intro h; subst h; simp at hl
    | brk bk c =>
      simp only [Fits] at hf
      simp only [LinesFit]
      refine ⟨?_, ih _ _ hf (fun hl => by simp at hl)⟩
      simpa [ovA, nextPara] using hc

theorem trace_linesFit (ws : List (List Char)) (hws : ∀ w ∈ ws, w ≠ []) :
    LinesFit wd maxWidth overlap numLines spaceW 0 []
      (traceA wd maxWidth overlap numLines spaceW ws {}) :=
  fits_linesFit wd maxWidth overlap numLines spaceW _ _ _
    (trace_fits wd maxWidth overlap numLines spaceW ws hws {}) (fun h => by simp at h)

end TraceProps

/-! ## Layer 2: the scanner `getNextWord` -/

/-- Position `i` of `l` may be skipped in front of a word: it holds a space.  (Before finding F15
was fixed in `getNextWord`, a backslash followed by another backslash could be skipped too.) -/
def Skippable (l : List Char) (i : Nat) : Prop := l[i]? = some ' '

theorem getElem?_append_some {l : List Char} (m : List Char) {i : Nat} {x : Char}
    (h : l[i]? = some x) : (l ++ m)[i]? = some x := by
  have hi : i < l.length := by
    cases Nat.lt_or_ge i l.length with
    | inl h' => exact h'
    | inr h' => rw [List.getElem?_eq_none h'] at h; cases h
  rw [List.getElem?_append_left hi]; exact h

theorem Skippable.mono {l : List Char} {i : Nat} (h : Skippable l i) (m : List Char) :
    Skippable (l ++ m) i := by
  exact getElem?_append_some m h

theorem spaces_skippable {pre : List Char} (h : ∀ c ∈ pre, c = ' ') (m : List Char) {i : Nat}
    (hi : i < pre.length) : Skippable (pre ++ m) i := by
  show (pre ++ m)[i]? = some ' '
  rw [List.getElem?_append_left hi, List.getElem?_eq_getElem hi]
  rw [h _ (List.getElem_mem hi)]

/-- Invariant of the scanning loop; `pre` is the part of the text already read. -/
structure WInv (pre : List Char) (st : WS) : Prop where
  endLe : st.endPos ≤ pre.length
  startLt : st.foundNonSpace = true → st.startPos < pre.length
  reg : st.foundRegularRune = true → st.foundNonSpace = true
  escNS : st.escape = true → st.foundNonSpace = true
  esc : st.escape = true → st.foundRegularRune = true → st.endOnNext = false →
    st.startPos < st.endPos
  spaces : st.foundNonSpace = false → ∀ c ∈ pre, c = ' '
  eon : st.endOnNext = true → st.foundNonSpace = true
  lvl : st.foundRegularRune = false → st.level = 0
  lastBS : st.foundNonSpace = true → st.foundRegularRune = false → st.endOnNext = false →
    st.startPos + 1 = pre.length ∧ pre[st.startPos]? = some '\\' ∧ st.escape = true
  skipped : st.foundNonSpace = true → ∀ i, i < st.startPos → Skippable pre i

/-- What `getNextWord` returns: an end position inside the text and either the empty word
(then the whole text is spaces and everything was consumed) or a non-empty contiguous slice
`[a, end)` such that every position before `a` holds a space. -/
def WordRes (text : List Char) (res : Nat × List Char) : Prop :=
  res.1 ≤ text.length ∧
  ((res.2 = [] ∧ res.1 = text.length ∧ ∀ c ∈ text, c = ' ') ∨
   (∃ a, a < res.1 ∧ res.2 = slice text a res.1 ∧ ∀ i, i < a → Skippable text i))

theorem nextWordLoop_spec (text : List Char) (cs : List Char) :
    ∀ (pre : List Char) (pos : Nat) (st : WS), text = pre ++ cs → pos = pre.length →
      WInv pre st → WordRes text (nextWordLoop text cs pos st) := by
  induction cs with
  | nil =>
    intro pre pos st ht hp inv
    simp only [List.append_nil] at ht
    subst ht
    rw [nextWordLoop]
    cases hns : st.foundNonSpace with
    | false =>
      simp only [Bool.not_false, ↓reduceIte]
      exact ⟨Nat.le_refl _, Or.inl ⟨rfl, rfl, inv.spaces hns⟩⟩
    | true =>
      simp only [Bool.not_true, Bool.false_eq_true, ↓reduceIte]
      refine ⟨Nat.le_refl _, Or.inr ⟨st.startPos, inv.startLt hns, ?_, inv.skipped hns⟩⟩
      unfold slice
      rw [List.take_of_length_le (by simp)]
  | cons c r ih =>
    intro pre pos st ht hp inv
    have ht' : text = (pre ++ [c]) ++ r := by simp [ht]
    have hp' : pos + 1 = (pre ++ [c]).length := by simp [hp]
    have hlen : text.length = pos + 1 + r.length := by rw [ht]; simp [hp]; omega
    have hsk : st.foundNonSpace = true → ∀ i, i < st.startPos → Skippable text i := by
      intro hns i hi; rw [ht]; exact (inv.skipped hns i hi).mono _
    have hlast : (pre ++ [c])[pos]? = some c := by
      rw [hp, List.getElem?_append_right (Nat.le_refl _)]; simp
    rw [nextWordLoop]
    split
    · -- endOnNext
      rename_i h
      refine ⟨by omega, Or.inr ⟨st.startPos, ?_, rfl, hsk (inv.eon h)⟩⟩
      have := inv.startLt (inv.eon h); omega
    · rename_i hE
      have hE : st.endOnNext = false := by simpa using hE
      split
      · rename_i h
        have hesc : st.escape = true := by
          cases h' : st.escape <;> simp [h'] at h ⊢
        split
        · rename_i hr
          have := inv.esc hesc hr hE
          have := inv.endLe
          exact ⟨by show st.endPos ≤ _; omega,
            Or.inr ⟨st.startPos, by assumption, rfl, hsk (inv.escNS hesc)⟩⟩
        · rename_i hr
          refine ih _ _ _ ht' hp' ⟨?_, ?_, ?_, ?_, ?_, ?_, ?_, ?_, ?_, ?_⟩
          · simpa using Nat.le_succ_of_le inv.endLe
          · intro h; have := inv.startLt h; simp; omega
          · exact inv.reg
          · exact inv.escNS
          · intro _ _ h; simp at h
          · intro h; rw [inv.escNS hesc] at h; cases h
          · intro _; exact inv.escNS hesc
          · exact inv.lvl
          · intro _ _ h; simp at h
          · intro h i hi; exact (inv.skipped h i hi).mono _
      · split
        · -- backslash at level 0
          rename_i hbs
          have hc : c = '\\' := by
            have : (c == '\\') = true := by
              cases h' : (c == '\\') <;> simp [h'] at hbs ⊢
            simpa using this
          have hfrT : (st.foundRegularRune || st.escape) = true → st.foundNonSpace = true := by
            intro h
            cases hr : st.foundRegularRune with
            | true => exact inv.reg hr
            | false => rw [hr] at h; exact inv.escNS (by simpa using h)
          have hfrF : (st.foundRegularRune || st.escape) = false → st.foundNonSpace = false := by
            intro h
            obtain ⟨hr, he⟩ := Bool.or_eq_false_iff.1 h
            cases hns : st.foundNonSpace with
            | false => rfl
            | true =>
              have := (inv.lastBS hns hr hE).2.2
              rw [he] at this; cases this
          refine ih _ _ _ ht' hp' ⟨?_, ?_, ?_, ?_, ?_, ?_, ?_, ?_, ?_, ?_⟩
          · simp [hp]
          · intro _
            show (if (!(st.foundRegularRune || st.escape)) = true then pos else st.startPos) < _
            split
            · simp [hp]
            · rename_i hr
              have hr' : (st.foundRegularRune || st.escape) = true := by
                cases h' : (st.foundRegularRune || st.escape) <;> simp [h'] at hr ⊢
              have := inv.startLt (hfrT hr'); simp; omega
          · intro _; rfl
          · intro _; rfl
          · intro _ hr _
            show (if (!(st.foundRegularRune || st.escape)) = true then pos else st.startPos) < pos
            have hr : (st.foundRegularRune || st.escape) = true := hr
            simp only [hr, Bool.not_true, Bool.false_eq_true, ↓reduceIte]
            have := inv.startLt (hfrT hr); omega
          · intro h; cases h
          · intro _; rfl
          · intro hr
            have hr : (st.foundRegularRune || st.escape) = false := hr
            exact inv.lvl (Bool.or_eq_false_iff.1 hr).1
          · intro _ hr _
            have hr : (st.foundRegularRune || st.escape) = false := hr
            show (if (!(st.foundRegularRune || st.escape)) = true then pos else st.startPos) + 1 = _ ∧
              (pre ++ [c])[if (!(st.foundRegularRune || st.escape)) = true then pos
                else st.startPos]? = _ ∧ true = true
            simp only [hr, Bool.not_false, ↓reduceIte]
            exact ⟨hp', by rw [hlast, hc], trivial⟩
          · intro _ i hi
            have hi : i < (if (!(st.foundRegularRune || st.escape)) = true then pos
              else st.startPos) := hi
            cases hfr : (st.foundRegularRune || st.escape) with
            | true =>
              simp only [hfr, Bool.not_true, Bool.false_eq_true, ↓reduceIte] at hi
              exact (inv.skipped (hfrT hfr) i hi).mono _
            | false =>
              simp only [hfr, Bool.not_false, ↓reduceIte] at hi
              exact spaces_skippable (inv.spaces (hfrF hfr)) _ (by omega)
        · split
          · -- space
            rename_i hc
            split
            · rename_i h
              have hns : st.foundNonSpace = true := by
                cases h' : st.foundNonSpace <;> simp [h'] at h ⊢
              have := inv.startLt hns
              exact ⟨by show pos ≤ _; omega,
                Or.inr ⟨st.startPos, by show _ < pos; omega, rfl, hsk hns⟩⟩
            · rename_i hcont
              refine ih _ _ _ ht' hp' ⟨?_, ?_, ?_, ?_, ?_, ?_, ?_, ?_, ?_, ?_⟩
              · simpa using Nat.le_succ_of_le inv.endLe
              · intro h; have := inv.startLt h; simp; omega
              · exact inv.reg
              · intro h; cases h
              · intro h; cases h
              · intro h x hx
                have hc : c = ' ' := by simpa using hc
                rcases List.mem_append.1 hx with hx | hx
                · exact inv.spaces h x hx
                · simp at hx; rw [hx, hc]
              · exact inv.eon
              · exact inv.lvl
              · intro hns hr _
                have hns : st.foundNonSpace = true := hns
                have hr : st.foundRegularRune = false := hr
                exfalso; apply hcont; simp [hns, inv.lvl hr]
              · intro h i hi; exact (inv.skipped h i hi).mono _
          · -- regular rune
            have key : ∀ lv : Nat, WInv (pre ++ [c])
                { st with startPos := if (!st.foundNonSpace) = true then pos else st.startPos,
                          foundRegularRune := true, foundNonSpace := true, level := lv,
                          escape := false } := by
              intro lv
              refine ⟨?_, ?_, ?_, ?_, ?_, ?_, ?_, ?_, ?_, ?_⟩
              · simpa using Nat.le_succ_of_le inv.endLe
              · intro _
                show (if (!st.foundNonSpace) = true then pos else st.startPos) < _
                split
                · simp [hp]
                · rename_i hn
                  have := inv.startLt (by simpa using hn); simp; omega
              · intro _; rfl
              · intro h; cases h
              · intro h; cases h
              · intro h; cases h
              · intro _; rfl
              · intro h; cases h
              · intro _ h; cases h
              · intro _ i hi
                have hi : i < (if (!st.foundNonSpace) = true then pos else st.startPos) := hi
                cases hns : st.foundNonSpace with
                | false =>
                  simp only [hns, Bool.not_false, ↓reduceIte] at hi
                  exact spaces_skippable (inv.spaces hns) _ (by omega)
                | true =>
                  simp only [hns, Bool.not_true, Bool.false_eq_true, ↓reduceIte] at hi
                  exact (inv.skipped hns i hi).mono _
            by_cases h1 : (c == '{') = true
            · simp only [h1, ↓reduceIte]; exact ih _ _ _ ht' hp' (key _)
            · simp only [h1]
              by_cases h2 : (c == '}') = true
              · simp only [h2, ↓reduceIte]
                by_cases h3 : st.level > 0
                · simp only [h3, ↓reduceIte]; exact ih _ _ _ ht' hp' (key _)
                · simp only [h3, ↓reduceIte]; exact ih _ _ _ ht' hp' (key _)
              · simp only [h2]; exact ih _ _ _ ht' hp' (key _)

theorem getNextWord_spec (text : List Char) : WordRes text (getNextWord text) :=
  nextWordLoop_spec text text [] 0 {} rfl rfl
    ⟨Nat.le_refl _, fun h => (by cases h), fun h => (by cases h), fun h => (by cases h),
     fun h => (by cases h), fun _ c hc => (by cases hc), fun h => (by cases h),
     fun _ => rfl, fun h => (by cases h), fun h => (by cases h)⟩

theorem slice_length (text : List Char) (a b : Nat) (hb : b ≤ text.length) :
    (slice text a b).length = b - a := by
  unfold slice; simp; omega

/-- A non-empty word consumes at least one character and never more than the text. -/
theorem getNextWord_progress (text : List Char) (h : (getNextWord text).2 ≠ []) :
    1 ≤ (getNextWord text).1 ∧ (getNextWord text).1 ≤ text.length := by
  obtain ⟨hle, h1 | ⟨a, ha, _, _⟩⟩ := getNextWord_spec text
  · exact absurd h1.1 h
  · exact ⟨by omega, hle⟩

/-! ## Layer 2: the real loop is `runWords` over the scanned words -/

/-- The words `getNextWord` yields when iterated on a text (fuel-bounded). -/
def wordsOf : Nat → List Char → List (List Char)
  | 0, _ => []
  | n + 1, text =>
    if (getNextWord text).2.length == 0 then []
    else (getNextWord text).2 :: wordsOf n (text.drop (getNextWord text).1)

/-- All words of a text. -/
def allWords (text : List Char) : List (List Char) := wordsOf (text.length + 1) text

theorem wordsOf_ne (n : Nat) (text : List Char) : ∀ w ∈ wordsOf n text, w ≠ [] := by
  induction n generalizing text with
  | zero => simp [wordsOf]
  | succ n ih =>
    rw [wordsOf]
    split
    · simp
    · rename_i h
      intro w hw
      rcases List.mem_cons.1 hw with rfl | hw
      · intro h0; rw [h0] at h; simp at h
      · exact ih _ w hw

/-! ## Coverage: the scanner skips nothing but spaces -/

theorem slice_decomp (text : List Char) (a e : Nat) (h : a ≤ e) :
    text = text.take a ++ slice text a e ++ text.drop e := by
  unfold slice
  have h1 : text.drop e = (text.drop a).drop (e - a) := by
    rw [List.drop_drop]; congr 1; omega
  rw [h1, List.append_assoc, List.take_append_drop, List.take_append_drop]

theorem mem_take_getElem? (text : List Char) (a : Nat) (c : Char) (h : c ∈ text.take a) :
    ∃ i, i < a ∧ text[i]? = some c := by
  obtain ⟨i, hi, rfl⟩ := List.mem_iff_getElem.1 h
  have hi' : i < a ∧ i < text.length := by
    simp [List.length_take] at hi; omega
  refine ⟨i, hi'.1, ?_⟩
  rw [List.getElem_take, List.getElem?_eq_getElem hi'.2]

/-- A non-empty word is a contiguous slice `[a, end)` of the text and is preceded by spaces only:
the scanner drops nothing but spaces (no hypothesis on the text; before the fix of F15 this
needed "no two adjacent backslashes"). -/
theorem getNextWord_skips_only_spaces (text : List Char) (hw : (getNextWord text).2 ≠ []) :
    ∃ a, a < (getNextWord text).1 ∧ (getNextWord text).1 ≤ text.length ∧
      (getNextWord text).2 = slice text a (getNextWord text).1 ∧
      ∀ c ∈ text.take a, c = ' ' := by
  obtain ⟨hle, h1 | ⟨a, ha, hs, hk⟩⟩ := getNextWord_spec text
  · exact absurd h1.1 hw
  · refine ⟨a, ha, hle, hs, ?_⟩
    intro c hc
    obtain ⟨i, hi, hci⟩ := mem_take_getElem? text a c hc
    have h : text[i]? = some ' ' := hk i hi
    rw [hci] at h; injection h

/-- The text is: spaces, then the word, then the rest the scanner continues on. -/
theorem getNextWord_decomp (text : List Char) (hw : (getNextWord text).2 ≠ []) :
    ∃ sp, (∀ c ∈ sp, c = ' ') ∧
      text = sp ++ (getNextWord text).2 ++ text.drop (getNextWord text).1 := by
  obtain ⟨a, ha, _, hs, hsp⟩ := getNextWord_skips_only_spaces text hw
  refine ⟨text.take a, hsp, ?_⟩
  rw [hs]
  exact slice_decomp text a _ (Nat.le_of_lt ha)

/-- The scanned words contain all non-space characters of the text, in order, and nothing
else (for every text). -/
theorem wordsOf_cover (n : Nat) (text : List Char) (hn : text.length < n) :
    ((wordsOf n text).flatten).filter (fun c => c != ' ') = text.filter (fun c => c != ' ') := by
  induction n generalizing text with
  | zero => omega
  | succ m ih =>
    rw [wordsOf]
    by_cases he : (getNextWord text).2.length == 0
    · have he' : (getNextWord text).2 = [] := by simpa using he
      simp only [he, ↓reduceIte, List.flatten_nil, List.filter_nil]
      obtain ⟨_, h1 | ⟨a, ha, hs, _⟩⟩ := getNextWord_spec text
      · symm
        rw [List.filter_eq_nil_iff]
        intro c hc; simp [h1.2.2 c hc]
      · exfalso
        have hl := slice_length text a _ (getNextWord_spec text).1
        rw [← hs, he'] at hl; simp at hl; omega
    · have hne : (getNextWord text).2 ≠ [] := by simpa using he
      simp only [he, Bool.false_eq_true, ↓reduceIte, List.flatten_cons, List.filter_append]
      obtain ⟨a, ha, hle, hs, hsp⟩ := getNextWord_skips_only_spaces text hne
      rw [ih _ (by simp; omega)]
      conv => rhs; rw [slice_decomp text a (getNextWord text).1 (Nat.le_of_lt ha)]
      rw [List.filter_append, List.filter_append, ← hs]
      have : (text.take a).filter (fun c => c != ' ') = [] := by
        rw [List.filter_eq_nil_iff]
        intro c hc; simp [hsp c hc]
      rw [this, List.nil_append]

/-! Superseded: before F15 was fixed the two results above needed the hypothesis `NoDoubleBS`.
The old names are kept as corollaries. -/

/-- No two adjacent backslashes (was needed before the fix of F15; no longer used). -/
def NoDoubleBS (text : List Char) : Prop :=
  ∀ i, ¬ (text[i]? = some '\\' ∧ text[i + 1]? = some '\\')

theorem getNextWord_skips_only_spaces_partial (text : List Char) (_hbs : NoDoubleBS text)
    (hw : (getNextWord text).2 ≠ []) :
    ∃ a, a < (getNextWord text).1 ∧ (getNextWord text).1 ≤ text.length ∧
      (getNextWord text).2 = slice text a (getNextWord text).1 ∧
      ∀ c ∈ text.take a, c = ' ' :=
  getNextWord_skips_only_spaces text hw

theorem wordsOf_cover_partial (n : Nat) (text : List Char) (_hbs : NoDoubleBS text)
    (hn : text.length < n) :
    ((wordsOf n text).flatten).filter (fun c => c != ' ') = text.filter (fun c => c != ' ') :=
  wordsOf_cover n text hn

section Loop
variable (fc : FontConfig) (fontID : String) (maxWidth overlap numLines spaceW : Int)

/-- The real main loop equals the word-level loop over the scanned words. -/
theorem formatLoop_eq_runWords (n : Nat) (rest word : List Char) (st : FS)
    (hw : word ≠ []) (hn : rest.length < n) :
    formatLoop fc fontID maxWidth overlap numLines spaceW (n + 1) rest word st =
      runWords fc fontID maxWidth overlap numLines spaceW (word :: wordsOf n rest) st := by
  induction n generalizing rest word st with
  | zero => omega
  | succ m ih =>
    have hl : (word.length == 0) = false := by
      cases word with
      | nil => exact absurd rfl hw
      | cons a t => rfl
    rw [formatLoop]
    simp only [hl, Bool.false_eq_true, ↓reduceIte]
    rw [wordsOf]
    by_cases he : (getNextWord rest).2.length == 0
    · have he' : (getNextWord rest).2 = [] := by simpa using he
      simp only [he, ↓reduceIte, runWords, List.headD_nil]
      rw [he']
      cases m <;> simp [formatLoop]
    · have hne : (getNextWord rest).2 ≠ [] := by simpa using he
      simp only [he, Bool.false_eq_true, ↓reduceIte]
      rw [runWords, List.headD_cons]
      obtain ⟨h1, h2⟩ := getNextWord_progress rest hne
      exact ih _ _ _ hne (by simp; omega)

/-- The text `FormatText` works on: newline characters become spaces. -/
def normalize (text : List Char) : List Char := text.map fun c => if c == '\n' then ' ' else c

/-- `formatText` (for an accepted font id) is the word-level loop run on all scanned words. -/
theorem formatText_eq_runWords (text : List Char) (fontID : String)
    (hv : (!fc.isFontIDValid fontID && fontID.length > 0 && fontID != Facts.testFontID) = false) :
    formatText fc text maxWidth overlap fontID numLines =
      .ok ((runWords fc fontID maxWidth overlap numLines (getRunePixelWidth fc ' ' fontID)
              (allWords (normalize text)) {}).formatted ++
           (runWords fc fontID maxWidth overlap numLines (getRunePixelWidth fc ' ' fontID)
              (allWords (normalize text)) {}).curLine) := by
  unfold formatText
  simp only [hv, Bool.false_eq_true, ↓reduceIte]
  rw [show (text.map fun c => if c == '\n' then ' ' else c) = normalize text from rfl]
  unfold allWords
  rw [wordsOf]
  by_cases he : (getNextWord (normalize text)).2.length == 0
  · simp [he, runWords]
  · have hne : (getNextWord (normalize text)).2 ≠ [] := by simpa using he
    obtain ⟨h1, h2⟩ := getNextWord_progress _ hne
    simp only [he, Bool.false_eq_true, ↓reduceIte]
    rw [formatLoop_eq_runWords _ _ _ _ _ _ _ _ _ _ hne (by simp; omega)]

end Loop

end Pory.Fmt
