import PoryProofs.LexLayout
/-
String literals in the lexer model (`strBody`, `readString`, `readStringToken` of
`PoryModel/Lexer.lean`), used by `PoryProofs/Properties/C09b.lean`.

The counter-free copies `strBodyE` / `readStringE` (`PoryProofs/LexLayout.lean`, proved equal to
the model for any counters: `strBody_e`, `readString_e`) are characterised here:

* `strBodyF` — `strBodyE` with its standard fuel; fuel irrelevance `strBodyE_fuel` and the three
  defining equations `strBodyF_stop`, `strBodyF_nl`, `strBodyF_char`;
* `Part src txt` — the text `txt` denoted by the source `src` of one part (what stands between
  the quotes): ordinary characters denote themselves, a line break (`\n` or `\r`, then any
  further whitespace) denotes one space;  `strBodyF_part`;
* `joinParts` — the Go `if sb.Len() > 0 { sb.WriteByte('\n') }; sb.WriteString(part)` fold;
* `Parts ps src` — the source of a multi-part literal; `readStringE_parts`.
-/
namespace Pory.LexString
open Pory Pory.Lexer Pory.LexPos Pory.LexLayout Pory.C19b

/-! ### `strBody` -/

theorem strBodyE_fuel (n m : Nat) (inp : List Char) (hn : inp.length < n) (hm : inp.length < m) :
    strBodyE n inp = strBodyE m inp := by
  induction n generalizing m inp with
  | zero => exact absurd hn (Nat.not_lt_zero _)
  | succ n ih =>
    cases m with
    | zero => exact absurd hm (Nat.not_lt_zero _)
    | succ m =>
      cases inp with
      | nil => rfl
      | cons c r =>
        simp only [strBodyE]
        simp only [List.length_cons] at hn hm
        split
        · rfl
        · split
          · have h1 := dropWhile_length_le isNl (c :: r)
            have h2 := dropWhile_length_le isWs ((c :: r).dropWhile isNl)
            have hc : (c :: r).dropWhile isNl = r.dropWhile isNl := by
              rw [List.dropWhile_cons, if_pos (by assumption)]
            rw [hc] at h2 ⊢
            have h3 := dropWhile_length_le isNl r
            rw [ih m _ (by omega) (by omega)]
          · rw [ih m r (by omega) (by omega)]

/-- `strBody` with the fuel `readString` gives it -/
def strBodyF (inp : List Char) : List Char × List Char := strBodyE (inp.length + 1) inp

theorem strBodyF_nil : strBodyF [] = ([], []) := rfl

theorem strBodyF_stop (c : Char) (r : List Char) (h : c = '"' ∨ c = NUL) :
    strBodyF (c :: r) = ([], c :: r) := by
  have : (c == '"' || c == NUL) = true := by rcases h with rfl | rfl <;> decide
  simp only [strBodyF, strBodyE, List.length_cons, this, if_true]

theorem isNl_isWs {c : Char} (h : isNl c = true) : isWs c = true := by
  simp only [isNl, Bool.or_eq_true, beq_iff_eq] at h
  rcases h with rfl | rfl <;> decide

theorem dropWhile_ws_nl (l : List Char) : (l.dropWhile isNl).dropWhile isWs = l.dropWhile isWs := by
  induction l with
  | nil => rfl
  | cons c r ih =>
    by_cases h : isNl c = true
    · rw [List.dropWhile_cons, if_pos h, ih, List.dropWhile_cons, if_pos (isNl_isWs h)]
    · rw [List.dropWhile_cons, if_neg h]

/-- A line break inside a part: the break and all whitespace after it become one space. -/
theorem strBodyF_nl (c : Char) (r : List Char) (h1 : c ≠ '"') (h2 : c ≠ NUL) (h : isNl c = true) :
    strBodyF (c :: r) = (' ' :: (strBodyF (r.dropWhile isWs)).1, (strBodyF (r.dropWhile isWs)).2) := by
  have hq : (c == '"' || c == NUL) = false := by simp [h1, h2]
  have hc : ((c :: r).dropWhile isNl).dropWhile isWs = r.dropWhile isWs := by
    rw [dropWhile_ws_nl, List.dropWhile_cons, if_pos (isNl_isWs h)]
  simp only [strBodyF, strBodyE, List.length_cons, hq, Bool.false_eq_true, if_false, h, if_true]
  rw [hc]
  have hl := dropWhile_length_le isWs r
  rw [strBodyE_fuel (r.length + 1) ((r.dropWhile isWs).length + 1) _ (by omega) (by omega)]

/-- Any other character is copied. -/
theorem strBodyF_char (c : Char) (r : List Char) (h1 : c ≠ '"') (h2 : c ≠ NUL) (h : isNl c = false) :
    strBodyF (c :: r) = (c :: (strBodyF r).1, (strBodyF r).2) := by
  have hq : (c == '"' || c == NUL) = false := by simp [h1, h2]
  simp only [strBodyF, strBodyE, List.length_cons, hq, Bool.false_eq_true, if_false, h]

/-- `Part src txt`: the source `src` of one part of a literal (the characters between the quotes)
denotes the text `txt`.  A character other than `"`, NUL, `\n`, `\r` denotes itself; a `\n` or
`\r` together with the whitespace `ws` that follows it (up to the next non-whitespace character)
denotes exactly one space. -/
inductive Part : List Char → List Char → Prop
  | nil : Part [] []
  | char (c : Char) (src txt : List Char) : c ≠ '"' → c ≠ NUL → isNl c = false → Part src txt →
      Part (c :: src) (c :: txt)
  | brk (c : Char) (ws src txt : List Char) : isNl c = true → (∀ x ∈ ws, isWs x = true) →
      (∀ x ∈ src.head?, isWs x = false) → Part src txt → Part (c :: (ws ++ src)) (' ' :: txt)

theorem dropWhile_append_stop (P : Char → Bool) (ws rest : List Char) (h : ∀ x ∈ ws, P x = true)
    (hr : ∀ x ∈ rest.head?, P x = false) : (ws ++ rest).dropWhile P = rest := by
  induction ws with
  | nil =>
    cases rest with
    | nil => rfl
    | cons d r => rw [List.nil_append, List.dropWhile_cons, if_neg (by simp [hr d (by simp)])]
  | cons c ws ih =>
    rw [List.cons_append, List.dropWhile_cons, if_pos (h c (List.mem_cons_self ..))]
    exact ih fun x hx => h x (List.mem_cons_of_mem _ hx)

/-- **One part**: reading `src"…` yields the text `src` denotes and stops *at* the closing quote
(whatever follows it). -/
theorem strBodyF_part {src txt : List Char} (h : Part src txt) (t : List Char) :
    strBodyF (src ++ '"' :: t) = (txt, '"' :: t) := by
  induction h with
  | nil => exact strBodyF_stop _ _ (Or.inl rfl)
  | char c src txt h1 h2 h3 _ ih =>
    rw [List.cons_append, strBodyF_char c _ h1 h2 h3, ih]
  | brk c ws src txt h1 h2 h3 _ ih =>
    have hq : c ≠ '"' ∧ c ≠ NUL := by
      simp only [isNl, Bool.or_eq_true, beq_iff_eq] at h1
      rcases h1 with rfl | rfl <;> decide
    have hd : ((ws ++ src) ++ '"' :: t).dropWhile isWs = src ++ '"' :: t := by
      rw [List.append_assoc]
      refine dropWhile_append_stop isWs ws _ h2 ?_
      cases src with
      | nil => intro x hx; simp at hx; subst hx; decide
      | cons d r => intro x hx; exact h3 x (by simpa using hx)
    rw [List.cons_append, strBodyF_nl c _ hq.1 hq.2 h1, hd, ih]

/-- A part without quote, NUL and line breaks denotes itself. -/
theorem Part.plain (cs : List Char) (h : ∀ c ∈ cs, c ≠ '"' ∧ c ≠ NUL ∧ c ≠ '\n' ∧ c ≠ '\r') :
    Part cs cs := by
  induction cs with
  | nil => exact .nil
  | cons c cs ih =>
    obtain ⟨h1, h2, h3, h4⟩ := h c (List.mem_cons_self ..)
    exact .char c cs cs h1 h2 (by simp [isNl, h3, h4]) (ih fun x hx => h x (List.mem_cons_of_mem _ hx))

/-- Appending: a part source may be built from pieces, provided a piece that follows a break
piece does not start with whitespace — expressed here for the useful case "plain text first". -/
theorem Part.plain_append (cs : List Char) {src txt : List Char}
    (h : ∀ c ∈ cs, c ≠ '"' ∧ c ≠ NUL ∧ c ≠ '\n' ∧ c ≠ '\r') (hp : Part src txt) :
    Part (cs ++ src) (cs ++ txt) := by
  induction cs with
  | nil => exact hp
  | cons c cs ih =>
    obtain ⟨h1, h2, h3, h4⟩ := h c (List.mem_cons_self ..)
    exact .char c _ _ h1 h2 (by simp [isNl, h3, h4]) (ih fun x hx => h x (List.mem_cons_of_mem _ hx))

/-! ### `readString` -/

/-- one step of the Go accumulation: `if sb.Len() > 0 { sb.WriteByte('\n') }; sb.WriteString(t)` -/
def addPart (sb t : List Char) : List Char := (if sb.isEmpty then sb else sb ++ ['\n']) ++ t

/-- the literal of a multi-part string with part texts `txts` -/
def joinParts (txts : List (List Char)) : List Char := txts.foldl addPart []

theorem foldl_addPart_ne (sb : List Char) (hsb : sb ≠ []) (txts : List (List Char)) :
    txts.foldl addPart sb = sb ++ (txts.map fun t => '\n' :: t).flatten := by
  induction txts generalizing sb with
  | nil => simp
  | cons t ts ih =>
    have h1 : addPart sb t = sb ++ '\n' :: t := by
      cases sb with
      | nil => exact absurd rfl hsb
      | cons a b => simp [addPart]
    rw [List.foldl_cons, h1, ih _ (by simp)]
    simp

/-- When the first part is non-empty the literal is the part texts joined by single newlines. -/
theorem joinParts_cons (t : List Char) (ht : t ≠ []) (ts : List (List Char)) :
    joinParts (t :: ts) = t ++ (ts.map fun x => '\n' :: x).flatten := by
  have h0 : addPart [] t = t := by simp [addPart]
  rw [joinParts, List.foldl_cons, h0, foldl_addPart_ne t ht]

/-- An empty first part leaves no trace (the Go code tests `sb.Len() > 0`, not "is this the
first part"). -/
theorem joinParts_nil_cons (ts : List (List Char)) : joinParts ([] :: ts) = joinParts ts := by
  simp [joinParts, addPart]

/-- One part of a multi-part literal: source between the quotes, its text, and the whitespace
after the closing quote. -/
structure PartSrc where
  src : List Char
  txt : List Char
  ws : List Char

/-- the source text of a sequence of parts: `"src₁"ws₁"src₂"ws₂ …` -/
def partsSrc : List PartSrc → List Char
  | [] => []
  | q :: r => '"' :: (q.src ++ '"' :: (q.ws ++ partsSrc r))

def PartsOK (ps : List PartSrc) : Prop :=
  ∀ q ∈ ps, Part q.src q.txt ∧ ∀ x ∈ q.ws, isWs x = true

theorem partsSrc_head (ps : List PartSrc) (tail : List Char)
    (ht : ∀ x ∈ tail.head?, isWs x = false) : ∀ x ∈ (partsSrc ps ++ tail).head?, isWs x = false := by
  cases ps with
  | nil => simpa [partsSrc] using ht
  | cons q r => intro x hx; simp [partsSrc] at hx; subst hx; decide

theorem partsSrc_length (ps : List PartSrc) : ps.length ≤ (partsSrc ps).length := by
  induction ps with
  | nil => simp
  | cons q r ih => simp [partsSrc]; omega

/-- **All parts**: from accumulated text `sb`, reading the parts `ps` (then something that is
neither whitespace nor a quote) accumulates their texts with `addPart` and stops at `tail`. -/
theorem readStringE_parts (ps : List PartSrc) (hok : PartsOK ps) (tail : List Char)
    (hw : ∀ x ∈ tail.head?, isWs x = false) (hq : ch tail ≠ '"') (n : Nat) (hn : ps.length < n)
    (sb : List Char) :
    readStringE n (partsSrc ps ++ tail) sb = ((ps.map (·.txt)).foldl addPart sb, tail) := by
  induction ps generalizing n sb with
  | nil =>
    cases n with
    | zero => exact absurd hn (Nat.not_lt_zero _)
    | succ n =>
      have : (ch tail == '"') = false := by simpa using hq
      simp only [partsSrc, List.nil_append, readStringE, this, Bool.false_eq_true, if_false,
        List.map_nil, List.foldl_nil]
  | cons q r ih =>
    cases n with
    | zero => exact absurd hn (Nat.not_lt_zero _)
    | succ n =>
      obtain ⟨hp, hws⟩ := hok q (List.mem_cons_self ..)
      have hbody : strBodyE ((q.src ++ '"' :: (q.ws ++ partsSrc r) ++ tail).length + 1)
          (q.src ++ '"' :: (q.ws ++ partsSrc r) ++ tail) = (q.txt, '"' :: (q.ws ++ (partsSrc r ++ tail))) := by
        have := strBodyF_part hp (q.ws ++ (partsSrc r ++ tail))
        rw [strBodyF] at this
        simpa using this
      have hdrop : (q.ws ++ (partsSrc r ++ tail)).dropWhile isWs = partsSrc r ++ tail :=
        dropWhile_append_stop isWs _ _ hws (partsSrc_head r tail hw)
      have hch : (ch (partsSrc (q :: r) ++ tail) == '"') = true := by simp [partsSrc, ch]
      rw [readStringE, if_pos hch]
      simp only [partsSrc, List.cons_append, List.tail_cons]
      rw [hbody]
      simp only [List.tail_cons]
      rw [hdrop, ih (fun x hx => hok x (List.mem_cons_of_mem _ hx)) n (by simpa using hn)]
      simp [addPart]

/-- the complete literal: `readString` as `readStringToken` calls it -/
theorem strLit_parts (ps : List PartSrc) (hok : PartsOK ps) (tail : List Char)
    (hw : ∀ x ∈ tail.head?, isWs x = false) (hq : ch tail ≠ '"') :
    strLitE (partsSrc ps ++ tail) = joinParts (ps.map (·.txt)) ∧
      strRestE (partsSrc ps ++ tail) = tail := by
  have hl := partsSrc_length ps
  have := readStringE_parts ps hok tail hw hq ((partsSrc ps ++ tail).length + 1)
    (by simp; omega) []
  simp only [strLitE, strRestE, this, joinParts]
  exact ⟨trivial, trivial⟩

/-! ### The string token as a lexeme -/

theorem partsSrc_append (a b : List PartSrc) : partsSrc (a ++ b) = partsSrc a ++ partsSrc b := by
  induction a with
  | nil => rfl
  | cons q r ih => simp [partsSrc, ih]

/-- `nextToken` (erased) on a literal with parts `ps`: one `STRING` token, the joined texts. -/
theorem nextE_string (ps : List PartSrc) (hne : ps ≠ []) (hok : PartsOK ps) (tail : List Char)
    (hw : ∀ x ∈ tail.head?, isWs x = false) (hq : ch tail ≠ '"') :
    nextE (partsSrc ps ++ tail) =
      ([(.STRING, String.ofList (joinParts (ps.map (·.txt))))], tail, false) := by
  obtain ⟨h1, h2⟩ := strLit_parts ps hok tail hw hq
  cases ps with
  | nil => exact absurd rfl hne
  | cons q r =>
    have hn : nextE (partsSrc (q :: r) ++ tail) = strE (partsSrc (q :: r) ++ tail) := by
      simp only [partsSrc, List.cons_append]
      rw [nextE_stop _ _ (by decide) (by simp [isCommentStart, ch])]
      simp [tokenAtE]
    rw [hn, strE, h1, h2]

theorem mem_takeWhile_true (P : Char → Bool) (l : List Char) : ∀ x ∈ l.takeWhile P, P x = true := by
  induction l with
  | nil => simp
  | cons c r ih =>
    rw [List.takeWhile_cons]
    split
    · next h =>
      intro x hx
      rcases List.mem_cons.1 hx with rfl | hx
      · exact h
      · exact ih x hx
    · simp

theorem dropWhile_isWs_head (l : List Char) : ∀ x ∈ (l.dropWhile isWs).head?, isWs x = false := by
  induction l with
  | nil => simp
  | cons c r ih =>
    rw [List.dropWhile_cons]
    split
    · exact ih
    · next h => intro x hx; simp at hx; subst hx; simpa using h

/-- `needsSep` for string literals: what follows, after its leading whitespace, must not be a
quote (it would be read as a further part of the same literal). -/
def okStr (tail : List Char) : Prop := ch (tail.dropWhile isWs) ≠ '"'

/-- **String literals** (all parts together are one lexeme): parts `ps` with their separating
whitespace, then a last part `"src"`.  The call also consumes the whitespace that follows. -/
theorem lexemeAt_string (ps : List PartSrc) (hok : PartsOK ps) (src txt : List Char)
    (hp : Part src txt) :
    LexemeAt okStr (partsSrc ps ++ '"' :: (src ++ ['"']))
      [(.STRING, String.ofList (joinParts (ps.map (·.txt) ++ [txt])))] := by
  refine ⟨by simp, fun tail ht => ⟨tail.dropWhile isWs, ?_, ?_⟩⟩
  · have hsrc : (partsSrc ps ++ '"' :: (src ++ ['"'])) ++ tail =
        partsSrc (ps ++ [⟨src, txt, tail.takeWhile isWs⟩]) ++ tail.dropWhile isWs := by
      rw [partsSrc_append]
      simp only [partsSrc, List.append_nil, List.append_assoc, List.cons_append, List.nil_append,
        List.takeWhile_append_dropWhile]
    have hok' : PartsOK (ps ++ [⟨src, txt, tail.takeWhile isWs⟩]) := by
      intro q hq
      rcases List.mem_append.1 hq with hq | hq
      · exact hok q hq
      · simp only [List.mem_singleton] at hq
        subst hq
        exact ⟨hp, mem_takeWhile_true isWs tail⟩
    rw [hsrc, nextE_string _ (by simp) hok' _ (dropWhile_isWs_head tail) ht]
    simp
  · have := skipWhitespace_skips tail default
    rw [skipWhitespace_inp] at this
    exact this

theorem partsSrc_quote (ps : List PartSrc) (hne : ps ≠ []) (tail : List Char) :
    ∃ r, partsSrc ps ++ tail = '"' :: r := by
  cases ps with
  | nil => exact absurd rfl hne
  | cons q r => exact ⟨q.src ++ '"' :: (q.ws ++ partsSrc r) ++ tail, rfl⟩

/-- **String type + literal** `name"…"` (no separator between them): one call, two tokens. -/
theorem lexemeAt_stringtype (c : Char) (cs : List Char) (hl : isLetter c = true)
    (hcs : ∀ x ∈ cs, identP x = true) (ps : List PartSrc) (hok : PartsOK ps) (src txt : List Char)
    (hp : Part src txt) :
    LexemeAt okStr ((c :: cs) ++ (partsSrc ps ++ '"' :: (src ++ ['"'])))
      [(.STRINGTYPE, String.ofList (c :: cs)),
        (.STRING, String.ofList (joinParts (ps.map (·.txt) ++ [txt])))] := by
  refine ⟨by simp, fun tail ht => ⟨tail.dropWhile isWs, ?_, ?_⟩⟩
  · have hsrc : ((c :: cs) ++ (partsSrc ps ++ '"' :: (src ++ ['"']))) ++ tail =
        c :: (cs ++ (partsSrc (ps ++ [⟨src, txt, tail.takeWhile isWs⟩]) ++ tail.dropWhile isWs)) := by
      rw [partsSrc_append]
      simp only [partsSrc, List.append_nil, List.append_assoc, List.cons_append, List.nil_append,
        List.takeWhile_append_dropWhile]
    have hok' : PartsOK (ps ++ [⟨src, txt, tail.takeWhile isWs⟩]) := by
      intro q hq
      rcases List.mem_append.1 hq with hq | hq
      · exact hok q hq
      · simp only [List.mem_singleton] at hq
        subst hq
        exact ⟨hp, mem_takeWhile_true isWs tail⟩
    obtain ⟨h1, h2⟩ := strLit_parts _ hok' _ (dropWhile_isWs_head tail) ht
    obtain ⟨r, hr⟩ := partsSrc_quote (ps ++ [⟨src, txt, tail.takeWhile isWs⟩]) (by simp)
      (tail.dropWhile isWs)
    have hq : ∀ x ∈ (partsSrc (ps ++ [⟨src, txt, tail.takeWhile isWs⟩]) ++ tail.dropWhile isWs).head?,
        identP x = false := by
      rw [hr]
      intro x hx
      simp at hx
      subst hx
      simp [identP, special_not_letter' '"' (by decide), special_not_digit '"' (by decide)]
    have hch : (ch (partsSrc (ps ++ [⟨src, txt, tail.takeWhile isWs⟩]) ++ tail.dropWhile isWs) == '"') = true := by
      rw [hr]; rfl
    rw [hsrc, nextE_letter _ _ hl]
    simp only [identE, List.tail_cons, takeWhile_app_stop identP cs _ hcs hq,
      dropWhile_app_stop identP cs _ hcs hq, hch, if_true, h1, h2]
    simp
  · have := skipWhitespace_skips tail default
    rw [skipWhitespace_inp] at this
    exact this

end Pory.LexString
