import PoryProofs.ProgramIndep
/-
P2c helpers, part 1 (C12 for whole files): the file elaboration of a file and of the same file with every
statement-level poryswitch of every script body replaced by its selected case.

* `selTop` / `selectTops env` — the hand-selected file (C12c's `selectB` in every script body).
* `ContLastTops` — C12c's side condition (`ContLast`) for every script body of a file.
* `SelInv R a b` — the invariant between the state `a` of the original run and the state `b` of the run on the
  selected file: the same constants, dedupe tables, label counters, hoisted texts / movements, text statements;
  the counters of `b` are behind those of `a` (the ids the unselected cases consumed); `R` is ONE
  order-preserving correspondence of command ids and of scope ids for the whole file (ids are not reset between
  scripts), under which the two patch lists correspond.
* `stepTop_sel`, `elabTops_sel` — one statement / a whole file.
* `post_sel` — the post-passes of `ParseProgram` and the emitter give the same result (error or sections).
-/
namespace Pory.P2c
open Pory Pory.Parser Pory.C02P Pory.StmtG Pory.TopParse Pory.Emit Pory.P2
open Pory.C12c

/-! ### the selected file -/

/-- One top-level statement with every statement-level poryswitch of a script body replaced (recursively) by
the statements of its selected case (`C12c.selectB`; a body that has a poryswitch without selected case — then
the file does not parse — is left as it is). -/
def selTop (env : Env) : STop → STop
  | .script kw md name lb body rb => .script kw md name lb ((selectB env body).getD body) rb
  | t => t

/-- **The hand-selected file.** -/
def selectTops (env : Env) (ts : List STop) : List STop := ts.map (selTop env)

/-- C12c's side condition for the body of a script. -/
def ContLastTop : STop → Prop
  | .script _ _ _ _ body _ => ContLast body
  | _ => True

instance : DecidablePred ContLastTop := fun t => by cases t <;> unfold ContLastTop <;> exact inferInstance

/-- Every `continue` of every script body of the file is directly followed by a `}`. -/
def ContLastTops (ts : List STop) : Prop := ∀ t ∈ ts, ContLastTop t

instance (ts : List STop) : Decidable (ContLastTops ts) := by unfold ContLastTops; exact inferInstance

/-! ### the invariant -/

structure SelInv (R : Ren) (a b : PState) : Prop where
  consts : b.constants = a.constants
  ba : a.breakStack = []
  ca : a.continueStack = []
  bb : b.breakStack = []
  cb : b.continueStack = []
  inv : R.Inv ⟨b.nextSid, b.nextCmdId, a.nextSid, a.nextCmdId⟩
  hoist : Hoist domAll a b
  texts : b.inlineTexts = a.inlineTexts
  moves : b.inlineMovements = a.inlineMovements
  stmts : b.textStatements = a.textStatements
  patches : All2 (relPatch R) b.patches a.patches

theorem relPatch_mono {R Q : Ren} (h : R.Sub Q) {l' l : List ((Nat × Nat) × String)}
    (hp : All2 (relPatch R) l' l) : All2 (relPatch Q) l' l :=
  All2.imp (fun _ _ hp => ⟨h.1 _ _ hp.1, hp.2⟩) hp

/-- The empty correspondence (no ids handed out yet). -/
def renEmpty : Ren := { c := fun _ _ => False, s := fun _ _ => False }

theorem renEmpty_inv : renEmpty.Inv ⟨0, 0, 0, 0⟩ :=
  ⟨fun _ _ _ _ h => h.elim, fun _ _ _ _ h => h.elim, fun _ _ h => h.elim, fun _ _ h => h.elim,
    fun _ hn => absurd hn (Nat.not_lt_zero _), fun _ hn => absurd hn (Nat.not_lt_zero _)⟩

theorem selInv_init (eofT : Tok) : SelInv renEmpty (initState eofT) (initState eofT) :=
  ⟨rfl, rfl, rfl, rfl, rfl, renEmpty_inv,
    ⟨fun _ _ => rfl, fun _ _ => rfl, fun _ _ => rfl, fun _ _ => rfl⟩, rfl, rfl, rfl, trivial⟩

theorem impUses_all (imp : ImpData) : ImpUses domAll imp :=
  ⟨fun _ _ => ⟨trivial, trivial⟩, fun _ _ => ⟨trivial, trivial⟩⟩

/-! ### one statement -/

theorem all2_relTop_one {R : Ren} {t' t : Top} (h : RelTop R t' t) :
    All2 (RelTop R) (optTop (some t')) (optTop (some t)) := ⟨h, trivial⟩

theorem stepTop_sel (env : Env) (t : STop) {R : Ren} {a b : PState} (h : SelInv R a b) (o : Option Top)
    (a1 : PState) (ha : stepTop env t a = .ok (o, a1)) (hcl : ContLastTop (selTop env t)) :
    ∃ o' b1 R1, stepTop env (selTop env t) b = .ok (o', b1) ∧ R.Sub R1 ∧ SelInv R1 a1 b1 ∧
      All2 (RelTop R1) (optTop o') (optTop o) := by
  cases t with
  | script kw md name lb body rb =>
    simp only [stepTop] at ha
    cases he : elabE env name.lit (ctxOf a) body with
    | error e => rw [he] at ha; cases ha
    | ok q =>
      obtain ⟨stmts, imp, c1⟩ := q
      rw [he] at ha
      simp only [Except.ok.injEq, Prod.mk.injEq] at ha
      obtain ⟨rfl, rfl⟩ := ha
      unfold elabE at he
      simp only [ctxOf, h.ba, h.ca] at he
      cases hl : elabL env name.lit (substC a.constants) [] [] true body a.nextSid a.nextCmdId with
      | error e => rw [hl] at he; cases he
      | ok q2 =>
        obtain ⟨x, m, s1, k1⟩ := q2
        rw [hl] at he
        simp only [Except.ok.injEq, Prod.mk.injEq] at he
        obtain ⟨rfl, rfl, rfl⟩ := he
        obtain ⟨_, _, bs, hsel, hg⟩ := selL_ok env name.lit (substC a.constants) body _ _ _ _ _ _ _ _ _ hl
        have hsb : selectB env body = some bs := hsel
        have hst : selTop env (.script kw md name lb body rb) = .script kw md name lb bs rb := by
          simp only [selTop, hsb, Option.getD_some]
        rw [hst] at hcl ⊢
        obtain ⟨x', m', s1', k1', R1, e, le, inv1, ra, rm⟩ :=
          hg true hcl [] [] b.nextSid b.nextCmdId R h.inv trivial trivial
        simp only at e
        have hH0 : Hoist domAll { a with nextSid := s1, nextCmdId := k1 }
            { b with nextSid := s1', nextCmdId := k1' } :=
          ⟨h.hoist.ts, h.hoist.tc, h.hoist.ms, h.hoist.mc⟩
        obtain ⟨hH1, hD1⟩ := addImp_frame (R := R1) hH0 rm (impUses_all m)
        have heb : elabE env name.lit (ctxOf b) bs =
            .ok (x', m', { ctxOf b with nextSid := s1', nextCmdId := k1' }) := by
          unfold elabE
          simp only [ctxOf, h.bb, h.cb, h.consts, e]
        simp only [stepTop, heb]
        refine ⟨_, _, R1, rfl, le.sub, ?_, all2_relTop_one (.script rfl rfl rfl ra)⟩
        obtain ⟨⟨Δt, ta, tb⟩, ⟨Δm, ma, mb⟩, ⟨Δs, sa, sb⟩, ⟨Δ, Δ', pa, pb, pr⟩⟩ := hD1
        unfold afterScript
        simp only at ta tb ma mb sa sb pa pb ⊢
        refine ⟨?_, ?_, ?_, ?_, ?_, ?_, hH1, ?_, ?_, ?_, ?_⟩
        · rw [addImp_constants, addImp_constants]; exact h.consts
        · rw [addImp_breakStack]; exact h.ba
        · rw [addImp_continueStack]; exact h.ca
        · rw [addImp_breakStack]; exact h.bb
        · rw [addImp_continueStack]; exact h.cb
        · rw [addImp_nextSid, addImp_nextSid, addImp_nextCmdId, addImp_nextCmdId]; exact inv1
        · rw [ta, tb, h.texts]
        · rw [ma, mb, h.moves]
        · rw [sa, sb, h.stmts]
        · rw [pa, pb]; exact All2.append (relPatch_mono le.sub h.patches) pr
  | raw kw v =>
    simp only [stepTop, Except.ok.injEq, Prod.mk.injEq] at ha
    obtain ⟨rfl, rfl⟩ := ha
    exact ⟨_, _, R, rfl, Ren.Sub.refl R, h, all2_relTop_one (.same _ rfl)⟩
  | const kw name eq vs =>
    simp only [stepTop] at ha
    simp only [selTop, stepTop, h.consts]
    by_cases hdup : (a.constants.lookup name.lit).isSome = true
    · simp only [hdup, if_true] at ha; cases ha
    · simp only [hdup, Bool.false_eq_true, if_false] at ha ⊢
      by_cases hval : constAcc a.constants vs "" = ""
      · simp only [hval, if_true] at ha; cases ha
      · simp only [hval, if_false, Except.ok.injEq, Prod.mk.injEq] at ha ⊢
        obtain ⟨rfl, rfl⟩ := ha
        refine ⟨_, _, R, ⟨rfl, rfl⟩, Ren.Sub.refl R, ?_, trivial⟩
        exact ⟨rfl, h.ba, h.ca, h.bb, h.cb, h.inv,
          ⟨h.hoist.ts, h.hoist.tc, h.hoist.ms, h.hoist.mc⟩, h.texts, h.moves, h.stmts, h.patches⟩
  | movement kw md name lb items rb =>
    simp only [stepTop, Except.ok.injEq, Prod.mk.injEq] at ha
    obtain ⟨rfl, rfl⟩ := ha
    exact ⟨_, _, R, rfl, Ren.Sub.refl R, h, all2_relTop_one (.same _ rfl)⟩
  | mart kw md name lb items rb =>
    simp only [stepTop, Except.ok.injEq, Prod.mk.injEq] at ha
    obtain ⟨rfl, rfl⟩ := ha
    refine ⟨_, _, R, rfl, Ren.Sub.refl R, h, ?_⟩
    simp only [h.consts]
    exact all2_relTop_one (.same _ rfl)
  | text kw md name lb v rb =>
    simp only [stepTop, Except.ok.injEq, Prod.mk.injEq] at ha
    obtain ⟨rfl, rfl⟩ := ha
    refine ⟨_, _, R, rfl, Ren.Sub.refl R, ?_, all2_relTop_one (.same _ rfl)⟩
    exact ⟨h.consts, h.ba, h.ca, h.bb, h.cb, h.inv,
      ⟨h.hoist.ts, h.hoist.tc, h.hoist.ms, h.hoist.mc⟩, h.texts, h.moves, by simp only [h.stmts], h.patches⟩

/-! ### a whole file -/

theorem elabTops_sel (env : Env) : ∀ (ts : List STop) {R : Ren} {a b : PState}, SelInv R a b →
    ∀ (tops : List Top) (a1 : PState), elabTops env ts a = .ok (tops, a1) →
    ContLastTops (selectTops env ts) →
    ∃ tops' b1 R1, elabTops env (selectTops env ts) b = .ok (tops', b1) ∧ R.Sub R1 ∧ SelInv R1 a1 b1 ∧
      All2 (RelTop R1) tops' tops
  | [], R, a, b, h, tops, a1, ha, _ => by
    simp only [elabTops, Except.ok.injEq, Prod.mk.injEq] at ha
    obtain ⟨rfl, rfl⟩ := ha
    exact ⟨[], b, R, rfl, Ren.Sub.refl R, h, trivial⟩
  | t :: r, R, a, b, h, tops, a1, ha, hcl => by
    simp only [elabTops] at ha
    cases h1 : stepTop env t a with
    | error e => rw [h1] at ha; cases ha
    | ok q =>
      obtain ⟨o, a2⟩ := q
      rw [h1] at ha
      simp only at ha
      cases h2 : elabTops env r a2 with
      | error e => rw [h2] at ha; cases ha
      | ok q2 =>
        obtain ⟨tops2, a3⟩ := q2
        rw [h2] at ha
        simp only [Except.ok.injEq, Prod.mk.injEq] at ha
        obtain ⟨rfl, rfl⟩ := ha
        have hcl1 : ContLastTop (selTop env t) := hcl _ (by simp [selectTops])
        have hcl2 : ContLastTops (selectTops env r) := fun x hx => hcl x (by
          simp only [selectTops, List.map_cons, List.mem_cons]; exact .inr hx)
        obtain ⟨o', b2, R1, e1, sub1, inv1, rel1⟩ := stepTop_sel env t h o a2 h1 hcl1
        obtain ⟨tops2', b3, R2, e2, sub2, inv2, rel2⟩ := elabTops_sel env r inv1 tops2 a3 h2 hcl2
        refine ⟨optTop o' ++ tops2', b3, R2, ?_, sub1.trans sub2, inv2,
          All2.append (All2.imp (fun _ _ hh => hh.mono sub2) rel1) rel2⟩
        simp only [selectTops, List.map_cons, elabTops] at e2 ⊢
        simp only [e1, e2]

/-! ### post-passes and emitter -/

/-- What `compileFile` does after the file elaboration. -/
def post (o : Opts) (tops : List Top) (s : PState) : Except CErr Sections :=
  match finish tops s with
  | .error e => .error (.parse e)
  | .ok _ =>
    match sectionsOf o tops s with
    | .error e => .error (.emit e)
    | .ok S => .ok S

theorem compileFile_post (env : Env) (o : Opts) (eofT : Tok) (ts : List STop) :
    compileFile env o eofT ts =
      match elabTops env ts (initState eofT) with
      | .error e => .error (.parse e)
      | .ok (tops, s) => post o tops s := by
  unfold compileFile post
  cases elabTops env ts (initState eofT) with
  | error e => rfl
  | ok q => rfl

theorem firstDuplicateMovement_rel {R : Ren} (x : List Top) : ∀ {tops' tops : List Top},
    All2 (RelTop R) tops' tops → ∀ seen,
    firstDuplicateMovement (tops' ++ x) seen = firstDuplicateMovement (tops ++ x) seen
  | [], [], _, _ => rfl
  | t' :: r', t :: r, h, seen => by
    have ih := firstDuplicateMovement_rel x h.2
    have h1 := h.1
    cases h1 with
    | script => simp only [List.cons_append, firstDuplicateMovement, ih]
    | same _ ht =>
      cases t' with
      | movement m =>
        simp only [List.cons_append, firstDuplicateMovement]
        cases seen.lookup m.name with
        | some tk => rfl
        | none => exact ih _
      | script s => simp [Top.plain] at ht
      | mapscripts s => simp [Top.plain] at ht
      | raw => simp only [List.cons_append, firstDuplicateMovement, ih]
      | mart => simp only [List.cons_append, firstDuplicateMovement, ih]
      | text => simp only [List.cons_append, firstDuplicateMovement, ih]
  | [], _ :: _, h, _ => h.elim
  | _ :: _, [], h, _ => h.elim

/-- The post-passes and the emitter do not see the renumbering. -/
theorem post_sel (o : Opts) {R : Ren} {a b : PState} (h : SelInv R a b) {tops' tops : List Top}
    (hr : All2 (RelTop R) tops' tops) : post o tops' b = post o tops a := by
  have hsec : sectionsOf o tops' b = sectionsOf o tops a := by
    unfold sectionsOf
    have htn : textNames b = textNames a := by unfold textNames; rw [h.texts, h.stmts]
    rw [topBlocks_frame o h.inv.sm (fun c' c hc => patchedArgs_rel h.inv.cm h.patches hc) hr
      (fun n _ => by rw [htn]), h.texts, h.moves, h.stmts]
  unfold post finish
  rw [hsec, h.texts, h.stmts, h.moves, firstDuplicateMovement_rel _ hr]
  cases firstDuplicateText (a.inlineTexts ++ a.textStatements) [] with
  | some t => rfl
  | none =>
    simp only
    cases firstDuplicateMovement (tops ++ a.inlineMovements.map Top.movement) [] with
    | some q => rfl
    | none => rfl

end Pory.P2c
