import PoryProofs.BoolParse
import PoryProofs.CmdParseImp
/-
Helpers for P1b: the condition grammar `||` / `&&` / `!( )` / parentheses over an ARBITRARY leaf type,
with implicit data and errors.

`PoryProofs/BoolParse.lean` (leaves `C02P.Leaf`) and `PoryProofs/BoolParseAuto.lean` (leaves `C02Q.ALeaf`)
prove parse ∘ print for well-formed, accepted expressions whose leaves carry no implicit data.  Here the same
continuation-passing induction is done once and for all, in equational form, for every leaf type `L` that
comes with
  `print : L → List Tok`, `wf : L → Bool`, `need : L → Nat` (fuel of the leaf parser),
  `res σ id lf : Except PFail (OpExpr × ImpData × Nat)` — what `parseLeafBooleanExpression` must return for the
      leaf when the constants are `σ` and the next command id is `id`: the `OpExpr`, the implicit data of the
      leaf, the next command id afterwards — or the located error,
and two facts (`LeafShape`, `LeafRun`): a printed leaf does not start with `(` / `! (`, and the leaf parser run
on a printed leaf returns `res`.

* `GOr L` / `GAnd L` / `GUn L`, `printOr …`, `needOr …`;
* `elabOr res σ neg g id : Except PFail (BoolExpr × ImpData × Nat)` — the reference elaboration: the tree of
  `C02P.treeOr` (left-folded `&&` chains, `||` to the right, `negated` distributed by De Morgan), command ids
  handed out left to right in source order, the implicit data of the leaves concatenated in source order; the
  error of the FIRST failing leaf in source order;
* `orF` : `parseBooleanExpression env sn false neg fuel` on `pre :: printOr g ++ c :: tail` (`c` a `)`)
  returns exactly `elabOr …`: `.ok ((tree, imp), window c :: tail, next command id)` or the error;
* `needOr_le` : the fuel need is ≤ 2 · tokens + 1.
-/
namespace Pory.BoolGen
set_option linter.unusedSectionVars false
open Pory Pory.Parser Pory.C02P
open Pory.C10c (add_assoc nil_add add_nil)

/-- `s` with the command id counter set to `j`. -/
def setJ (j : Nat) (s : PState) : PState := { s with nextCmdId := j }

theorem setJ_toks (j : Nat) (s : PState) : (setJ j s).toks = s.toks := rfl
theorem setJ_eof (j : Nat) (s : PState) : (setJ j s).eof = s.eof := rfl
theorem setJ_constants (j : Nat) (s : PState) : (setJ j s).constants = s.constants := rfl
theorem setJ_nextCmdId (j : Nat) (s : PState) : (setJ j s).nextCmdId = j := rfl
theorem setJ_setJ (a b : Nat) (s : PState) : setJ b (setJ a s) = setJ b s := rfl
theorem setJ_self (s : PState) : setJ s.nextCmdId s = s := rfl
theorem st_setJ (j : Nat) (s : PState) (l : List Tok) : st (setJ j s) l = setJ j (st s l) := rfl

/-- Prefix the implicit data of a result. -/
def addImp (m : ImpData) :
    Except PFail ((BoolExpr × ImpData) × PState) → Except PFail ((BoolExpr × ImpData) × PState)
  | .ok ((t, m'), s) => .ok ((t, m.add m'), s)
  | .error e => .error e

theorem addImp_addImp (m m' : ImpData) (X : Except PFail ((BoolExpr × ImpData) × PState)) :
    addImp m (addImp m' X) = addImp (m.add m') X := by
  cases X with
  | error e => rfl
  | ok r => obtain ⟨⟨t, m''⟩, s⟩ := r; simp [addImp, add_assoc]

theorem map_addImp (m : ImpData) (X : Except PFail ((BoolExpr × ImpData) × PState)) :
    (fun p => ((p.fst.fst, m.add p.fst.snd), p.snd)) <$> X = addImp m X := by
  cases X with
  | error e => rfl
  | ok r => rfl

/-! ### one-step lemmas, in equational form (errors included) -/
section
variable (env : Env) (sn : String)

theorem pr_and_g (left : BoolExpr) (single neg : Bool) (f : Nat) (s : PState) (a : Tok) (tl : List Tok)
    (ha : a.type = .AND) :
    (parseRightSideExpression env sn left single neg (f + 1)).run (st s (a :: tl)) =
      match (parseBooleanExpression env sn true neg f).run (st s (a :: tl)) with
      | .error e => .error e
      | .ok ((r, m), s1) =>
        addImp m ((parseRightSideExpression env sn (.bin left (andOp neg) r) single neg f).run s1) := by
  rw [parseRightSideExpression]
  simp only [StateT.run_bind, run_cur, ex_bind_ok, st_toks, List.headD_cons, ha, beq_self_eq_true, if_true]
  generalize (parseBooleanExpression env sn true neg f).run (st s (a :: tl)) = X
  cases X with
  | error e => rfl
  | ok r =>
    obtain ⟨⟨r, m⟩, s1⟩ := r
    simp only [ex_bind_ok]
    have hop : (if neg = true then getNegatedBooleanOperator TT.AND else TT.AND) = andOp neg := by
      cases neg <;> simp [andOp, C02.negation_swaps_connectives.1]
    rw [hop]
    generalize (parseRightSideExpression env sn (.bin left (andOp neg) r) single neg f).run s1 = Y
    cases Y with
    | error e => rfl
    | ok q => obtain ⟨⟨t, m'⟩, s2⟩ := q; rfl

theorem pr_or_g (left : BoolExpr) (single neg : Bool) (f : Nat) (s : PState) (a : Tok) (tl : List Tok)
    (ha : a.type = .OR) :
    (parseRightSideExpression env sn left single neg (f + 1)).run (st s (a :: tl)) =
      match (parseBooleanExpression env sn false neg f).run (st s (a :: tl)) with
      | .error e => .error e
      | .ok ((r, m), s1) => .ok ((.bin left (orOp neg) r, m), s1) := by
  rw [parseRightSideExpression]
  have h1 : (TT.OR == TT.AND) = false := by decide
  simp only [StateT.run_bind, run_cur, ex_bind_ok, st_toks, List.headD_cons, ha, h1, beq_self_eq_true, if_true,
    Bool.false_eq_true, if_false]
  generalize (parseBooleanExpression env sn false neg f).run (st s (a :: tl)) = X
  cases X with
  | error e => rfl
  | ok r =>
    obtain ⟨⟨r, m⟩, s1⟩ := r
    have hop : (if neg = true then getNegatedBooleanOperator TT.OR else TT.OR) = orOp neg := by
      cases neg <;> simp [orOp, C02.negation_swaps_connectives.2]
    simp only [ex_bind_ok, hop]
    rfl

/-- A leaf at the start of an expression, `single` (right operand of `&&`). -/
theorem pb_leaf_single_g (neg : Bool) (f : Nat) (s : PState) (pre a b : Tok) (tl : List Tok)
    (ha : a.type ≠ .LPAREN) (hb : a.type = .NOT → b.type ≠ .LPAREN) :
    (parseBooleanExpression env sn true neg (f + 1)).run (st s (pre :: a :: b :: tl)) =
      match (parseLeafBooleanExpression env sn f).run (st s (pre :: a :: b :: tl)) with
      | .error e => .error e
      | .ok ((e, m), s1) => .ok ((.leaf (negLeaf neg e), m), s1) := by
  rw [parseBooleanExpression]
  have h1 : (a.type == TT.LPAREN) = false := beq_eq_false_iff_ne.mpr ha
  have h2 : (a.type == TT.NOT && b.type == TT.LPAREN) = false := by
    by_cases hn : a.type = .NOT
    · simp [hn, hb hn]
    · simp [hn]
  simp only [StateT.run_bind, run_peekIs, run_peek2Is, ex_bind_ok, st_toks, getD_one, getD_two, h1, h2,
    Bool.or_self, Bool.false_eq_true, if_false]
  generalize (parseLeafBooleanExpression env sn f).run (st s (pre :: a :: b :: tl)) = X
  cases X with
  | error e => rfl
  | ok r =>
    obtain ⟨⟨e, m⟩, s1⟩ := r
    cases neg <;> simp [negLeaf]

/-- A leaf at the start of an expression, followed by the operator chain. -/
theorem pb_leaf_multi_g (neg : Bool) (f : Nat) (s : PState) (pre a b : Tok) (tl : List Tok)
    (ha : a.type ≠ .LPAREN) (hb : a.type = .NOT → b.type ≠ .LPAREN) :
    (parseBooleanExpression env sn false neg (f + 1)).run (st s (pre :: a :: b :: tl)) =
      match (parseLeafBooleanExpression env sn f).run (st s (pre :: a :: b :: tl)) with
      | .error e => .error e
      | .ok ((e, m), s1) =>
        addImp m ((parseRightSideExpression env sn (.leaf (negLeaf neg e)) false neg f).run s1) := by
  rw [parseBooleanExpression]
  have h1 : (a.type == TT.LPAREN) = false := beq_eq_false_iff_ne.mpr ha
  have h2 : (a.type == TT.NOT && b.type == TT.LPAREN) = false := by
    by_cases hn : a.type = .NOT
    · simp [hn, hb hn]
    · simp [hn]
  simp only [StateT.run_bind, run_peekIs, run_peek2Is, ex_bind_ok, st_toks, getD_one, getD_two, h1, h2,
    Bool.or_self, Bool.false_eq_true, if_false]
  generalize (parseLeafBooleanExpression env sn f).run (st s (pre :: a :: b :: tl)) = X
  cases X with
  | error e => rfl
  | ok r =>
    obtain ⟨⟨e, m⟩, s1⟩ := r
    have hl : (if neg = true then { e with operator := getNegatedBooleanOperator e.operator } else e) =
        negLeaf neg e := by cases neg <;> rfl
    simp only [ex_bind_ok, hl]
    generalize (parseRightSideExpression env sn (.leaf (negLeaf neg e)) false neg f).run s1 = Y
    cases Y with
    | error e => rfl
    | ok q => obtain ⟨⟨t, m'⟩, s2⟩ := q; rfl

/-- The tokens `[!] (` that open a nested expression. -/
def openToks (n : Bool) (nt lp : Tok) : List Tok := (if n then [nt] else []) ++ [lp]

/-- `( … )` / `!( … )`: the inner expression fails. -/
theorem pb_paren_err (single neg n : Bool) (f : Nat) (s : PState) (pre nt lp : Tok) (inner : List Tok)
    (e : PFail) (hnt : nt.type = .NOT) (hlp : lp.type = .LPAREN)
    (hin : (parseBooleanExpression env sn false (neg != n) f).run (st s (lp :: inner)) = .error e) :
    (parseBooleanExpression env sn single neg (f + 1)).run
        (st s (pre :: ((if n then [nt] else []) ++ lp :: inner))) = .error e := by
  rw [parseBooleanExpression]
  cases n <;> cases neg <;> simp [hnt, hlp] at hin ⊢ <;> simp [hin]

/-- `( … )` / `!( … )` as the right operand of `&&`. -/
theorem pb_paren_single_g (neg n : Bool) (f : Nat) (s s' : PState) (pre nt lp c : Tok)
    (inner rest : List Tok) (t : BoolExpr) (m : ImpData) (hnt : nt.type = .NOT) (hlp : lp.type = .LPAREN)
    (hin : (parseBooleanExpression env sn false (neg != n) f).run (st s (lp :: inner)) =
      .ok ((t, m), st s' (c :: rest)))
    (hc : c.type = .RPAREN) :
    (parseBooleanExpression env sn true neg (f + 1)).run
        (st s (pre :: ((if n then [nt] else []) ++ lp :: inner))) =
      .ok ((t, m), st s' rest) := by
  rw [parseBooleanExpression]
  cases n <;> cases neg <;> simp [hnt, hlp] at hin ⊢ <;> simp [hin, hc]

/-- `( … )` / `!( … )` at the start of an expression, followed by the operator chain. -/
theorem pb_paren_multi_g (neg n : Bool) (f : Nat) (s s' : PState) (pre nt lp c : Tok)
    (inner rest : List Tok) (t : BoolExpr) (m : ImpData) (hnt : nt.type = .NOT) (hlp : lp.type = .LPAREN)
    (hin : (parseBooleanExpression env sn false (neg != n) (f + 1)).run (st s (lp :: inner)) =
      .ok ((t, m), st s' (c :: rest)))
    (hc : c.type = .RPAREN) (hfo : Follow rest) :
    (parseBooleanExpression env sn false neg (f + 2)).run
        (st s (pre :: ((if n then [nt] else []) ++ lp :: inner))) =
      addImp m ((parseRightSideExpression env sn t false neg (f + 1)).run (st s' rest)) := by
  obtain ⟨x, tl, rfl, hx⟩ := hfo
  rw [parseBooleanExpression]
  rcases hx with hx | hx | hx
  · cases n <;> cases neg <;> simp [hnt, hlp] at hin ⊢ <;> simp [hin, hc, hx, map_addImp]
  · cases n <;> cases neg <;> simp [hnt, hlp] at hin ⊢ <;> simp [hin, hc, hx, map_addImp]
  · rw [pr_stop env sn t false neg f s' x tl (by simp [hx]) (by simp [hx])]
    cases n <;> cases neg <;> simp [hnt, hlp] at hin ⊢ <;> simp [hin, hc, hx, addImp, add_nil]

end

/-! ### the grammar over a leaf type -/
mutual
inductive GOr (L : Type) where
  | one (a : GAnd L)
  | more (a : GAnd L) (p : TPos) (r : GOr L)                 -- `a || r`, `p` = positions of `||`
inductive GAnd (L : Type) where
  | one (u : GUn L)
  | more (u : GUn L) (p : TPos) (r : GAnd L)                 -- `u && r`
inductive GUn (L : Type) where
  | leaf (lf : L)
  | paren (neg : Bool) (pn pl pr : TPos) (e : GOr L)         -- `(e)` / `!(e)`; positions of `!`, `(`, `)`
end

section
variable {L : Type} (print : L → List Tok) (wf : L → Bool) (need : L → Nat)

mutual
def printOr : GOr L → List Tok
  | .one a => printAnd a
  | .more a p r => printAnd a ++ tkp p .OR "||" :: printOr r
def printAnd : GAnd L → List Tok
  | .one u => printUn u
  | .more u p r => printUn u ++ tkp p .AND "&&" :: printAnd r
def printUn : GUn L → List Tok
  | .leaf lf => print lf
  | .paren neg pn pl pr e =>
      (if neg then [tkp pn .NOT "!"] else []) ++ tkp pl .LPAREN "(" :: (printOr e ++ [tkp pr .RPAREN ")"])
end

mutual
def wfOr : GOr L → Bool
  | .one a => wfAnd a
  | .more a _ r => wfAnd a && wfOr r
def wfAnd : GAnd L → Bool
  | .one u => wfUn u
  | .more u _ r => wfUn u && wfAnd r
def wfUn : GUn L → Bool
  | .leaf lf => wf lf
  | .paren _ _ _ _ e => wfOr e
end

/-- number of operands of an `&&` chain -/
def lenAnd : GAnd L → Nat
  | .one _ => 1
  | .more _ _ r => lenAnd r + 1

mutual
def needOr : GOr L → Nat
  | .one a => lenAnd a + sumAnd a + 1
  | .more a _ r => lenAnd a + sumAnd a + 1 + needOr r
/-- sum of the fuel needs of the operands -/
def sumAnd : GAnd L → Nat
  | .one u => needUn u
  | .more u _ r => needUn u + sumAnd r
def needUn : GUn L → Nat
  | .leaf lf => need lf + 1
  | .paren _ _ _ _ e => needOr e + 1
end

end

/-! ### reference elaboration -/
section
variable {L : Type} (res : (String → String) → Nat → L → Except PFail (OpExpr × ImpData × Nat))
  (σ : String → String)

mutual
def elabOr (neg : Bool) : GOr L → Nat → Except PFail (BoolExpr × ImpData × Nat)
  | .one a, id => elabAnd neg a id
  | .more a _ r, id =>
    match elabAnd neg a id with
    | .error e => .error e
    | .ok (ta, ma, j) =>
      match elabOr neg r j with
      | .error e => .error e
      | .ok (tr, mr, j') => .ok (.bin ta (orOp neg) tr, ma.add mr, j')
def elabAnd (neg : Bool) : GAnd L → Nat → Except PFail (BoolExpr × ImpData × Nat)
  | .one u, id => elabUn neg u id
  | .more u _ r, id =>
    match elabUn neg u id with
    | .error e => .error e
    | .ok (t, m, j) =>
      match elabAcc neg t r j with
      | .error e => .error e
      | .ok (t', m', j') => .ok (t', m.add m', j')
/-- `left && r`, folded to the left; the implicit data is that of `r` -/
def elabAcc (neg : Bool) : BoolExpr → GAnd L → Nat → Except PFail (BoolExpr × ImpData × Nat)
  | left, .one u, id =>
    match elabUn neg u id with
    | .error e => .error e
    | .ok (t, m, j) => .ok (.bin left (andOp neg) t, m, j)
  | left, .more u _ r, id =>
    match elabUn neg u id with
    | .error e => .error e
    | .ok (t, m, j) =>
      match elabAcc neg (.bin left (andOp neg) t) r j with
      | .error e => .error e
      | .ok (t', m', j') => .ok (t', m.add m', j')
def elabUn (neg : Bool) : GUn L → Nat → Except PFail (BoolExpr × ImpData × Nat)
  | .leaf lf, id =>
    match res σ id lf with
    | .error e => .error e
    | .ok (t, m, j) => .ok (.leaf (negLeaf neg t), m, j)
  | .paren n _ _ _ e, id => elabOr (neg != n) e id
end

end

/-- Result of a condition parser from the reference elaboration. -/
def outG (s : PState) (rest : List Tok) :
    Except PFail (BoolExpr × ImpData × Nat) → Except PFail ((BoolExpr × ImpData) × PState)
  | .ok (t, m, j) => .ok ((t, m), st (setJ j s) rest)
  | .error e => .error e

/-! ### the parser on printed expressions -/
section
variable (env : Env) (sn : String) {L : Type} (print : L → List Tok) (wf : L → Bool) (need : L → Nat)
  (res : (String → String) → Nat → L → Except PFail (OpExpr × ImpData × Nat))

/-- A printed leaf (followed by `&&`, `||` or `)`) starts with two tokens that are not `(` and not `! (`. -/
def LeafShape : Prop :=
  ∀ (lf : L) (rest : List Tok), wf lf = true → Follow rest →
    ∃ a b tl, print lf ++ rest = a :: b :: tl ∧ a.type ≠ .LPAREN ∧ (a.type = .NOT → b.type ≠ .LPAREN)

/-- The leaf parser on a printed leaf returns `res`. -/
def LeafRun : Prop :=
  ∀ (f : Nat) (s : PState) (pre : Tok) (lf : L) (rest : List Tok), wf lf = true → Follow rest → need lf ≤ f →
    (parseLeafBooleanExpression env sn f).run (st s (pre :: (print lf ++ rest))) =
      match res (substC s.constants) s.nextCmdId lf with
      | .error e => .error e
      | .ok (t, m, j) => .ok ((t, m), st (setJ j s) rest)

variable (hshape : LeafShape print wf) (hrun : LeafRun env sn print wf need res)
include hshape hrun

mutual
theorem unS (s : PState) (u : GUn L) (neg : Bool) (pre : Tok) (rest : List Tok) (f : Nat)
    (hw : wfUn wf u = true) (hf : needUn need u ≤ f) (hfo : Follow rest) :
    (parseBooleanExpression env sn true neg f).run (st s (pre :: (printUn print u ++ rest))) =
      outG s rest (elabUn res (substC s.constants) neg u s.nextCmdId) := by
  obtain ⟨f, rfl⟩ : ∃ f', f = f' + 1 := ⟨f - 1, by cases u <;> simp [needUn] at hf <;> omega⟩
  cases u with
  | leaf lf =>
    have hw' : wf lf = true := by simpa [wfUn] using hw
    obtain ⟨a, b, tl, hp, ha, hb⟩ := hshape lf rest hw' hfo
    have hl := hrun f s pre lf rest hw' hfo (by simp [needUn] at hf; omega)
    simp only [printUn, hp] at hl ⊢
    rw [pb_leaf_single_g env sn neg f s pre a b tl ha hb, hl]
    simp only [elabUn]
    cases res (substC s.constants) s.nextCmdId lf with
    | error e => rfl
    | ok r => obtain ⟨t, m, j⟩ := r; rfl
  | paren n pn pl pr e =>
    have hin := orF s e (neg != n) (tkp pl .LPAREN "(") (tkp pr .RPAREN ")") rest f
      (by simpa [wfUn] using hw) (by simp [needUn] at hf; omega) rfl
    have hw : printUn print (.paren n pn pl pr e) ++ rest =
        (if n then [tkp pn .NOT "!"] else []) ++ tkp pl .LPAREN "(" ::
          (printOr print e ++ tkp pr .RPAREN ")" :: rest) := by simp [printUn]
    rw [hw]
    simp only [elabUn]
    cases he : elabOr res (substC s.constants) (neg != n) e s.nextCmdId with
    | error err =>
      rw [he] at hin
      exact pb_paren_err env sn true neg n f s pre (tkp pn .NOT "!") _ _ err rfl rfl hin
    | ok r =>
      obtain ⟨t, m, j⟩ := r
      rw [he] at hin
      exact pb_paren_single_g env sn neg n f s (setJ j s) pre (tkp pn .NOT "!") _ _ _ rest t m rfl rfl hin rfl
theorem unF (s : PState) (u : GUn L) (neg : Bool) (pre : Tok) (rest : List Tok) (f : Nat)
    (hw : wfUn wf u = true) (hf : needUn need u ≤ f) (hfo : Follow rest) :
    (parseBooleanExpression env sn false neg (f + 1)).run (st s (pre :: (printUn print u ++ rest))) =
      match elabUn res (substC s.constants) neg u s.nextCmdId with
      | .error e => .error e
      | .ok (t, m, j) =>
        addImp m ((parseRightSideExpression env sn t false neg f).run (st (setJ j s) rest)) := by
  cases u with
  | leaf lf =>
    have hw' : wf lf = true := by simpa [wfUn] using hw
    obtain ⟨a, b, tl, hp, ha, hb⟩ := hshape lf rest hw' hfo
    have hl := hrun f s pre lf rest hw' hfo (by simp [needUn] at hf; omega)
    simp only [printUn, hp] at hl ⊢
    rw [pb_leaf_multi_g env sn neg f s pre a b tl ha hb, hl]
    simp only [elabUn]
    cases res (substC s.constants) s.nextCmdId lf with
    | error e => rfl
    | ok r => obtain ⟨t, m, j⟩ := r; rfl
  | paren n pn pl pr e =>
    obtain ⟨f, rfl⟩ : ∃ f', f = f' + 1 := ⟨f - 1, by simp [needUn] at hf; omega⟩
    have hin := orF s e (neg != n) (tkp pl .LPAREN "(") (tkp pr .RPAREN ")") rest (f + 1)
      (by simpa [wfUn] using hw) (by simp [needUn] at hf; omega) rfl
    have hw : printUn print (.paren n pn pl pr e) ++ rest =
        (if n then [tkp pn .NOT "!"] else []) ++ tkp pl .LPAREN "(" ::
          (printOr print e ++ tkp pr .RPAREN ")" :: rest) := by simp [printUn]
    rw [hw]
    simp only [elabUn]
    cases he : elabOr res (substC s.constants) (neg != n) e s.nextCmdId with
    | error err =>
      rw [he] at hin
      exact pb_paren_err env sn false neg n (f + 1) s pre (tkp pn .NOT "!") _ _ err rfl rfl hin
    | ok r =>
      obtain ⟨t, m, j⟩ := r
      rw [he] at hin
      exact pb_paren_multi_g env sn neg n f s (setJ j s) pre (tkp pn .NOT "!") _ _ _ rest t m rfl rfl hin rfl
        hfo
/-- the `&&`-chain `&& r` after an already parsed `left` -/
theorem andR (s : PState) (r : GAnd L) (p : TPos) (neg single : Bool) (left : BoolExpr) (rest : List Tok)
    (f : Nat) (hw : wfAnd wf r = true) (hf : sumAnd need r ≤ f) (hfo : Follow rest) :
    (parseRightSideExpression env sn left single neg (f + lenAnd r)).run
        (st s (tkp p .AND "&&" :: (printAnd print r ++ rest))) =
      match elabAcc res (substC s.constants) neg left r s.nextCmdId with
      | .error e => .error e
      | .ok (t, m, j) =>
        addImp m ((parseRightSideExpression env sn t single neg f).run (st (setJ j s) rest)) := by
  cases r with
  | one u =>
    have hu := unS s u neg (tkp p .AND "&&") rest f (by simpa [wfAnd] using hw)
      (by simpa [sumAnd] using hf) hfo
    show (parseRightSideExpression env sn left single neg (f + 1)).run _ = _
    simp only [printAnd]
    rw [pr_and_g env sn left single neg f s _ _ rfl, hu]
    simp only [elabAcc]
    cases elabUn res (substC s.constants) neg u s.nextCmdId with
    | error e => rfl
    | ok v => obtain ⟨t, m, j⟩ := v; rfl
  | more u p' r' =>
    have hw2 : wfUn wf u = true ∧ wfAnd wf r' = true := by simpa [wfAnd] using hw
    simp only [sumAnd] at hf
    have hu := unS s u neg (tkp p .AND "&&") (tkp p' .AND "&&" :: (printAnd print r' ++ rest))
      (f + lenAnd r') hw2.1 (by omega) (follow_and _ _)
    show (parseRightSideExpression env sn left single neg ((f + lenAnd r') + 1)).run _ = _
    simp only [printAnd, List.append_assoc, List.cons_append]
    rw [pr_and_g env sn left single neg _ s _ _ rfl, hu]
    simp only [elabAcc]
    cases elabUn res (substC s.constants) neg u s.nextCmdId with
    | error e => rfl
    | ok v =>
      obtain ⟨t, m, j⟩ := v
      simp only [outG]
      have ih := andR (setJ j s) r' p' neg single (.bin left (andOp neg) t) rest f hw2.2 (by omega) hfo
      rw [ih]
      simp only [setJ_constants, setJ_nextCmdId, setJ_setJ]
      cases elabAcc res (substC s.constants) neg (.bin left (andOp neg) t) r' j with
      | error e => rfl
      | ok w => obtain ⟨t', m', j'⟩ := w; simp only [addImp_addImp]
/-- a full `GAnd` at the start of an expression -/
theorem andF (s : PState) (a : GAnd L) (neg : Bool) (pre : Tok) (rest : List Tok) (f : Nat)
    (hw : wfAnd wf a = true) (hf : sumAnd need a ≤ f) (hfo : Follow rest) :
    (parseBooleanExpression env sn false neg (f + lenAnd a)).run
        (st s (pre :: (printAnd print a ++ rest))) =
      match elabAnd res (substC s.constants) neg a s.nextCmdId with
      | .error e => .error e
      | .ok (t, m, j) =>
        addImp m ((parseRightSideExpression env sn t false neg f).run (st (setJ j s) rest)) := by
  cases a with
  | one u =>
    simp only [printAnd, elabAnd]
    exact unF s u neg pre rest f (by simpa [wfAnd] using hw) (by simpa [sumAnd] using hf) hfo
  | more u p r =>
    have hw2 : wfUn wf u = true ∧ wfAnd wf r = true := by simpa [wfAnd] using hw
    simp only [sumAnd] at hf
    have h1 := unF s u neg pre (tkp p .AND "&&" :: (printAnd print r ++ rest)) (f + lenAnd r) hw2.1
      (by omega) (follow_and _ _)
    show (parseBooleanExpression env sn false neg ((f + lenAnd r) + 1)).run _ = _
    simp only [printAnd, List.append_assoc, List.cons_append]
    rw [h1]
    simp only [elabAnd]
    cases elabUn res (substC s.constants) neg u s.nextCmdId with
    | error e => rfl
    | ok v =>
      obtain ⟨t, m, j⟩ := v
      simp only
      have h2 := andR (setJ j s) r p neg false t rest f hw2.2 (by omega) hfo
      rw [h2]
      simp only [setJ_constants, setJ_nextCmdId, setJ_setJ]
      cases elabAcc res (substC s.constants) neg t r j with
      | error e => rfl
      | ok w => obtain ⟨t', m', j'⟩ := w; simp only [addImp_addImp]
theorem orF (s : PState) (g : GOr L) (neg : Bool) (pre c : Tok) (tail : List Tok) (f : Nat)
    (hw : wfOr wf g = true) (hf : needOr need g ≤ f) (hc : c.type = .RPAREN) :
    (parseBooleanExpression env sn false neg f).run (st s (pre :: (printOr print g ++ c :: tail))) =
      outG s (c :: tail) (elabOr res (substC s.constants) neg g s.nextCmdId) := by
  cases g with
  | one a =>
    simp only [needOr] at hf
    obtain ⟨f', rfl⟩ : ∃ f', f = (f' + 1) + lenAnd a := ⟨f - lenAnd a - 1, by omega⟩
    have := andF s a neg pre (c :: tail) (f' + 1) (by simpa [wfOr] using hw) (by omega)
      (follow_rparen c tail hc)
    simp only [printOr, elabOr]
    rw [this]
    cases elabAnd res (substC s.constants) neg a s.nextCmdId with
    | error e => rfl
    | ok v =>
      obtain ⟨t, m, j⟩ := v
      simp only
      rw [pr_stop env sn t false neg f' (setJ j s) c tail (by simp [hc]) (by simp [hc])]
      simp [addImp, outG, add_nil]
  | more a p r =>
    have hw2 : wfAnd wf a = true ∧ wfOr wf r = true := by simpa [wfOr] using hw
    simp only [needOr] at hf
    obtain ⟨f', rfl⟩ : ∃ f', f = (f' + 1) + lenAnd a := ⟨f - lenAnd a - 1, by omega⟩
    have := andF s a neg pre (tkp p .OR "||" :: (printOr print r ++ c :: tail)) (f' + 1) hw2.1 (by omega)
      (follow_or _ _)
    simp only [printOr, elabOr, List.append_assoc, List.cons_append]
    rw [this]
    cases elabAnd res (substC s.constants) neg a s.nextCmdId with
    | error e => rfl
    | ok v =>
      obtain ⟨t, m, j⟩ := v
      simp only
      have ih := orF (setJ j s) r neg (tkp p .OR "||") c tail f' hw2.2 (by omega) hc
      rw [pr_or_g env sn t false neg f' (setJ j s) _ _ rfl, ih]
      simp only [setJ_constants, setJ_nextCmdId]
      cases elabOr res (substC s.constants) neg r j with
      | error e => rfl
      | ok w => obtain ⟨tr, mr, j'⟩ := w; rfl
end

end

/-! ### the fuel bound is linear in the number of tokens -/
section
variable {L : Type} (print : L → List Tok) (need : L → Nat)
  (hlen : ∀ lf, need lf + 2 ≤ 2 * (print lf).length)
include hlen

mutual
theorem needOr_le (g : GOr L) : needOr need g ≤ 2 * (printOr print g).length + 1 := by
  cases g with
  | one a => have := sumAnd_le a; simp only [needOr, printOr]; omega
  | more a p r =>
    have := sumAnd_le a; have := needOr_le r
    simp only [needOr, printOr, List.length_append, List.length_cons]; omega
theorem sumAnd_le (a : GAnd L) : lenAnd a + sumAnd need a ≤ 2 * (printAnd print a).length := by
  cases a with
  | one u => have := needUn_le u; simp only [sumAnd, lenAnd, printAnd]; omega
  | more u p r =>
    have := needUn_le u; have := sumAnd_le r
    simp only [sumAnd, lenAnd, printAnd, List.length_append, List.length_cons]; omega
theorem needUn_le (u : GUn L) : needUn need u + 1 ≤ 2 * (printUn print u).length := by
  cases u with
  | leaf lf => have := hlen lf; simp only [needUn, printUn]; omega
  | paren n pn pl pr e =>
    have := needOr_le e
    simp only [needUn, printUn, List.length_append, List.length_cons, List.length_nil]; omega
end

end

end Pory.BoolGen
