import PoryProofs.BoolParse
import PoryProofs.Properties.C11b
/-
Helpers for C02Q (C02 + C11): AutoVar leaves inside compound conditions.

`PoryProofs/BoolParse.lean` proves parse∘print for the condition grammar `SOr` over the non-AutoVar leaves
(`Leaf`), `PoryProofs/Properties/C11b.lean` the AutoVar leaf alone.  Here the grammar is re-done over the
leaf type `ALeaf` = a plain `Leaf` or an AutoVar leaf `[!] name ( a0 , … ) [op N]` (`C11b.printAuto`):

* `ALeaf`, `AOr / AAnd / AUn` (same shape as `SOr / SAnd / SUn`), printers `printAOr …`, the number of
  AutoVar leaves `cntOr …`, fuel needs `needAOr …`, well-formedness `wfOr …` (Bool; `AutoWF` per AutoVar
  leaf = the hypotheses of `C11b.parse_autovar_leaf`);
* expected trees `treeAOr σ env neg id g`: as `C02P.treeOr`, the command of the k-th AutoVar leaf in source
  order (left to right, also inside negated parentheses) gets the command id `id + k`;
* `bumpN n s` = the state `s` with `nextCmdId` advanced by `n`;
* the parse∘print induction `unS / unF / andR / andF / orF` — the same continuation-passing mutual
  induction as in BoolParse.lean, with the parser state threaded through (it changes: every AutoVar leaf
  advances `nextCmdId`);
* the semantic half over the history-aware source semantics `Sem.evalCond` (PorySpec/Sem.lean): the world
  `sworld W ρ` answers a leaf test by `Spec.leafHolds W` on the history rendered by `ρ`; `evalAOr` is the
  reference evaluation of the WRITTEN expression (left to right, short-circuit, `!( … )` negates, an
  AutoVar leaf first appends its command to the history and then compares the configured variable);
  `evalAOr_ok`: `evalCond` of the expected tree = `evalAOr` (value xor `neg`, same history);
* `toSOr` / `shapeOr`: the tree has the precedence shape of `C02P.treeOr` with each AutoVar leaf in the
  place of the `var(X)` leaf with the same surroundings; `idsOr`: the preamble ids in the tree,
  left to right, are `id, id+1, …`; `needAOr_le`: the fuel need is linear in the number of tokens.
The property theorems are in `PoryProofs/Properties/C02Q.lean`.
-/
namespace Pory.C02Q
open Pory Pory.Parser Pory.Spec Pory.C02P Pory.C10b Pory.C11b

/-! ### leaves -/

/-- A leaf of a condition: one of the non-AutoVar forms, or `[!] name ( a0 , a1 , … ) [op N]` on a
configured AutoVar command (`C11b.printAuto`). -/
inductive ALeaf where
  | plain (l : Leaf)
  | auto (fm : Form) (name lp : Tok) (a0 : List Tok) (more : List (Tok × List Tok)) (rp : Tok)

def printALeaf : ALeaf → List Tok
  | .plain l => printLeaf l
  | .auto fm name lp a0 more rp => printAuto fm name lp a0 more rp

/-- number of AutoVar commands of a leaf -/
def cntLeaf : ALeaf → Nat
  | .plain _ => 0
  | .auto .. => 1

def needLeaf : ALeaf → Nat
  | .plain _ => 2
  | .auto _ _ _ a0 more _ => a0.length + (printMore more).length + 2

/-- The rendered arguments of `name ( a0 , a1 , … )` (`C11b.argsT` with the substitution explicit). -/
def argsA (σ : String → String) (a0 : List Tok) (more : List (Tok × List Tok)) : List String :=
  (a0 :: more.map (·.2)).map (renderArg σ)

/-- The command of an AutoVar leaf (`C11b.cmdT` with substitution and id explicit). -/
def cmdA (σ : String → String) (id : Nat) (name : Tok) (a0 : List Tok) (more : List (Tok × List Tok)) :
    Cmd :=
  { id := id, tok := name, name := name.lit, args := argsA σ a0 more }

/-- The configuration entry of a command name (default entry when not configured). -/
def avOf (env : Env) (name : Tok) : AutoVar := (env.autoVars.lookup name.lit).getD {}

/-- The `OpExpr` of a leaf; `id` = the command id an AutoVar leaf's command gets. -/
def leafTA (σ : String → String) (env : Env) (id : Nat) : ALeaf → OpExpr
  | .plain l => leafT σ l
  | .auto fm name _ a0 more _ =>
      autoLeafT σ fm (operandName (avOf env name) (argsA σ a0 more)) (cmdA σ id name a0 more)

/-- The hypotheses of `C11b.parse_autovar_leaf` for one AutoVar leaf. -/
def AutoWF (env : Env) (name lp : Tok) (a0 : List Tok) (more : List (Tok × List Tok)) (rp : Tok) : Prop :=
  name.type = .IDENT ∧ lp.type = .LPAREN ∧ rp.type = .RPAREN ∧ ArgOK a0 ∧
  (∀ p ∈ more, p.1.type = .COMMA ∧ ArgOK p.2) ∧
  (env.autoVars.lookup name.lit).isSome = true ∧ PosOK (avOf env name) (more.length + 1)

instance (env : Env) (name lp : Tok) (a0 : List Tok) (more : List (Tok × List Tok)) (rp : Tok) :
    Decidable (AutoWF env name lp a0 more rp) := by
  unfold AutoWF; infer_instance

def LeafWF (env : Env) : ALeaf → Prop
  | .plain _ => True
  | .auto _ name lp a0 more rp => AutoWF env name lp a0 more rp

instance (env : Env) (lf : ALeaf) : Decidable (LeafWF env lf) :=
  match lf with
  | .plain _ => isTrue trivial
  | .auto _ name lp a0 more rp => inferInstanceAs (Decidable (AutoWF env name lp a0 more rp))

/-! ### the state after `n` AutoVar leaves -/

/-- `s` with the command id counter advanced by `n`. -/
def bumpN (n : Nat) (s : PState) : PState := { s with nextCmdId := s.nextCmdId + n }

@[simp] theorem bumpN_toks (n : Nat) (s : PState) : (bumpN n s).toks = s.toks := rfl
@[simp] theorem bumpN_eof (n : Nat) (s : PState) : (bumpN n s).eof = s.eof := rfl
@[simp] theorem bumpN_constants (n : Nat) (s : PState) : (bumpN n s).constants = s.constants := rfl
@[simp] theorem bumpN_nextCmdId (n : Nat) (s : PState) : (bumpN n s).nextCmdId = s.nextCmdId + n := rfl
@[simp] theorem bumpN_zero (s : PState) : bumpN 0 s = s := rfl
theorem bumpN_one (s : PState) : bumpN 1 s = bump s := rfl
@[simp] theorem bumpN_bumpN (a b : Nat) (s : PState) : bumpN b (bumpN a s) = bumpN (a + b) s := by
  simp [bumpN, Nat.add_assoc]
@[simp] theorem bumpN_st (n : Nat) (s : PState) (l : List Tok) : bumpN n (st s l) = st (bumpN n s) l := rfl

/-! ### a leaf, parsed -/

theorem restOK_of_follow (fm : Form) (rest : List Tok) (h : Follow rest) : fm.RestOK rest := by
  cases fm
  · exact h
  · exact h
  · trivial

theorem parseALeaf_print (env : Env) (sn : String) (f : Nat) (s : PState) (pre : Tok) (lf : ALeaf)
    (rest : List Tok) (hwf : LeafWF env lf) (hfo : Follow rest) (hf : needLeaf lf ≤ f) :
    (parseLeafBooleanExpression env sn f).run (st s (pre :: (printALeaf lf ++ rest))) =
      .ok ((leafTA (substC s.constants) env s.nextCmdId lf, {}), st (bumpN (cntLeaf lf) s) rest) := by
  cases lf with
  | plain l =>
    obtain ⟨f, rfl⟩ : ∃ f', f = f' + 2 := ⟨f - 2, by simp [needLeaf] at hf; omega⟩
    exact parseLeaf_print env sn f s pre l rest hfo
  | auto fm name lp a0 more rp =>
    obtain ⟨hname, hlp, hrp, h0, hm, hsome, hpos⟩ := hwf
    obtain ⟨av, hav⟩ := Option.isSome_iff_exists.mp hsome
    have hav' : avOf env name = av := by simp [avOf, hav]
    rw [hav'] at hpos
    have := parse_autovar_leaf env sn s pre name lp a0 more rp rest av fm hname hav hlp hrp h0 hm hpos
      (restOK_of_follow fm rest hfo) f (by simp [needLeaf] at hf; omega)
    simp only [printALeaf, leafTA, hav']
    exact this

/-- Every printed leaf starts with two tokens that are not `(` and not `! (`. -/
theorem printALeaf_shape (env : Env) (lf : ALeaf) (hwf : LeafWF env lf) :
    ∃ a b tl, printALeaf lf = a :: b :: tl ∧ a.type ≠ .LPAREN ∧ (a.type = .NOT → b.type ≠ .LPAREN) := by
  cases lf with
  | plain l => exact printLeaf_shape l
  | auto fm name lp a0 more rp =>
    obtain ⟨hname, hlp, -⟩ := hwf
    cases fm with
    | bare => exact ⟨name, lp, _, rfl, by simp [hname], by simp [hname]⟩
    | cmp p1 p2 l1 op v => exact ⟨name, lp, _, rfl, by simp [hname], by simp [hname]⟩
    | neg p l => exact ⟨tkp p .NOT l, name, _, rfl, by simp, by simp [hname]⟩

/-! ### reference grammar over `ALeaf` -/
mutual
inductive AOr where
  | one (a : AAnd)
  | more (a : AAnd) (p : TPos) (r : AOr)                 -- `a || r`, `p` = positions of `||`
inductive AAnd where
  | one (u : AUn)
  | more (u : AUn) (p : TPos) (r : AAnd)                 -- `u && r`
inductive AUn where
  | leaf (lf : ALeaf)
  | paren (neg : Bool) (pn pl pr : TPos) (e : AOr)       -- `(e)` / `!(e)`; positions of `!`, `(`, `)`
end

mutual
def printAOr : AOr → List Tok
  | .one a => printAAnd a
  | .more a p r => printAAnd a ++ tkp p .OR "||" :: printAOr r
def printAAnd : AAnd → List Tok
  | .one u => printAUn u
  | .more u p r => printAUn u ++ tkp p .AND "&&" :: printAAnd r
def printAUn : AUn → List Tok
  | .leaf lf => printALeaf lf
  | .paren neg pn pl pr e =>
      (if neg then [tkp pn .NOT "!"] else []) ++ tkp pl .LPAREN "(" :: (printAOr e ++ [tkp pr .RPAREN ")"])
end

/-! number of AutoVar leaves -/
mutual
def cntOr : AOr → Nat
  | .one a => cntAnd a
  | .more a _ r => cntAnd a + cntOr r
def cntAnd : AAnd → Nat
  | .one u => cntUn u
  | .more u _ r => cntUn u + cntAnd r
def cntUn : AUn → Nat
  | .leaf lf => cntLeaf lf
  | .paren _ _ _ _ e => cntOr e
end

mutual
def needAOr : AOr → Nat
  | .one a => 2 + needAAnd a
  | .more a _ r => 3 + needAAnd a + needAOr r
def needAAnd : AAnd → Nat
  | .one u => 1 + needAUn u
  | .more u _ r => 2 + needAUn u + needAAnd r
def needAUn : AUn → Nat
  | .leaf lf => 1 + needLeaf lf
  | .paren _ _ _ _ e => 1 + needAOr e
end

mutual
def wfOr (env : Env) : AOr → Bool
  | .one a => wfAnd env a
  | .more a _ r => wfAnd env a && wfOr env r
def wfAnd (env : Env) : AAnd → Bool
  | .one u => wfUn env u
  | .more u _ r => wfUn env u && wfAnd env r
def wfUn (env : Env) : AUn → Bool
  | .leaf lf => decide (LeafWF env lf)
  | .paren _ _ _ _ e => wfOr env e
end

/-- Every AutoVar leaf of `g` satisfies the hypotheses of `C11b.parse_autovar_leaf` (`AutoWF`: IDENT
name configured in `env`, `(` / `)` tokens, arguments `ArgOK`, separators `,`, configured position in
range). Decidable. -/
def AWF (env : Env) (g : AOr) : Prop := wfOr env g = true

instance (env : Env) (g : AOr) : Decidable (AWF env g) := by unfold AWF; infer_instance

/-! ### expected trees (`id` = command id of the first AutoVar leaf of the expression) -/
mutual
def treeAOr (σ : String → String) (env : Env) (neg : Bool) (id : Nat) : AOr → BoolExpr
  | .one a => treeAAnd σ env neg id a
  | .more a _ r => .bin (treeAAnd σ env neg id a) (orOp neg) (treeAOr σ env neg (id + cntAnd a) r)
def treeAAnd (σ : String → String) (env : Env) (neg : Bool) (id : Nat) : AAnd → BoolExpr
  | .one u => treeAUn σ env neg id u
  | .more u _ r => treeAAcc σ env neg (id + cntUn u) (treeAUn σ env neg id u) r
/-- `left && r`, folded to the left; `id` = command id of the first AutoVar leaf of `r` -/
def treeAAcc (σ : String → String) (env : Env) (neg : Bool) (id : Nat) : BoolExpr → AAnd → BoolExpr
  | left, .one u => .bin left (andOp neg) (treeAUn σ env neg id u)
  | left, .more u _ r =>
      treeAAcc σ env neg (id + cntUn u) (.bin left (andOp neg) (treeAUn σ env neg id u)) r
def treeAUn (σ : String → String) (env : Env) (neg : Bool) (id : Nat) : AUn → BoolExpr
  | .leaf lf => .leaf (negLeaf neg (leafTA σ env id lf))
  | .paren n _ _ _ e => treeAOr σ env (neg != n) id e
end

/-! ### parenthesis steps with a changing state -/
section
variable (env : Env) (sn : String)

/-- `( … )` / `!( … )` as the right operand of `&&` (`C02P.pb_paren_single` with the state after the
inner expression arbitrary). -/
theorem pb_paren_single' (neg n : Bool) (f : Nat) (s s' : PState) (pre nt lp c : Tok)
    (inner rest : List Tok) (t : BoolExpr) (hnt : nt.type = .NOT) (hlp : lp.type = .LPAREN)
    (hin : (parseBooleanExpression env sn false (neg != n) f).run (st s (lp :: inner)) =
      .ok ((t, {}), st s' (c :: rest)))
    (hc : c.type = .RPAREN) :
    (parseBooleanExpression env sn true neg (f + 1)).run
        (st s (pre :: ((if n then [nt] else []) ++ lp :: inner))) =
      .ok ((t, {}), st s' rest) := by
  rw [parseBooleanExpression]
  cases n <;> cases neg <;> simp [hnt, hlp] at hin ⊢ <;> simp [hin, hc]

/-- `( … )` / `!( … )` at the start of an expression, followed by the operator chain. -/
theorem pb_paren_multi' (neg n : Bool) (f : Nat) (s s' s2 : PState) (pre nt lp c : Tok)
    (inner rest : List Tok) (t t' : BoolExpr) (hnt : nt.type = .NOT) (hlp : lp.type = .LPAREN)
    (hin : (parseBooleanExpression env sn false (neg != n) (f + 1)).run (st s (lp :: inner)) =
      .ok ((t, {}), st s' (c :: rest)))
    (hc : c.type = .RPAREN) (hfo : Follow rest)
    (hk : (parseRightSideExpression env sn t false neg (f + 1)).run (st s' rest) = .ok ((t', {}), s2)) :
    (parseBooleanExpression env sn false neg (f + 2)).run
        (st s (pre :: ((if n then [nt] else []) ++ lp :: inner))) =
      .ok ((t', {}), s2) := by
  obtain ⟨x, tl, rfl, hx⟩ := hfo
  rw [parseBooleanExpression]
  rcases hx with hx | hx | hx
  · cases n <;> cases neg <;> simp [hnt, hlp] at hin ⊢ <;> simp [hin, hc, hx, hk]
  · cases n <;> cases neg <;> simp [hnt, hlp] at hin ⊢ <;> simp [hin, hc, hx, hk]
  · rw [pr_stop env sn t false neg f s' x tl (by simp [hx]) (by simp [hx])] at hk
    cases n <;> cases neg <;> simp [hnt, hlp] at hin hk ⊢ <;> simp [hin, hc, hx, hk]

/-! ### the parser on printed expressions -/


mutual
theorem unS (s : PState) (u : AUn) (neg : Bool) (pre : Tok) (rest : List Tok) (f : Nat)
    (hw : wfUn env u = true) (hf : needAUn u ≤ f) (hfo : Follow rest) :
    (parseBooleanExpression env sn true neg f).run (st s (pre :: (printAUn u ++ rest))) =
      .ok ((treeAUn (substC s.constants) env neg s.nextCmdId u, {}), st (bumpN (cntUn u) s) rest) := by
  cases u with
  | leaf lf =>
    obtain ⟨f, rfl⟩ : ∃ f', f = f' + 1 := ⟨f - 1, by simp [needAUn] at hf; omega⟩
    have hw' : LeafWF env lf := by simpa [wfUn] using hw
    obtain ⟨a, b, tl, hp, ha, hb⟩ := printALeaf_shape env lf hw'
    have hl := parseALeaf_print env sn f s pre lf rest hw' hfo (by simp [needAUn] at hf; omega)
    simp only [printAUn, hp, List.cons_append] at hl ⊢
    exact pb_leaf_single env sn neg f s _ pre a b _ _ hl ha hb
  | paren n pn pl pr e =>
    obtain ⟨f, rfl⟩ : ∃ f', f = f' + 1 := ⟨f - 1, by simp [needAUn] at hf; omega⟩
    have hin := orF s e (neg != n) (tkp pl .LPAREN "(") (tkp pr .RPAREN ")") rest f
      (by simpa [wfUn] using hw) (by simp [needAUn] at hf; omega) rfl
    have := pb_paren_single' env sn neg n f s (bumpN (cntOr e) s) pre (tkp pn .NOT "!") _ _
      (printAOr e ++ tkp pr .RPAREN ")" :: rest) rest _ rfl rfl hin rfl
    simpa [printAUn, treeAUn, cntUn] using this
theorem unF (s : PState) (u : AUn) (neg : Bool) (pre : Tok) (rest : List Tok) (f : Nat) (t : BoolExpr)
    (s2 : PState)
    (hk : (parseRightSideExpression env sn (treeAUn (substC s.constants) env neg s.nextCmdId u) false neg
        f).run (st (bumpN (cntUn u) s) rest) = .ok ((t, {}), s2))
    (hw : wfUn env u = true) (hf : needAUn u ≤ f) (hfo : Follow rest) :
    (parseBooleanExpression env sn false neg (f + 1)).run (st s (pre :: (printAUn u ++ rest))) =
      .ok ((t, {}), s2) := by
  cases u with
  | leaf lf =>
    have hw' : LeafWF env lf := by simpa [wfUn] using hw
    obtain ⟨a, b, tl, hp, ha, hb⟩ := printALeaf_shape env lf hw'
    have hl := parseALeaf_print env sn f s pre lf rest hw' hfo (by simp [needAUn] at hf; omega)
    simp only [printAUn, hp, List.cons_append] at hl ⊢
    exact pb_leaf_multi env sn neg f s _ s2 pre a b _ _ t hl ha hb hk
  | paren n pn pl pr e =>
    obtain ⟨f, rfl⟩ : ∃ f', f = f' + 1 := ⟨f - 1, by simp [needAUn] at hf; omega⟩
    have hin := orF s e (neg != n) (tkp pl .LPAREN "(") (tkp pr .RPAREN ")") rest (f + 1)
      (by simpa [wfUn] using hw) (by simp [needAUn] at hf; omega) rfl
    have := pb_paren_multi' env sn neg n f s (bumpN (cntOr e) s) s2 pre (tkp pn .NOT "!") _ _
      (printAOr e ++ tkp pr .RPAREN ")" :: rest) rest _ t rfl rfl hin rfl hfo
      (by simpa [treeAUn, cntUn] using hk)
    simpa [printAUn] using this
/-- the `&&`-chain `&& r` after an already parsed `left` -/
theorem andR (s : PState) (r : AAnd) (p : TPos) (neg single : Bool) (left : BoolExpr) (rest : List Tok)
    (f K : Nat) (t : BoolExpr) (s2 : PState)
    (hk : ∀ f', K ≤ f' →
      (parseRightSideExpression env sn (treeAAcc (substC s.constants) env neg s.nextCmdId left r) single
        neg f').run (st (bumpN (cntAnd r) s) rest) = .ok ((t, {}), s2))
    (hw : wfAnd env r = true) (hf : K + needAAnd r ≤ f) (hfo : Follow rest) :
    (parseRightSideExpression env sn left single neg f).run
        (st s (tkp p .AND "&&" :: (printAAnd r ++ rest))) = .ok ((t, {}), s2) := by
  obtain ⟨f, rfl⟩ : ∃ f', f = f' + 1 := ⟨f - 1, by cases r <;> simp [needAAnd] at hf <;> omega⟩
  cases r with
  | one u =>
    have hu := unS s u neg (tkp p .AND "&&") rest f (by simpa [wfAnd] using hw)
      (by simp [needAAnd] at hf; omega) hfo
    have h2 := hk f (by simp [needAAnd] at hf; omega)
    simp only [printAAnd, treeAAcc, cntAnd] at h2 ⊢
    exact pr_and env sn left _ t single neg f s _ s2 _ _ rfl hu h2
  | more u p' r' =>
    have hw2 : wfUn env u = true ∧ wfAnd env r' = true := by simpa [wfAnd] using hw
    have hu := unS s u neg (tkp p .AND "&&") (tkp p' .AND "&&" :: (printAAnd r' ++ rest)) f
      hw2.1 (by simp [needAAnd] at hf; omega) (follow_and _ _)
    have ih := andR (bumpN (cntUn u) s) r' p' neg single
      (.bin left (andOp neg) (treeAUn (substC s.constants) env neg s.nextCmdId u)) rest f K t s2
      (by simpa [treeAAcc, cntAnd] using hk) hw2.2 (by simp [needAAnd] at hf; omega) hfo
    simp only [printAAnd, List.append_assoc, List.cons_append] at hu ⊢
    exact pr_and env sn left _ t single neg f s _ s2 _ _ rfl hu ih
/-- a full `AAnd` at the start of an expression -/
theorem andF (s : PState) (a : AAnd) (neg : Bool) (pre : Tok) (rest : List Tok) (f K : Nat)
    (t : BoolExpr) (s2 : PState)
    (hk : ∀ f', K ≤ f' →
      (parseRightSideExpression env sn (treeAAnd (substC s.constants) env neg s.nextCmdId a) false neg
        f').run (st (bumpN (cntAnd a) s) rest) = .ok ((t, {}), s2))
    (hw : wfAnd env a = true) (hf : K + needAAnd a ≤ f) (hfo : Follow rest) :
    (parseBooleanExpression env sn false neg (f + 1)).run (st s (pre :: (printAAnd a ++ rest))) =
      .ok ((t, {}), s2) := by
  cases a with
  | one u =>
    have h2 := hk f (by simp [needAAnd] at hf; omega)
    simp only [printAAnd, treeAAnd, cntAnd] at h2 ⊢
    exact unF s u neg pre rest f t s2 h2 (by simpa [wfAnd] using hw) (by simp [needAAnd] at hf; omega) hfo
  | more u p r =>
    have hw2 : wfUn env u = true ∧ wfAnd env r = true := by simpa [wfAnd] using hw
    have h2 := andR (bumpN (cntUn u) s) r p neg false
      (treeAUn (substC s.constants) env neg s.nextCmdId u) rest f K t s2
      (by simpa [treeAAnd, cntAnd] using hk) hw2.2 (by simp [needAAnd] at hf; omega) hfo
    have h1 := unF s u neg pre (tkp p .AND "&&" :: (printAAnd r ++ rest)) f t s2 h2 hw2.1
      (by simp [needAAnd] at hf; omega) (follow_and _ _)
    simpa only [printAAnd, List.append_assoc, List.cons_append] using h1
theorem orF (s : PState) (g : AOr) (neg : Bool) (pre c : Tok) (tail : List Tok) (f : Nat)
    (hw : wfOr env g = true) (hf : needAOr g ≤ f) (hc : c.type = .RPAREN) :
    (parseBooleanExpression env sn false neg f).run (st s (pre :: (printAOr g ++ c :: tail))) =
      .ok ((treeAOr (substC s.constants) env neg s.nextCmdId g, {}),
           st (bumpN (cntOr g) s) (c :: tail)) := by
  obtain ⟨f, rfl⟩ : ∃ f', f = f' + 1 := ⟨f - 1, by cases g <;> simp [needAOr] at hf <;> omega⟩
  cases g with
  | one a =>
    have := andF s a neg pre (c :: tail) f 1 (treeAAnd (substC s.constants) env neg s.nextCmdId a)
      (st (bumpN (cntAnd a) s) (c :: tail))
      (by
        intro f' hf'
        obtain ⟨f', rfl⟩ : ∃ k, f' = k + 1 := ⟨f' - 1, by omega⟩
        exact pr_stop env sn _ _ _ f' _ c tail (by simp [hc]) (by simp [hc]))
      (by simpa [wfOr] using hw) (by simp [needAOr] at hf; omega) (follow_rparen c tail hc)
    simpa only [printAOr, treeAOr, cntOr] using this
  | more a p r =>
    have hw2 : wfAnd env a = true ∧ wfOr env r = true := by simpa [wfOr] using hw
    have := andF s a neg pre (tkp p .OR "||" :: (printAOr r ++ c :: tail)) f (1 + needAOr r)
      (.bin (treeAAnd (substC s.constants) env neg s.nextCmdId a) (orOp neg)
        (treeAOr (substC s.constants) env neg (s.nextCmdId + cntAnd a) r))
      (st (bumpN (cntAnd a + cntOr r) s) (c :: tail))
      (by
        intro f' hf'
        obtain ⟨f', rfl⟩ : ∃ k, f' = k + 1 := ⟨f' - 1, by omega⟩
        have ih := orF (bumpN (cntAnd a) s) r neg (tkp p .OR "||") c tail f' hw2.2 (by omega) hc
        simp only [bumpN_constants, bumpN_nextCmdId, bumpN_bumpN] at ih
        exact pr_or env sn _ _ false neg f' _ _ _ _ rfl ih)
      hw2.1 (by simp [needAOr] at hf; omega) (follow_or _ _)
    simpa only [printAOr, treeAOr, cntOr, List.append_assoc, List.cons_append] using this
end

end

/-! ### the fuel bound is linear in the number of tokens -/
theorem printALeaf_length (lf : ALeaf) : needLeaf lf + 1 ≤ (printALeaf lf).length ∧ 3 ≤ (printALeaf lf).length := by
  cases lf with
  | plain l => have := printLeaf_length l; simp only [needLeaf, printALeaf]; omega
  | auto fm name lp a0 more rp =>
    simp only [needLeaf, printALeaf, printAuto, printCmd, List.length_append, List.length_cons,
      List.length_nil]
    omega

mutual
theorem needAOr_le (g : AOr) : needAOr g ≤ 2 * (printAOr g).length + 1 := by
  cases g with
  | one a => have := needAAnd_le a; simp only [needAOr, printAOr]; omega
  | more a p r =>
    have := needAAnd_le a; have := needAOr_le r
    simp only [needAOr, printAOr, List.length_append, List.length_cons]; omega
theorem needAAnd_le (a : AAnd) : needAAnd a + 1 ≤ 2 * (printAAnd a).length := by
  cases a with
  | one u => have := needAUn_le u; simp only [needAAnd, printAAnd]; omega
  | more u p r =>
    have := needAUn_le u; have := needAAnd_le r
    simp only [needAAnd, printAAnd, List.length_append, List.length_cons]; omega
theorem needAUn_le (u : AUn) : needAUn u + 2 ≤ 2 * (printAUn u).length := by
  cases u with
  | leaf lf => have := printALeaf_length lf; simp only [needAUn, printAUn]; omega
  | paren n pn pl pr e =>
    have := needAOr_le e
    simp only [needAUn, printAUn, List.length_append, List.length_cons, List.length_nil]; omega
end


/-! ### semantics: history-aware evaluation of the written expression and of the parsed tree -/

/-- The source-machine world (`PorySpec/Sem.lean`) induced by a game-state world `W`: the test of a leaf
after the command history `h` is the documented meaning of the leaf (`Spec.leafHolds`) in `W` after the
history `h`, each executed command rendered by `ρ`. -/
def sworld (W : World) (ρ : Cmd → String) : Sem.SWorld where
  test := fun h e => leafHolds W (h.map ρ) e
  caseEq := fun _ _ _ => false

/-- Meaning of a written leaf after the history `h`: a plain leaf is tested as the manual says
(`C02P.evalLeaf`), the history does not change; an AutoVar leaf first runs its command (one event
appended to the history: `cmdA … id …`), then compares the configured variable (`operandName`) with the
written operator / value (`!= 0` bare, `== 0` after `!`). -/
def evalALeaf (W : World) (ρ : Cmd → String) (σ : String → String) (env : Env) (id : Nat) (h : Sem.Hist) :
    ALeaf → Sem.Hist × Bool
  | .plain l => (h, evalLeaf σ W (h.map ρ) l)
  | .auto fm name _ a0 more _ =>
      (h ++ [cmdA σ id name a0 more],
       cmpHolds fm.operator (W.cmp ((h ++ [cmdA σ id name a0 more]).map ρ)
         (operandName (avOf env name) (argsA σ a0 more)) (fm.cmpValue σ)))

/-! Standard reading: `!` tightest, then `&&`, then `||`, parentheses override; operands are evaluated
left to right, `&&` / `||` short-circuit (an operand that is not evaluated does not run its command). -/
mutual
def evalAOr (W : World) (ρ : Cmd → String) (σ : String → String) (env : Env) (id : Nat) (h : Sem.Hist) :
    AOr → Sem.Hist × Bool
  | .one a => evalAAnd W ρ σ env id h a
  | .more a _ r =>
    match evalAAnd W ρ σ env id h a with
    | (h1, true) => (h1, true)
    | (h1, false) => evalAOr W ρ σ env (id + cntAnd a) h1 r
def evalAAnd (W : World) (ρ : Cmd → String) (σ : String → String) (env : Env) (id : Nat) (h : Sem.Hist) :
    AAnd → Sem.Hist × Bool
  | .one u => evalAUn W ρ σ env id h u
  | .more u _ r =>
    match evalAUn W ρ σ env id h u with
    | (h1, true) => evalAAnd W ρ σ env (id + cntUn u) h1 r
    | (h1, false) => (h1, false)
def evalAUn (W : World) (ρ : Cmd → String) (σ : String → String) (env : Env) (id : Nat) (h : Sem.Hist) :
    AUn → Sem.Hist × Bool
  | .leaf lf => evalALeaf W ρ σ env id h lf
  | .paren n _ _ _ e => ((evalAOr W ρ σ env id h e).1, (evalAOr W ρ σ env id h e).2 != n)
end

theorem form_isCmp (fm : Form) : isCmpOp fm.operator = true := by
  cases fm with
  | bare => rfl
  | cmp p1 p2 l1 op v => exact cmpOp_isCmp op
  | neg p l => rfl

section
variable (W : World) (ρ : Cmd → String) (σ : String → String) (env : Env)

theorem aleaf_sem (id : Nat) (h : Sem.Hist) (neg : Bool) (lf : ALeaf) :
    Sem.evalCond (sworld W ρ) h (.leaf (negLeaf neg (leafTA σ env id lf))) =
      ((evalALeaf W ρ σ env id h lf).1, (evalALeaf W ρ σ env id h lf).2 != neg) := by
  cases lf with
  | plain l =>
    have hp : (negLeaf neg (leafT σ l)).preamble = none := by cases neg <;> cases l <;> rfl
    simp [Sem.evalCond, Sem.runPre, hp, sworld, evalALeaf, leafTA, leaf_sem]
  | auto fm name lp a0 more rp =>
    have hp : ∀ o c, (negLeaf neg (autoLeafT σ fm o c)).preamble = some c := by
      intro o c; cases neg <;> rfl
    cases neg
    · simp [Sem.evalCond, Sem.runPre, hp, sworld, evalALeaf, leafTA]
      simp [negLeaf, autoLeafT, leafHolds]
    · simp [Sem.evalCond, Sem.runPre, hp, sworld, evalALeaf, leafTA]
      simp [negLeaf, autoLeafT, leafHolds, C02.negation_sound _ (form_isCmp fm)]

mutual
theorem evalAOr_ok (g : AOr) (neg : Bool) (id : Nat) (h : Sem.Hist) :
    Sem.evalCond (sworld W ρ) h (treeAOr σ env neg id g) =
      ((evalAOr W ρ σ env id h g).1, (evalAOr W ρ σ env id h g).2 != neg) := by
  cases g with
  | one a => simpa [treeAOr, evalAOr] using evalAAnd_ok a neg id h
  | more a p r =>
    have h1 := evalAAnd_ok a neg id h
    rcases hE : evalAAnd W ρ σ env id h a with ⟨h1', b⟩
    rw [hE] at h1
    have h2 := evalAOr_ok r neg (id + cntAnd a) h1'
    cases neg <;> cases b <;> simp [treeAOr, evalAOr, Sem.evalCond, orOp, h1, hE, h2]
theorem evalAAnd_ok (a : AAnd) (neg : Bool) (id : Nat) (h : Sem.Hist) :
    Sem.evalCond (sworld W ρ) h (treeAAnd σ env neg id a) =
      ((evalAAnd W ρ σ env id h a).1, (evalAAnd W ρ σ env id h a).2 != neg) := by
  cases a with
  | one u => simpa [treeAAnd, evalAAnd] using evalAUn_ok u neg id h
  | more u p r =>
    have h1 := evalAUn_ok u neg id h
    rcases hE : evalAUn W ρ σ env id h u with ⟨h1', b⟩
    rw [hE] at h1
    have h2 := evalAAcc_ok r neg (id + cntUn u) h h1' (treeAUn σ env neg id u) b h1
    cases b <;> simp [treeAAnd, evalAAnd, hE, h2]
theorem evalAAcc_ok (r : AAnd) (neg : Bool) (id : Nat) (h h1 : Sem.Hist) (left : BoolExpr) (bl : Bool)
    (hl : Sem.evalCond (sworld W ρ) h left = (h1, bl != neg)) :
    Sem.evalCond (sworld W ρ) h (treeAAcc σ env neg id left r) =
      if bl then ((evalAAnd W ρ σ env id h1 r).1, (evalAAnd W ρ σ env id h1 r).2 != neg)
      else (h1, neg) := by
  cases r with
  | one u =>
    have hu := evalAUn_ok u neg id h1
    cases neg <;> cases bl <;> simp [treeAAcc, evalAAnd, Sem.evalCond, andOp, hl, hu]
  | more u p r' =>
    have hu := evalAUn_ok u neg id h1
    rcases hE : evalAUn W ρ σ env id h1 u with ⟨h2, b⟩
    rw [hE] at hu
    have hstep : Sem.evalCond (sworld W ρ) h (.bin left (andOp neg) (treeAUn σ env neg id u)) =
        (if bl then h2 else h1, (bl && b) != neg) := by
      cases neg <;> cases bl <;> simp [Sem.evalCond, andOp, hl, hu]
    have ih := evalAAcc_ok r' neg (id + cntUn u) h (if bl then h2 else h1) _ (bl && b) hstep
    cases bl <;> cases b <;> simp [treeAAcc, evalAAnd, hE] at ih ⊢ <;> simp [ih]
theorem evalAUn_ok (u : AUn) (neg : Bool) (id : Nat) (h : Sem.Hist) :
    Sem.evalCond (sworld W ρ) h (treeAUn σ env neg id u) =
      ((evalAUn W ρ σ env id h u).1, (evalAUn W ρ σ env id h u).2 != neg) := by
  cases u with
  | leaf lf => simpa [treeAUn, evalAUn] using aleaf_sem W ρ σ env id h neg lf
  | paren n pn pl pr e =>
    have := evalAOr_ok e (neg != n) id h
    cases neg <;> cases n <;> simp at this <;> simp [treeAUn, evalAUn, this]
end

end

/-! ### the shape of the tree -/

/-- forget operand and preamble of a leaf -/
def eraseLeaf (e : OpExpr) : OpExpr := { e with operand := {}, preamble := none }

def mapLeaf (f : OpExpr → OpExpr) : BoolExpr → BoolExpr
  | .leaf e => .leaf (f e)
  | .bin l op r => .bin (mapLeaf f l) op (mapLeaf f r)

/-- the leaves of a tree, left to right -/
def leavesOf : BoolExpr → List OpExpr
  | .leaf e => [e]
  | .bin l _ r => leavesOf l ++ leavesOf r

/-- the command ids of the preambles in a tree, left to right -/
def preambleIds (t : BoolExpr) : List Nat := ((leavesOf t).filterMap (·.preamble)).map (·.id)

/-- An AutoVar leaf replaced by the `var(X)` leaf with the same surroundings (`Form.varLeaf`). -/
def toSLeaf : ALeaf → Leaf
  | .plain l => l
  | .auto fm _ _ _ _ _ => fm.varLeaf (fun _ => {}) ""

mutual
def toSOr : AOr → SOr
  | .one a => .one (toSAnd a)
  | .more a p r => .more (toSAnd a) p (toSOr r)
def toSAnd : AAnd → SAnd
  | .one u => .one (toSUn u)
  | .more u p r => .more (toSUn u) p (toSAnd r)
def toSUn : AUn → SUn
  | .leaf lf => .leaf (toSLeaf lf)
  | .paren n pn pl pr e => .paren n pn pl pr (toSOr e)
end

theorem erase_leaf (σ : String → String) (env : Env) (neg : Bool) (id : Nat) (lf : ALeaf) :
    eraseLeaf (negLeaf neg (leafTA σ env id lf)) = eraseLeaf (negLeaf neg (leafT σ (toSLeaf lf))) := by
  cases lf with
  | plain l => rfl
  | auto fm name lp a0 more rp => cases neg <;> cases fm <;> rfl

section
variable (σ : String → String) (env : Env)

mutual
theorem shapeOr (g : AOr) (neg : Bool) (id : Nat) :
    mapLeaf eraseLeaf (treeAOr σ env neg id g) = mapLeaf eraseLeaf (treeOr σ neg (toSOr g)) := by
  cases g with
  | one a => simpa [treeAOr, toSOr, treeOr] using shapeAnd a neg id
  | more a p r =>
    simp [treeAOr, toSOr, treeOr, mapLeaf, shapeAnd a neg id, shapeOr r neg (id + cntAnd a)]
theorem shapeAnd (a : AAnd) (neg : Bool) (id : Nat) :
    mapLeaf eraseLeaf (treeAAnd σ env neg id a) = mapLeaf eraseLeaf (treeAnd σ neg (toSAnd a)) := by
  cases a with
  | one u => simpa [treeAAnd, toSAnd, treeAnd] using shapeUn u neg id
  | more u p r =>
    simpa [treeAAnd, toSAnd, treeAnd] using shapeAcc r neg (id + cntUn u) _ _ (shapeUn u neg id)
theorem shapeAcc (r : AAnd) (neg : Bool) (id : Nat) (left left' : BoolExpr)
    (hl : mapLeaf eraseLeaf left = mapLeaf eraseLeaf left') :
    mapLeaf eraseLeaf (treeAAcc σ env neg id left r) =
      mapLeaf eraseLeaf (treeAndAcc σ neg left' (toSAnd r)) := by
  cases r with
  | one u => simp [treeAAcc, toSAnd, treeAndAcc, mapLeaf, hl, shapeUn u neg id]
  | more u p r' =>
    simpa [treeAAcc, toSAnd, treeAndAcc] using
      shapeAcc r' neg (id + cntUn u) _ _ (by simp [mapLeaf, hl, shapeUn u neg id])
theorem shapeUn (u : AUn) (neg : Bool) (id : Nat) :
    mapLeaf eraseLeaf (treeAUn σ env neg id u) = mapLeaf eraseLeaf (treeUn σ neg (toSUn u)) := by
  cases u with
  | leaf lf => simp [treeAUn, toSUn, treeUn, mapLeaf, erase_leaf]
  | paren n pn pl pr e => simpa [treeAUn, toSUn, treeUn] using shapeOr e (neg != n) id
end

theorem ids_leaf (neg : Bool) (id : Nat) (lf : ALeaf) :
    preambleIds (.leaf (negLeaf neg (leafTA σ env id lf))) = List.range' id (cntLeaf lf) := by
  cases lf with
  | plain l => cases neg <;> cases l <;> rfl
  | auto fm name lp a0 more rp => cases neg <;> rfl

theorem preambleIds_bin (l r : BoolExpr) (op : TT) :
    preambleIds (.bin l op r) = preambleIds l ++ preambleIds r := by
  simp [preambleIds, leavesOf]

mutual
theorem idsOr (g : AOr) (neg : Bool) (id : Nat) :
    preambleIds (treeAOr σ env neg id g) = List.range' id (cntOr g) := by
  cases g with
  | one a => simpa [treeAOr, cntOr] using idsAnd a neg id
  | more a p r =>
    simp [treeAOr, cntOr, preambleIds_bin, idsAnd a neg id, idsOr r neg (id + cntAnd a),
      List.range'_append_1]
theorem idsAnd (a : AAnd) (neg : Bool) (id : Nat) :
    preambleIds (treeAAnd σ env neg id a) = List.range' id (cntAnd a) := by
  cases a with
  | one u => simpa [treeAAnd, cntAnd] using idsUn u neg id
  | more u p r =>
    simp [treeAAnd, cntAnd, idsAcc r neg (id + cntUn u), idsUn u neg id, List.range'_append_1]
theorem idsAcc (r : AAnd) (neg : Bool) (id : Nat) (left : BoolExpr) :
    preambleIds (treeAAcc σ env neg id left r) = preambleIds left ++ List.range' id (cntAnd r) := by
  cases r with
  | one u => simp [treeAAcc, cntAnd, preambleIds_bin, idsUn u neg id]
  | more u p r' =>
    simp [treeAAcc, cntAnd, idsAcc r' neg (id + cntUn u), preambleIds_bin, idsUn u neg id,
      List.range'_append_1]
theorem idsUn (u : AUn) (neg : Bool) (id : Nat) :
    preambleIds (treeAUn σ env neg id u) = List.range' id (cntUn u) := by
  cases u with
  | leaf lf => simpa [treeAUn, cntUn] using ids_leaf σ env neg id lf
  | paren n pn pl pr e => simpa [treeAUn, cntUn] using idsOr e (neg != n) id
end

end

end Pory.C02Q
