import PoryProofs.EmitTotal
import PoryProofs.Properties.C01d
import PoryProofs.Properties.C17
/-
Helpers for property C05e ("-optimize changes the layout of script code only").

* the data emitters (`emitText`, `emitRaw`, `emitMovement`, `emitMart`, the header lines of a `mapscripts`
  statement and of its tables, the hoisted-text section) depend on the options only through `lineMarkers`
  and `inputPath` (`…_congr`);
* `Block`, `progBlocks`, `assemble`: `emitProgram o p` is the left-to-right concatenation of a list of
  blocks — literal data blocks and `emitScript` of the program's scripts — and the list of blocks does not
  depend on `o.optimize` (`emitProgram_eq_assemble`, `progBlocks_congr`);
* `renderBodies_firstErr`: the result of `renderBodies` is an error iff some chunk of the order fails to
  render, and the error is that of the FIRST such chunk of the order (`chunkErr`, `List.findSome?`).
-/
namespace Pory.C05e
open Pory Pory.Emit

/-! ### 1. the data emitters do not look at `optimize` -/

section congr
variable {o₁ o₂ : Opts} (hl : o₁.lineMarkers = o₂.lineMarkers) (hp : o₁.inputPath = o₂.inputPath)
include hl hp

theorem markers_congr : o₁.markers = o₂.markers := by
  simp [Opts.markers, hl, hp]

theorem emitText_congr (t : Text) : emitText o₁ t = emitText o₂ t := by
  simp only [emitText, C05.marker_congr hl hp]

theorem emitRaw_congr (vtok : Tok) (v : String) : emitRaw o₁ vtok v = emitRaw o₂ vtok v := by
  simp only [emitRaw, markers_congr hl hp, hp]

theorem emitMovement_steps_congr (cmds : List Tok) :
    emitMovement.steps o₁ cmds = emitMovement.steps o₂ cmds := by
  induction cmds with
  | nil => rfl
  | cons c r ih => simp only [emitMovement.steps, ih, C05.marker_congr hl hp]

theorem emitMovement_congr (m : MovementStmt) : emitMovement o₁ m = emitMovement o₂ m := by
  simp only [emitMovement, emitMovement_steps_congr hl hp, C05.marker_congr hl hp]

theorem emitMart_go_congr (items : List String) :
    ∀ ts : List Tok, emitMart.go o₁ ts items = emitMart.go o₂ ts items := by
  induction items with
  | nil => intro ts; simp only [emitMart.go]
  | cons it r ih => intro ts; simp only [emitMart.go, ih, C05.marker_congr hl hp]

theorem emitMart_congr (tok : Tok) (name : String) (tis : List Tok) (items : List String) (scope : TT) :
    emitMart o₁ tok name tis items scope = emitMart o₂ tok name tis items scope := by
  simp only [emitMart, emitMart_go_congr hl hp, C05.marker_congr hl hp]

end congr

/-! ### 2. blocks -/

/-- One block of the output: literal non-script lines, or the code of one script. -/
inductive Block
  | data (ls : List Line)
  | code (s : Script)

def Block.isData : Block → Bool
  | .data _ => true
  | .code _ => false

/-- header lines of one table of a `mapscripts` statement -/
def tableHead (o : Opts) (t : TableMapScript) : List Line :=
  [.labelDef t.name false] ++
    (t.entries.flatMap fun e => marker o e.condition ++ [.mapScript2 e.condition.lit e.comparison e.name]) ++
    [.twoByte0]

/-- header lines of a `mapscripts` statement -/
def mapScriptsHead (o : Opts) (m : MapScripts) : List Line :=
  [.labelDef m.name (m.scope == .GLOBAL)] ++
    (m.mapScripts.flatMap fun ms => marker o ms.type ++ [.mapScript ms.type.lit ms.name]) ++
    (m.tables.flatMap fun t => marker o t.type ++ [.mapScript t.type.lit t.name]) ++
    [.byte0]

/-- the hoisted-text section of `emitProgram`; `i` = number of rendered top-level statements -/
def textsSection (o : Opts) (i : Nat) (texts : List Text) : List Line :=
  (List.range texts.length).flatMap fun j =>
    (if i + j > 0 then [Line.blank] else []) ++ emitText o (texts.getD j {})

/-- separator before the `i`-th rendered top-level statement -/
def sep (i : Nat) : List Line := if i > 0 then [.blank] else []

def scriptsBlocks : List (Option Script) → List Block
  | [] => []
  | none :: r => scriptsBlocks r
  | some s :: r => .code s :: scriptsBlocks r

def tablesBlocks (o : Opts) : List TableMapScript → List Block
  | [] => []
  | t :: r => .data (tableHead o t) :: (scriptsBlocks (t.entries.map (·.script)) ++ tablesBlocks o r)

def mapScriptsBlocks (o : Opts) (m : MapScripts) : List Block :=
  .data (mapScriptsHead o m) :: (scriptsBlocks (m.mapScripts.map (·.script)) ++ tablesBlocks o m.tables)

/-- blocks of one top-level statement (a `text` statement has none: it is rendered in the text section) -/
def topBlocks (o : Opts) : Top → List Block
  | .text _ => []
  | .script s => [.code s]
  | .raw _ vtok v => [.data (emitRaw o vtok v)]
  | .movement m => [.data (emitMovement o m)]
  | .mart tok name tis items scope => [.data (emitMart o tok name tis items scope)]
  | .mapscripts m => mapScriptsBlocks o m

def isText : Top → Bool
  | .text _ => true
  | _ => false

/-- number of rendered (non-`text`) top-level statements -/
def countTops : List Top → Nat
  | [] => 0
  | t :: r => if isText t then countTops r else countTops r + 1

def topsBlocks (o : Opts) : List Top → Nat → List Block
  | [], _ => []
  | t :: r, i =>
    if isText t then topsBlocks o r i
    else .data (sep i) :: (topBlocks o t ++ topsBlocks o r (i + 1))

/-- All blocks of a program, in output order. -/
def progBlocks (o : Opts) (p : Program) : List Block :=
  topsBlocks o p.tops 0 ++ [.data (textsSection o (countTops p.tops) p.texts)]

/-- sequencing of two partial outputs: first error wins, left to right -/
def seq2 (x y : Except EFail (List Line)) : Except EFail (List Line) :=
  match x with
  | .error e => .error e
  | .ok a =>
    match y with
    | .error e => .error e
    | .ok b => .ok (a ++ b)

/-- Concatenate the blocks from left to right, rendering each script with `f`. -/
def assemble (f : Script → Except EFail (List Line)) : List Block → Except EFail (List Line)
  | [] => .ok []
  | .data ls :: r => seq2 (.ok ls) (assemble f r)
  | .code s :: r => seq2 (f s) (assemble f r)

theorem seq2_ok_nil (y : Except EFail (List Line)) : seq2 (.ok []) y = y := by
  cases y <;> rfl

theorem seq2_assoc (x y z : Except EFail (List Line)) : seq2 (seq2 x y) z = seq2 x (seq2 y z) := by
  cases x <;> cases y <;> cases z <;> simp [seq2]

theorem assemble_append (f : Script → Except EFail (List Line)) (a b : List Block) :
    assemble f (a ++ b) = seq2 (assemble f a) (assemble f b) := by
  induction a with
  | nil => simp only [List.nil_append, assemble, seq2_ok_nil]
  | cons x r ih =>
    cases x with
    | data ls => simp only [List.cons_append, assemble, ih, seq2_assoc]
    | code s => simp only [List.cons_append, assemble, ih, seq2_assoc]

/-! ### the blocks do not depend on `optimize` -/

section congr
variable {o₁ o₂ : Opts} (hl : o₁.lineMarkers = o₂.lineMarkers) (hp : o₁.inputPath = o₂.inputPath)
include hl hp

theorem tableHead_congr (t : TableMapScript) : tableHead o₁ t = tableHead o₂ t := by
  simp only [tableHead, C05.marker_congr hl hp]

theorem mapScriptsHead_congr (m : MapScripts) : mapScriptsHead o₁ m = mapScriptsHead o₂ m := by
  simp only [mapScriptsHead, C05.marker_congr hl hp]

theorem textsSection_congr (i : Nat) (texts : List Text) :
    textsSection o₁ i texts = textsSection o₂ i texts := by
  simp only [textsSection, emitText_congr hl hp]

theorem tablesBlocks_congr (ts : List TableMapScript) : tablesBlocks o₁ ts = tablesBlocks o₂ ts := by
  induction ts with
  | nil => rfl
  | cons t r ih => simp only [tablesBlocks, ih, tableHead_congr hl hp]

theorem mapScriptsBlocks_congr (m : MapScripts) : mapScriptsBlocks o₁ m = mapScriptsBlocks o₂ m := by
  simp only [mapScriptsBlocks, tablesBlocks_congr hl hp, mapScriptsHead_congr hl hp]

theorem topBlocks_congr (t : Top) : topBlocks o₁ t = topBlocks o₂ t := by
  cases t with
  | text _ => rfl
  | script _ => rfl
  | raw _ vtok v => simp only [topBlocks, emitRaw_congr hl hp]
  | movement m => simp only [topBlocks, emitMovement_congr hl hp]
  | mart tok name tis items scope => simp only [topBlocks, emitMart_congr hl hp]
  | mapscripts m => simp only [topBlocks, mapScriptsBlocks_congr hl hp]

theorem topsBlocks_congr (tops : List Top) : ∀ i, topsBlocks o₁ tops i = topsBlocks o₂ tops i := by
  induction tops with
  | nil => intro i; rfl
  | cons t r ih => intro i; simp only [topsBlocks, ih, topBlocks_congr hl hp]

theorem progBlocks_congr (p : Program) : progBlocks o₁ p = progBlocks o₂ p := by
  simp only [progBlocks, topsBlocks_congr hl hp, textsSection_congr hl hp]

end congr

/-! ### `emitProgram` is `assemble` of the blocks -/

section asm
variable (o : Opts) (ps : List ((Nat × Nat) × String)) (tl : List String)

theorem emitScripts_eq_assemble (l : List (Option Script)) :
    emitScripts o ps tl l = assemble (emitScript o ps tl) (scriptsBlocks l) := by
  induction l with
  | nil => rfl
  | cons x r ih =>
    cases x with
    | none => simp only [emitScripts, scriptsBlocks, ih]
    | some s =>
      simp only [emitScripts, scriptsBlocks, assemble, ih, seq2]
      cases emitScript o ps tl s <;> rfl

theorem emitTables_eq_assemble (ts : List TableMapScript) :
    emitTables o ps tl ts = assemble (emitScript o ps tl) (tablesBlocks o ts) := by
  induction ts with
  | nil => rfl
  | cons t r ih =>
    simp only [emitTables, tablesBlocks, assemble, assemble_append, ih, emitScripts_eq_assemble, tableHead]
    cases assemble (emitScript o ps tl) (scriptsBlocks (t.entries.map (·.script))) <;>
      cases assemble (emitScript o ps tl) (tablesBlocks o r) <;> simp [seq2]

theorem emitMapScripts_eq_assemble (m : MapScripts) :
    emitMapScripts o ps tl m = assemble (emitScript o ps tl) (mapScriptsBlocks o m) := by
  simp only [emitMapScripts, mapScriptsBlocks, assemble, assemble_append, emitTables_eq_assemble,
    emitScripts_eq_assemble, mapScriptsHead]
  cases assemble (emitScript o ps tl) (scriptsBlocks (m.mapScripts.map (·.script))) <;>
    cases assemble (emitScript o ps tl) (tablesBlocks o m.tables) <;> simp [seq2]

/-- the lines of one rendered top-level statement are `assemble` of its blocks -/
theorem emitTopLines_eq_assemble (t : Top) (e : Except EFail (List Line))
    (h : C17.emitTopLines o ps tl t = some e) :
    e = assemble (emitScript o ps tl) (topBlocks o t) := by
  cases t with
  | text _ => simp [C17.emitTopLines] at h
  | script s =>
    simp only [C17.emitTopLines, Option.some.injEq] at h
    subst h
    simp only [topBlocks, assemble, seq2]
    cases emitScript o ps tl s <;> simp
  | raw _ vtok v =>
    simp only [C17.emitTopLines, Option.some.injEq] at h
    subst h; simp [topBlocks, assemble, seq2]
  | movement m =>
    simp only [C17.emitTopLines, Option.some.injEq] at h
    subst h; simp [topBlocks, assemble, seq2]
  | mart tok name tis items scope =>
    simp only [C17.emitTopLines, Option.some.injEq] at h
    subst h; simp [topBlocks, assemble, seq2]
  | mapscripts m =>
    simp only [C17.emitTopLines, Option.some.injEq] at h
    subst h
    exact emitMapScripts_eq_assemble o ps tl m

theorem emitTopLines_isText (t : Top) : C17.emitTopLines o ps tl t = none ↔ isText t = true := by
  cases t <;> simp [C17.emitTopLines, isText]

theorem emitTops_eq_assemble (tops : List Top) : ∀ i,
    emitTops o ps tl tops i =
      match assemble (emitScript o ps tl) (topsBlocks o tops i) with
      | .error e => .error e
      | .ok ls => .ok (ls, i + countTops tops) := by
  induction tops with
  | nil => intro i; rfl
  | cons t r ih =>
    intro i
    cases ht : C17.emitTopLines o ps tl t with
    | none =>
      have hx := (emitTopLines_isText o ps tl t).1 ht
      cases t <;> simp [isText] at hx
      rw [C17.emitTops_text, ih i]
      simp [topsBlocks, countTops, isText]
    | some e =>
      have hx : isText t = false := by
        cases hb : isText t with
        | false => rfl
        | true => rw [(emitTopLines_isText o ps tl t).2 hb] at ht; cases ht
      rw [C17.emitTops_cons o ps tl t r i e ht, ih (i + 1), emitTopLines_eq_assemble o ps tl t e ht]
      simp only [topsBlocks, countTops, hx, Bool.false_eq_true, if_false, assemble, assemble_append]
      cases assemble (emitScript o ps tl) (topBlocks o t) <;>
        cases assemble (emitScript o ps tl) (topsBlocks o r (i + 1)) <;>
          simp [C17.combine, seq2, sep, Nat.add_assoc, Nat.add_comm 1]

/-- **`emitProgram` is the left-to-right concatenation of the program's blocks**, each script block
rendered by `emitScript` (with the program's patches and text labels). -/
theorem emitProgram_eq_assemble (p : Program) :
    emitProgram o p =
      assemble (emitScript o p.patches (p.texts.map (·.name))) (progBlocks o p) := by
  simp only [emitProgram, progBlocks, assemble_append, emitTops_eq_assemble, Nat.zero_add, assemble]
  cases assemble (emitScript o p.patches (p.texts.map (·.name))) (topsBlocks o p.tops 0) <;>
    simp [seq2, textsSection]

end asm

/-! ### which scripts have a code block -/

theorem mem_scriptsBlocks {s : Script} : ∀ {l : List (Option Script)},
    Block.code s ∈ scriptsBlocks l ↔ some s ∈ l := by
  intro l
  induction l with
  | nil => simp [scriptsBlocks]
  | cons x r ih =>
    cases x with
    | none => simp [scriptsBlocks, ih]
    | some s' => simp [scriptsBlocks, ih]

theorem data_not_mem_scriptsBlocks {ls : List Line} : ∀ {l : List (Option Script)},
    Block.data ls ∉ scriptsBlocks l := by
  intro l
  induction l with
  | nil => simp [scriptsBlocks]
  | cons x r ih =>
    cases x with
    | none => simpa [scriptsBlocks] using ih
    | some s' => simpa [scriptsBlocks] using ih

theorem mem_tablesBlocks {o : Opts} {s : Script} : ∀ {ts : List TableMapScript},
    Block.code s ∈ tablesBlocks o ts ↔ ∃ t ∈ ts, ∃ e ∈ t.entries, e.script = some s := by
  intro ts
  induction ts with
  | nil => simp [tablesBlocks]
  | cons t r ih => simp [tablesBlocks, ih, mem_scriptsBlocks]

theorem mem_mapScriptsBlocks {o : Opts} {s : Script} {m : MapScripts} :
    Block.code s ∈ mapScriptsBlocks o m ↔
      (∃ ms ∈ m.mapScripts, ms.script = some s) ∨ ∃ t ∈ m.tables, ∃ e ∈ t.entries, e.script = some s := by
  simp [mapScriptsBlocks, mem_tablesBlocks, mem_scriptsBlocks]

theorem mem_topBlocks {o : Opts} {s : Script} {t : Top} :
    Block.code s ∈ topBlocks o t ↔
      t = .script s ∨ ∃ m, t = .mapscripts m ∧
        ((∃ ms ∈ m.mapScripts, ms.script = some s) ∨ ∃ t ∈ m.tables, ∃ e ∈ t.entries, e.script = some s) := by
  cases t with
  | mapscripts m => simp [topBlocks, mem_mapScriptsBlocks]
  | script s' => simp [topBlocks, eq_comm]
  | _ => simp [topBlocks]

theorem mem_topsBlocks {o : Opts} {s : Script} : ∀ {tops : List Top} {i : Nat},
    Block.code s ∈ topsBlocks o tops i ↔ ∃ t ∈ tops, Block.code s ∈ topBlocks o t := by
  intro tops
  induction tops with
  | nil => intro i; simp [topsBlocks]
  | cons t r ih =>
    intro i
    rw [topsBlocks]
    split
    · rename_i ht
      have : Block.code s ∉ topBlocks o t := by cases t <;> simp [isText] at ht; simp [topBlocks]
      simp [ih, this]
    · simp [ih]

/-- **The code blocks of a program are exactly its scripts** (`C01d.ScriptOf`: `script` statements and the
inline scripts of `mapscripts` statements, table entries included). -/
theorem mem_progBlocks {o : Opts} {s : Script} {p : Program} :
    Block.code s ∈ progBlocks o p ↔ C01d.ScriptOf p s := by
  simp only [progBlocks, List.mem_append, List.mem_singleton, reduceCtorEq, or_false, mem_topsBlocks,
    mem_topBlocks, C01d.ScriptOf]
  constructor
  · rintro ⟨t, ht, h | ⟨m, hm, h⟩⟩
    · exact .inl (h ▸ ht)
    · exact .inr ⟨m, hm ▸ ht, h⟩
  · rintro (h | ⟨m, hm, h⟩)
    · exact ⟨_, h, .inl rfl⟩
    · exact ⟨_, hm, .inr ⟨m, rfl, h⟩⟩

/-! ### success and first error of `assemble` -/

theorem assemble_congr_f {f g : Script → Except EFail (List Line)} : ∀ {bs : List Block},
    (∀ s, Block.code s ∈ bs → f s = g s) → assemble f bs = assemble g bs := by
  intro bs
  induction bs with
  | nil => intro _; rfl
  | cons b r ih =>
    intro h
    have ih' := ih (fun s hs => h s (List.mem_cons_of_mem _ hs))
    cases b with
    | data ls => simp only [assemble, ih']
    | code s => simp only [assemble, ih', h s List.mem_cons_self]

theorem assemble_ok_iff {f : Script → Except EFail (List Line)} : ∀ {bs : List Block},
    (∃ ls, assemble f bs = .ok ls) ↔ ∀ s, Block.code s ∈ bs → ∃ ls, f s = .ok ls := by
  intro bs
  induction bs with
  | nil => simp [assemble]
  | cons b r ih =>
    cases b with
    | data ls =>
      simp only [assemble, List.mem_cons, reduceCtorEq, false_or, ← ih]
      cases assemble f r <;> simp [seq2]
    | code s =>
      simp only [assemble, List.mem_cons, Block.code.injEq, forall_eq_or_imp, ← ih]
      cases f s <;> cases assemble f r <;> simp [seq2]

/-- If `f` and `g` succeed on the same scripts, two failing assemblies fail ON THE SAME SCRIPT (the first
one, in output order, on which they fail). -/
theorem assemble_errors {f g : Script → Except EFail (List Line)}
    (hfg : ∀ s, (∃ ls, f s = .ok ls) ↔ ∃ ls, g s = .ok ls) : ∀ {bs : List Block} {e₁ e₂ : EFail},
    assemble f bs = .error e₁ → assemble g bs = .error e₂ →
      ∃ s, Block.code s ∈ bs ∧ f s = .error e₁ ∧ g s = .error e₂ := by
  intro bs
  induction bs with
  | nil => intro e₁ e₂ h; simp [assemble] at h
  | cons b r ih =>
    intro e₁ e₂ h₁ h₂
    cases b with
    | data ls =>
      simp only [assemble] at h₁ h₂
      cases hf : assemble f r with
      | ok a => rw [hf] at h₁; simp [seq2] at h₁
      | error a =>
        cases hg : assemble g r with
        | ok b => rw [hg] at h₂; simp [seq2] at h₂
        | error b =>
          rw [hf] at h₁; rw [hg] at h₂
          simp only [seq2, Except.error.injEq] at h₁ h₂
          subst h₁; subst h₂
          obtain ⟨s, hs, h⟩ := ih hf hg
          exact ⟨s, List.mem_cons_of_mem _ hs, h⟩
    | code s =>
      simp only [assemble] at h₁ h₂
      cases hf : f s with
      | error a =>
        cases hg : g s with
        | error b =>
          rw [hf] at h₁; rw [hg] at h₂
          simp only [seq2, Except.error.injEq] at h₁ h₂
          subst h₁; subst h₂
          exact ⟨s, List.mem_cons_self, hf, hg⟩
        | ok b =>
          obtain ⟨x, hx⟩ := (hfg s).2 ⟨b, hg⟩
          rw [hf] at hx; cases hx
      | ok a =>
        cases hg : g s with
        | error b =>
          obtain ⟨x, hx⟩ := (hfg s).1 ⟨a, hf⟩
          rw [hg] at hx; cases hx
        | ok b =>
          rw [hf] at h₁; rw [hg] at h₂
          cases hf' : assemble f r with
          | ok a' => rw [hf'] at h₁; simp [seq2] at h₁
          | error a' =>
            cases hg' : assemble g r with
            | ok b' => rw [hg'] at h₂; simp [seq2] at h₂
            | error b' =>
              rw [hf'] at h₁; rw [hg'] at h₂
              simp only [seq2, Except.error.injEq] at h₁ h₂
              subst h₁; subst h₂
              obtain ⟨s', hs', h⟩ := ih hf' hg'
              exact ⟨s', List.mem_cons_of_mem _ hs', h⟩

/-! ### the first error of `renderBodies` / `renderChunks` / `emitScript` -/

/-- the error of a result, if any -/
def errOf {α : Type} : Except EFail α → Option EFail
  | .error e => some e
  | .ok _ => none

theorem errOf_eq_none {α : Type} {r : Except EFail α} : errOf r = none ↔ ∃ a, r = .ok a := by
  cases r <;> simp [errOf]

theorem errOf_eq_some {α : Type} {r : Except EFail α} {e : EFail} : errOf r = some e ↔ r = .error e := by
  cases r <;> simp [errOf]

/-- the error (if any) of rendering the statements of chunk `id` -/
def chunkErr (o : Opts) (ps : List ((Nat × Nat) × String)) (cl tl : List String) (chunks : List Chunk)
    (id : Nat) : Option EFail :=
  match findChunk chunks id with
  | none => some (.panic "nil chunk dereference in renderChunks")
  | some c => errOf (renderStatements o ps cl tl c.statements)

theorem chunkErr_congr {o₁ o₂ : Opts} (hl : o₁.lineMarkers = o₂.lineMarkers)
    (hp : o₁.inputPath = o₂.inputPath) (ps : List ((Nat × Nat) × String)) (cl tl : List String)
    (chunks : List Chunk) : chunkErr o₁ ps cl tl chunks = chunkErr o₂ ps cl tl chunks := by
  funext id
  simp only [chunkErr, C05.renderStatements_congr hl hp]

/-- **`renderBodies` fails iff some chunk of the order fails to render, with the error of the FIRST such
chunk of the order.** -/
theorem renderBodies_errOf (o : Opts) (ps : List ((Nat × Nat) × String)) (n : String)
    (chunks : List Chunk) (cl tl : List String) : ∀ order : List Nat,
    errOf (renderBodies o ps n chunks cl tl order) = order.findSome? (chunkErr o ps cl tl chunks) := by
  intro order
  induction order with
  | nil => rfl
  | cons id rest ih =>
    rw [renderBodies, List.findSome?_cons]
    cases hc : findChunk chunks id with
    | none => simp [chunkErr, hc, errOf]
    | some c =>
      simp only [chunkErr, hc]
      cases hs : renderStatements o ps cl tl c.statements with
      | error e => simp [errOf]
      | ok sl =>
        simp only [errOf]
        rw [← ih]
        cases renderBodies o ps n chunks cl tl rest <;> simp [errOf]

theorem renderChunks_errOf (o : Opts) (ps : List ((Nat × Nat) × String)) (chunks : List Chunk)
    (n : String) (g : Bool) (tl : List String) :
    errOf (renderChunks o ps chunks n g tl) =
      match C05.chunkOrder o chunks with
      | .error e => some e
      | .ok order => order.findSome? (chunkErr o ps (chunks.map fun c => chunkLabel n c.id) tl chunks) := by
  rw [C05.renderChunks_eq]
  cases C05.chunkOrder o chunks with
  | error e => rfl
  | ok order =>
    simp only
    rw [← renderBodies_errOf o ps n chunks _ tl order]
    cases renderBodies o ps n chunks (chunks.map fun c => chunkLabel n c.id) tl order <;> simp [errOf]

/-- both chunk orders exist for every table the worklist builds -/
theorem chunkOrder_total (o : Opts) (body : List Stmt) (chunks : List Chunk)
    (hc : scriptChunks body = .ok chunks) : ∃ order, C05.chunkOrder o chunks = .ok order := by
  obtain ⟨hnd, h0⟩ := C05.scriptChunks_ids body chunks hc
  unfold C05.chunkOrder
  split
  · exact optimizeChunkOrder_total chunks hnd h0 (scriptChunks_ids_lt body chunks hc)
  · exact ⟨_, rfl⟩

end Pory.C05e
