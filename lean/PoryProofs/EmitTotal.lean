import PoryProofs.TableFacts
import PoryProofs.MarkerLinesND
import PoryProofs.Properties.C05
/-
Totality of the emitter model (`emitProgram`) — helpers for property C18e.

* `processChunk_fin`, `run_sinv`, `scriptChunks_simple` : every chunk of the table built by `scriptChunks`
  only holds command / label statements (`IsSimple`), and every token of its statements is a token of the
  script body (`C16nd.stmtsToks`), for ANY body (no hypothesis beyond success of `scriptChunks`).
* `scriptChunks_ids_lt` : the ids of the table are exactly `0 … length-1` (dense: `TInv.dense`, bounded:
  `TInv.idle`, distinct: `C05.scriptChunks_ids`).
* `scanUnvisited_find`, `optimizeLoop_total`, `optimizeChunkOrder_total` : on a table whose ids are all below
  its length and contain 0, `optimizeChunkOrder` succeeds — it neither runs out of fuel (the Go loop does
  not spin) nor dereferences a nil chunk.
* `renderStatements_simple`, `renderBodies_total`, `renderChunks_total` : rendering a table of simple chunks
  in an order made of ids of the table succeeds or reports a label clash (`.perr tok msg`, `tok` the token of
  a label statement of a chunk); in particular `.plain "could not render chunk statement …"`, `.panic`
  ("nil chunk dereference in renderChunks") and `.outOfFuel` are unreachable.
* `emitScript_total`, `emitScripts_good`, `emitTables_good`, `emitMapScripts_good`, `emitTops_good`,
  `emitProgram_good` : the same for scripts (under `ScopesWellFormed` and `BoolOpsOK`), map scripts, and
  whole programs.
Nothing is partial.
-/
namespace Pory.Emit
open Pory Pory.Sem

/-! ### the finalised chunk of one worklist step -/

theorem fin_ex {s s1 s2 : WS} {cur : Chunk} {i : Nat} (c : Chunk) (h2 : s2.final = (s1.setFinal c).final)
    (hid : c.id = cur.id) (hst : c.statements = cur.statements.take i) (h : s1.final = s.final) :
    ∃ c : Chunk, c.id = cur.id ∧ c.statements = cur.statements.take i ∧
      s2.final = c :: s.final.filter (·.id != cur.id) := by
  refine ⟨c, hid, hst, ?_⟩
  rw [h2]
  simp [WS.setFinal, h, hid]

/-- What `processChunk` finalises: a chunk with the id of the processed chunk whose statements are the
scanned prefix of the processed chunk's statements. -/
theorem processChunk_fin (cur : Chunk) (s s' : WS) (h : processChunk cur s = .ok s') :
    ∃ c : Chunk, c.id = cur.id ∧
      c.statements = cur.statements.take (scanSimple cur.statements 0 cur.statements.length).1 ∧
      s'.final = c :: s.final.filter (·.id != cur.id) := by
  unfold processChunk at h
  simp only at h
  split at h
  · injection h with h; rw [← h]; exact fin_ex _ rfl rfl rfl rfl
  · split at h
    · rename_i hlen
      injection h with h; rw [← h]
      refine fin_ex cur rfl rfl ?_ rfl
      have : (scanSimple cur.statements 0 cur.statements.length).1 = cur.statements.length := by
        simpa using hlen
      rw [this, List.take_length]
    · split at h
      · -- if
        split at h
        · cases h
        · rename_i s1 br r h1
          injection h with h; rw [← h]
          exact fin_ex _ rfl rfl rfl (C05.createIf_final _ _ _ _ _ _ _ _ _ _ h1)
      · -- while
        split at h
        · cases h
        · rename_i s1 br r k h1
          injection h with h; rw [← h]
          exact fin_ex _ rfl rfl rfl (C05.createWhile_final _ _ _ _ _ _ _ _ _ h1)
      · -- do-while
        split at h
        · cases h
        · rename_i s1 br r k h1
          injection h with h; rw [← h]
          exact fin_ex _ rfl rfl rfl (C05.createDoWhile_final _ _ _ _ _ _ _ _ _ h1)
      · -- break
        split at h
        · cases h
        · injection h with h; rw [← h]
          exact fin_ex _ rfl rfl rfl (C05.keepStatementsAfterJump_final _ _ _)
      · -- continue
        split at h
        · cases h
        · injection h with h; rw [← h]
          exact fin_ex _ rfl rfl rfl (C05.keepStatementsAfterJump_final _ _ _)
      · -- switch
        injection h with h; rw [← h]
        exact fin_ex _ rfl rfl rfl (C05.createSwitch_final _ _ _ _ _)
      · injection h with h; rw [← h]; exact fin_ex _ rfl rfl rfl rfl

/-- … the scanned prefix consists of commands and labels. -/
theorem processChunk_fin_simple (cur : Chunk) (s s' : WS) (h : processChunk cur s = .ok s') :
    ∃ (c : Chunk) (pre rest : List Stmt), cur.statements = pre ++ rest ∧ (∀ x ∈ pre, IsSimple x) ∧
      c.statements = pre ∧ s'.final = c :: s.final.filter (·.id != cur.id) := by
  obtain ⟨c, _, hst, hf⟩ := processChunk_fin cur s s' h
  obtain ⟨pre, rest, h1, h2, h3, _⟩ := scan_facts cur _ _ rfl
  refine ⟨c, pre, rest, h1, h2, ?_, hf⟩
  rw [hst, h3]
  conv => lhs; rw [h1]
  simp

/-! ### tokens of the statements of the chunks -/

/-- every token of the statements satisfies `P` -/
def TOK (P : Tok → Prop) (ss : List Stmt) : Prop := ∀ t ∈ C16nd.stmtsToks ss, P t

theorem mem_elifsToks {t : Tok} {b : List Stmt} : ∀ {es : List (BoolExpr × List Stmt)},
    b ∈ es.map (·.2) → t ∈ C16nd.stmtsToks b → t ∈ C16nd.elifsToks es
  | [], h, _ => by simp at h
  | (c, b') :: r, h, ht => by
    simp only [List.map_cons, List.mem_cons] at h
    simp only [C16nd.elifsToks, List.mem_append]
    rcases h with h | h
    · subst h; exact .inl (.inr ht)
    · exact .inr (mem_elifsToks h ht)

theorem mem_casesToks {t : Tok} {b : List Stmt} : ∀ {cs : List SwitchCase},
    b ∈ cs.map (·.2.2) → t ∈ C16nd.stmtsToks b → t ∈ C16nd.casesToks cs
  | [], h, _ => by simp at h
  | (v, d, b') :: r, h, ht => by
    simp only [List.map_cons, List.mem_cons] at h
    simp only [C16nd.casesToks, List.mem_append]
    rcases h with h | h
    · subst h; exact .inr (.inl ht)
    · exact .inr (.inr (mem_casesToks h ht))

/-- a token of a block directly inside a statement is a token of the statement -/
theorem mem_stmtToks_sub {t : Tok} {b : List Stmt} (x : Stmt) (hb : b ∈ subBlocks x)
    (ht : t ∈ C16nd.stmtsToks b) : t ∈ C16nd.stmtToks x := by
  cases x with
  | cmd c => simp [subBlocks] at hb
  | label _ _ _ => simp [subBlocks] at hb
  | brk _ _ => simp [subBlocks] at hb
  | cont _ _ => simp [subBlocks] at hb
  | ite tok c b0 es e =>
    cases e with
    | none =>
      simp only [subBlocks, List.append_nil, List.mem_cons] at hb
      rcases hb with hb | hb
      · subst hb; exact C16nd.mem_ite_body ht
      · exact C16nd.mem_ite_elifs (mem_elifsToks hb ht)
    | some l =>
      simp only [subBlocks, List.mem_cons, List.mem_append] at hb
      rcases hb with hb | hb | hb
      · subst hb; exact C16nd.mem_ite_body ht
      · exact C16nd.mem_ite_elifs (mem_elifsToks hb ht)
      · simp at hb
        subst hb; exact C16nd.mem_ite_else ht
  | while_ tok sid c b0 =>
    simp only [subBlocks, List.mem_singleton] at hb
    subst hb; exact C16nd.mem_while_body ht
  | doWhile tok sid c b0 =>
    simp only [subBlocks, List.mem_singleton] at hb
    subst hb
    simp [C16nd.stmtToks, ht]
  | switch_ tok sid op cs =>
    simp only [subBlocks] at hb
    simp only [C16nd.stmtToks, List.mem_cons]
    exact .inr (mem_casesToks hb ht)

theorem hereditary_tok (P : Tok → Prop) : Hereditary (TOK P) := by
  refine ⟨?_, ?_, ?_⟩
  · intro t ht; simp [C16nd.stmtsToks] at ht
  · intro pre x r h t ht
    apply h
    rw [C16nd.stmtsToks_append]
    simp only [C16nd.stmtsToks, List.mem_append]
    exact .inr (.inr ht)
  · intro pre x r b h hb t ht
    apply h
    rw [C16nd.stmtsToks_append]
    simp only [C16nd.stmtsToks, List.mem_append]
    exact .inr (.inl (mem_stmtToks_sub x hb ht))

theorem TOK.prefix {P : Tok → Prop} {pre rest : List Stmt} (h : TOK P (pre ++ rest)) : TOK P pre := by
  intro t ht
  apply h
  rw [C16nd.stmtsToks_append]
  exact List.mem_append_left _ ht

/-- the token of a label statement is a token of the statement list -/
theorem label_mem_stmtsToks {tok : Tok} {name : String} {g : Bool} : ∀ {ss : List Stmt},
    Stmt.label tok name g ∈ ss → tok ∈ C16nd.stmtsToks ss
  | [], h => by simp at h
  | x :: r, h => by
    simp only [List.mem_cons] at h
    simp only [C16nd.stmtsToks, List.mem_append]
    rcases h with h | h
    · subst h; exact .inl (by simp [C16nd.stmtToks])
    · exact .inr (label_mem_stmtsToks h)

/-- invariant of the worklist: queued chunks are well formed and only carry tokens satisfying `P`;
finalised chunks only hold commands and labels, with tokens satisfying `P` -/
structure SInv (P : Tok → Prop) (st : WS) : Prop where
  queue : ∀ p ∈ st.queue, QOK p ∧ TOK P p.statements
  final : ∀ c ∈ st.final, (∀ x ∈ c.statements, IsSimple x) ∧ TOK P c.statements

theorem run_sinv (P : Tok → Prop) : ∀ (f : Nat) (st st' : WS), runWorklist f st = .ok st' →
    SInv P st → SInv P st' := by
  intro f
  induction f with
  | zero => intro st st' h; simp [runWorklist] at h
  | succ f ih =>
    intro st st' h hinv
    rw [runWorklist_succ] at h
    cases hq : st.queue with
    | nil =>
      simp only [hq] at h
      injection h with h; subst h
      exact hinv
    | cons p q =>
      simp only [hq] at h
      cases hp : processChunk p { st with queue := q } with
      | error e => simp [hp] at h
      | ok st1 =>
        simp only [hp] at h
        obtain ⟨hpq, hpl⟩ := hinv.queue p (by simp [hq])
        obtain ⟨nw, ch, sc, so⟩ := process_spec p _ st1 hpq hp
        obtain ⟨c, pre, rest, hst, hsim, hcs, hfin⟩ := processChunk_fin_simple p _ st1 hp
        refine ih st1 st' h ⟨?_, ?_⟩
        · intro x hx
          rw [so.queue_eq] at hx
          simp only [List.mem_append] at hx
          rcases hx with hx | hx
          · exact hinv.queue x (by simp [hq, hx])
          · refine ⟨so.nw_qok x hx, ?_⟩
            rcases so.nw_stmts x hx with he | ⟨pre', y, r, hst', hr⟩
            · rw [he]; exact (hereditary_tok P).nil
            · rw [hst'] at hpl
              rcases hr with hr | ⟨hr, _⟩
              · rw [hr]; exact (hereditary_tok P).tail pre' y r hpl
              · exact (hereditary_tok P).sub pre' y r _ hpl hr
        · intro x hx
          rw [hfin] at hx
          simp only [List.mem_cons] at hx
          rcases hx with hx | hx
          · subst hx
            rw [hcs]
            rw [hst] at hpl
            exact ⟨hsim, hpl.prefix⟩
          · exact hinv.final x (List.mem_filter.1 hx).1

/-- **Chunks of an emitter-built table only hold commands and labels**, and every token of their
statements is a token of the script body.  No hypothesis beyond the success of `scriptChunks`. -/
theorem scriptChunks_simple (body : List Stmt) (chunks : List Chunk) (h : scriptChunks body = .ok chunks) :
    ∀ c ∈ chunks, (∀ x ∈ c.statements, IsSimple x) ∧ ∀ t ∈ C16nd.stmtsToks c.statements, t ∈ C16nd.stmtsToks body := by
  unfold scriptChunks at h
  split at h
  · cases h
  · rename_i st hrun
    injection h with h; subst h
    have hinit : SInv (· ∈ C16nd.stmtsToks body) (initWS body) := by
      refine ⟨?_, ?_⟩
      · intro p hp
        simp only [initWS, List.mem_singleton] at hp; subst hp
        exact ⟨IsCode.qok ⟨rfl, rfl⟩, fun t ht => ht⟩
      · intro c hc; simp [initWS] at hc
    exact (run_sinv _ _ (initWS body) st hrun hinit).final

/-! ### the ids of the table are `0 … length - 1` -/

theorem scriptChunks_ids_lt (body : List Stmt) (chunks : List Chunk) (h : scriptChunks body = .ok chunks) :
    ∀ x ∈ chunks.map (·.id), x < chunks.length := by
  obtain ⟨hnd, h0⟩ := C05.scriptChunks_ids body chunks h
  obtain ⟨st, hinv, hq, rfl⟩ := scriptChunks_tinv body _ h
  have hids : ids st = st.final.map (·.id) := by simp [ids, hq]
  have hperm : (st.final.map (·.id)).Perm (List.range (st.counter + 1)) := by
    rw [List.perm_ext_iff_of_nodup hnd List.nodup_range]
    intro a
    rw [List.mem_range]
    constructor
    · intro ha
      obtain ⟨c, hc, rfl⟩ := List.mem_map.1 ha
      have := hinv.idle c (by simp [allC, hc])
      omega
    · intro ha
      by_cases h1 : a = 0
      · subst h1; exact h0
      · have := hinv.dense a (by omega) (by omega)
        rwa [hids] at this
  have hlen := hperm.length_eq
  simp only [List.length_map, List.length_range] at hlen
  intro x hx
  have := (hperm.mem_iff).1 hx
  rw [List.mem_range] at this
  omega

/-! ### `optimizeChunkOrder` succeeds -/

theorem scanUnvisited_find (u : List Nat) (total : Nat) :
    ∀ (n i x : Nat), x ∈ u → i ≤ x → x < total → x - i < n →
      ∃ j, scanUnvisited u total n i = (some j, j) ∧ j ∈ u ∧ i ≤ j ∧ ∀ y ∈ u, i ≤ y → j ≤ y := by
  intro n
  induction n with
  | zero => intro i x _ _ _ h; omega
  | succ n ih =>
    intro i x hx hix hxt hn
    rw [scanUnvisited]
    rw [if_pos (by omega)]
    by_cases hc : u.contains i = true
    · rw [if_pos hc]
      exact ⟨i, rfl, by simpa using hc, Nat.le_refl _, fun y _ hy => hy⟩
    · rw [if_neg hc]
      have hni : i ∉ u := by simpa using hc
      have hne : i ≠ x := fun e => hni (e ▸ hx)
      obtain ⟨j, hj, hju, hij, hmin⟩ := ih (i + 1) x hx (by omega) hxt (by omega)
      refine ⟨j, hj, hju, by omega, ?_⟩
      intro y hy hiy
      have : i ≠ y := fun e => hni (e ▸ hy)
      exact hmin y hy (by omega)

theorem findChunk_of_mem (chunks : List Chunk) (id : Nat) (h : id ∈ chunks.map (·.id)) :
    ∃ c, findChunk chunks id = some c ∧ c ∈ chunks := by
  obtain ⟨c, hc, hid⟩ := List.mem_map.1 h
  have : (findChunk chunks id).isSome = true := by
    unfold findChunk
    rw [List.find?_isSome]
    exact ⟨c, hc, by simp [hid]⟩
  cases hf : findChunk chunks id with
  | none => rw [hf] at this; cases this
  | some c' => exact ⟨c', rfl, List.mem_of_find?_eq_some hf⟩

theorem optimizeLoop_total (chunks : List Chunk) (total : Nat)
    (hT : (chunks.map (·.id)).length = total) (hlt : ∀ x ∈ chunks.map (·.id), x < total) :
    ∀ (n : Nat) (order unv : List Nat) (i : Nat), C05.Inv (chunks.map (·.id)) order unv →
      (∀ y ∈ unv, i ≤ y) → total + 1 ≤ n + order.length →
      ∃ res, optimizeLoop chunks total n order unv i = .ok res := by
  intro n
  induction n with
  | zero =>
    intro order unv i hinv _ hf
    have := hinv.1.length_eq
    rw [List.length_append, hT] at this
    omega
  | succ n ih =>
    intro order unv i hinv hunv hf
    have hlen := hinv.1.length_eq
    rw [List.length_append, hT] at hlen
    have hpick : order.length < total →
        ∃ res, optimizeLoop.pick chunks total n order unv i = .ok res := by
      intro hlt'
      rw [optimizeLoop.pick]
      cases unv with
      | nil => rw [List.length_nil] at hlen; omega
      | cons x r =>
        have hx : x ∈ chunks.map (·.id) := (hinv.1.mem_iff).1 (by simp)
        have hxt := hlt x hx
        obtain ⟨j, hj, hju, hij, hmin⟩ := scanUnvisited_find (x :: r) total
          (total + 1) i x (List.mem_cons_self) (hunv x (List.mem_cons_self)) hxt (by omega)
        rw [hj]
        simp only
        refine ih _ _ _ (hinv.step hju) ?_ (by rw [List.length_append, List.length_singleton]; omega)
        intro y hy
        have hy' := List.mem_of_mem_erase hy
        exact hmin y hy' (hunv y hy')
    rw [optimizeLoop]
    split
    · rename_i hlt'
      cases hl : order.getLast? with
      | none =>
        rw [List.getLast?_eq_none_iff] at hl
        subst hl
        have := hinv.2
        simp at this
      | some last =>
        simp only
        have hlast : last ∈ chunks.map (·.id) :=
          (hinv.1.mem_iff).1 (List.mem_append_left _ (List.mem_of_getLast? hl))
        obtain ⟨cur, hcur, _⟩ := findChunk_of_mem chunks last hlast
        rw [hcur]
        simp only
        cases ht : tailId cur with
        | none => simp only; exact hpick hlt'
        | some nx =>
          simp only
          split
          · rename_i hc
            refine ih _ _ _ (hinv.step (by simpa using hc)) ?_
              (by rw [List.length_append, List.length_singleton]; omega)
            intro y hy
            exact hunv y (List.mem_of_mem_erase hy)
          · exact hpick hlt'
    · exact ⟨order, rfl⟩

/-- **`optimizeChunkOrder` is total** on a table whose ids are below its length and contain 0: no
`.outOfFuel` (the Go loop does not spin), no nil chunk. -/
theorem optimizeChunkOrder_total (chunks : List Chunk) (hnd : (chunks.map (·.id)).Nodup)
    (h0 : 0 ∈ chunks.map (·.id)) (hlt : ∀ x ∈ chunks.map (·.id), x < chunks.length) :
    ∃ order, optimizeChunkOrder chunks = .ok order := by
  unfold optimizeChunkOrder
  split
  · exact ⟨[], rfl⟩
  · simp only
    refine optimizeLoop_total chunks chunks.length (by simp) hlt _ _ _ _ ⟨?_, rfl⟩ ?_
      (by rw [List.length_singleton]; omega)
    · exact (List.perm_cons_erase h0).symm
    · intro y hy
      have hy' := (hnd.mem_erase_iff).1 hy
      have := hy'.1
      omega

/-! ### rendering -/

/-- the two label-clash messages of `renderStatements` -/
def ClashMsg (msg : String) : Prop := ∃ name : String,
  msg = s!"duplicate script label '{name}'. Choose a unique label that won't clash with the auto-generated script labels" ∨
  msg = s!"duplicate text label '{name}'. Choose a unique label that won't clash with the auto-generated text labels"

/-- The result is a success or a label clash reported on a token satisfying `T` — in particular
not `.plain`, not `.outOfFuel`, not `.panic`. -/
def Good {α : Type} (T : Tok → Prop) (r : Except EFail α) : Prop :=
  (∃ a, r = .ok a) ∨ ∃ tok msg, r = .error (.perr tok msg) ∧ T tok ∧ ClashMsg msg

theorem Good.mono {α : Type} {T T' : Tok → Prop} {r : Except EFail α} (h : Good T r)
    (hT : ∀ t, T t → T' t) : Good T' r := by
  rcases h with h | ⟨tok, msg, h, ht, hm⟩
  · exact .inl h
  · exact .inr ⟨tok, msg, h, hT tok ht, hm⟩

theorem Good.not_plain {α : Type} {T : Tok → Prop} {r : Except EFail α} (h : Good T r) (m : String) :
    r ≠ .error (.plain m) := by
  rcases h with ⟨a, h⟩ | ⟨tok, msg, h, _⟩ <;> (rw [h]; intro e; cases e)

theorem Good.not_outOfFuel {α : Type} {T : Tok → Prop} {r : Except EFail α} (h : Good T r) :
    r ≠ .error .outOfFuel := by
  rcases h with ⟨a, h⟩ | ⟨tok, msg, h, _⟩ <;> (rw [h]; intro e; cases e)

theorem Good.not_panic {α : Type} {T : Tok → Prop} {r : Except EFail α} (h : Good T r) (w : String) :
    r ≠ .error (.panic w) := by
  rcases h with ⟨a, h⟩ | ⟨tok, msg, h, _⟩ <;> (rw [h]; intro e; cases e)

/-- **`renderStatements` on commands and labels** succeeds or reports a clash on the token of one of
the label statements; the error "could not render chunk statement because it is not a command or
label statement" needs a statement that is neither. -/
theorem renderStatements_simple (o : Opts) (ps : List ((Nat × Nat) × String)) (cl tl : List String) :
    ∀ (ss : List Stmt), (∀ x ∈ ss, IsSimple x) →
      Good (fun tok => ∃ name g, Stmt.label tok name g ∈ ss) (renderStatements o ps cl tl ss) := by
  intro ss
  induction ss with
  | nil => intro _; exact .inl ⟨[], rfl⟩
  | cons x r ih =>
    intro hs
    have ih' := ih (fun y hy => hs y (List.mem_cons_of_mem _ hy))
    have lift : ∀ {α : Type} {q : Except EFail α},
        Good (fun tok => ∃ name g, Stmt.label tok name g ∈ r) q →
        Good (fun tok => ∃ name g, Stmt.label tok name g ∈ x :: r) q := fun h =>
      h.mono (fun t ⟨name, g, hm⟩ => ⟨name, g, List.mem_cons_of_mem _ hm⟩)
    cases x with
    | cmd c =>
      rw [renderStatements]
      rcases ih' with ⟨ls, h⟩ | ⟨tok, msg, h, ht, hm⟩
      · rw [h]; exact .inl ⟨_, rfl⟩
      · rw [h]; exact lift (.inr ⟨tok, msg, rfl, ht, hm⟩)
    | label tok name g =>
      rw [renderStatements]
      split
      · exact .inr ⟨tok, _, rfl, ⟨name, g, List.mem_cons_self⟩, ⟨name, .inl rfl⟩⟩
      · split
        · exact .inr ⟨tok, _, rfl, ⟨name, g, List.mem_cons_self⟩, ⟨name, .inr rfl⟩⟩
        · rcases ih' with ⟨ls, h⟩ | ⟨tok', msg, h, ht, hm⟩
          · rw [h]; exact .inl ⟨_, rfl⟩
          · rw [h]; exact lift (.inr ⟨tok', msg, rfl, ht, hm⟩)
    | ite _ _ _ _ _ => exact absurd (hs _ List.mem_cons_self) (by simp [IsSimple])
    | while_ _ _ _ _ => exact absurd (hs _ List.mem_cons_self) (by simp [IsSimple])
    | doWhile _ _ _ _ => exact absurd (hs _ List.mem_cons_self) (by simp [IsSimple])
    | brk _ _ => exact absurd (hs _ List.mem_cons_self) (by simp [IsSimple])
    | cont _ _ => exact absurd (hs _ List.mem_cons_self) (by simp [IsSimple])
    | switch_ _ _ _ _ => exact absurd (hs _ List.mem_cons_self) (by simp [IsSimple])

/-- the token is the token of a label statement of a chunk of the table -/
def ChunkLabelTok (chunks : List Chunk) (tok : Tok) : Prop :=
  ∃ c ∈ chunks, ∃ name g, Stmt.label tok name g ∈ c.statements

/-- **`renderBodies` on a table of simple chunks, in an order made of ids of the table**: no nil chunk,
no `.plain` error. -/
theorem renderBodies_total (o : Opts) (ps : List ((Nat × Nat) × String)) (n : String) (chunks : List Chunk)
    (cl tl : List String) (hsim : ∀ c ∈ chunks, ∀ x ∈ c.statements, IsSimple x) :
    ∀ (order : List Nat), (∀ id ∈ order, id ∈ chunks.map (·.id)) →
      Good (ChunkLabelTok chunks) (renderBodies o ps n chunks cl tl order) := by
  intro order
  induction order with
  | nil => intro _; exact .inl ⟨_, rfl⟩
  | cons id rest ih =>
    intro hord
    have ih' := ih (fun y hy => hord y (List.mem_cons_of_mem _ hy))
    obtain ⟨c, hc, hcm⟩ := findChunk_of_mem chunks id (hord id List.mem_cons_self)
    rw [renderBodies, hc]
    simp only
    rcases renderStatements_simple o ps cl tl c.statements (hsim c hcm) with
      ⟨ls, h⟩ | ⟨tok, msg, h, ⟨name, g, hm⟩, hmsg⟩
    · rw [h]
      simp only
      rcases ih' with ⟨a, h2⟩ | ⟨tok, msg, h2, ht, hmsg⟩
      · rw [h2]; exact .inl ⟨_, rfl⟩
      · rw [h2]; exact .inr ⟨tok, msg, rfl, ht, hmsg⟩
    · rw [h]
      exact .inr ⟨tok, msg, rfl, ⟨c, hcm, name, g, hm⟩, hmsg⟩

/-- **`renderChunks` is total** on a table of simple chunks with distinct ids `0 … length-1`, for both
chunk orders. -/
theorem renderChunks_total (o : Opts) (ps : List ((Nat × Nat) × String)) (chunks : List Chunk)
    (n : String) (g : Bool) (tl : List String) (hnd : (chunks.map (·.id)).Nodup)
    (h0 : 0 ∈ chunks.map (·.id)) (hlt : ∀ x ∈ chunks.map (·.id), x < chunks.length)
    (hsim : ∀ c ∈ chunks, ∀ x ∈ c.statements, IsSimple x) :
    Good (ChunkLabelTok chunks) (renderChunks o ps chunks n g tl) := by
  rw [C05.renderChunks_eq]
  have hord : ∃ order, C05.chunkOrder o chunks = .ok order := by
    unfold C05.chunkOrder
    split
    · exact optimizeChunkOrder_total chunks hnd h0 hlt
    · exact ⟨_, rfl⟩
  obtain ⟨order, ho⟩ := hord
  rw [ho]
  simp only
  have hp := (C05.chunkOrder_perm o chunks order h0 ho).1
  rcases renderBodies_total o ps n chunks (chunks.map fun c => chunkLabel n c.id) tl hsim order
      (fun id hid => (hp.mem_iff).1 hid) with ⟨a, h⟩ | ⟨tok, msg, h, ht, hmsg⟩
  · rw [h]; exact .inl ⟨_, rfl⟩
  · rw [h]; exact .inr ⟨tok, msg, rfl, ht, hmsg⟩

/-- **`emitScript` is total** on a well-scoped body whose conditions only use `&&` / `||`: it succeeds or
reports a label clash on a token of the body (the token of a label statement). -/
theorem emitScript_total (o : Opts) (ps : List ((Nat × Nat) × String)) (tl : List String) (s : Script)
    (hw : ScopesWellFormed s.body) (hb : BoolOpsOK s.body) :
    Good (· ∈ C16nd.stmtsToks s.body) (emitScript o ps tl s) := by
  obtain ⟨chunks, hc⟩ := scriptChunks_total s.body hw hb
  unfold emitScript
  rw [hc]
  simp only
  obtain ⟨hnd, h0⟩ := C05.scriptChunks_ids s.body chunks hc
  have hs := scriptChunks_simple s.body chunks hc
  refine (renderChunks_total o ps chunks s.name _ tl hnd h0 (scriptChunks_ids_lt s.body chunks hc)
    (fun c hcm => (hs c hcm).1)).mono ?_
  intro t ⟨c, hcm, name, g, hm⟩
  exact (hs c hcm).2 t (label_mem_stmtsToks hm)

/-! ### scripts, map scripts, programs -/

/-- the parser's guarantees for one script, and its tokens satisfy `T` -/
def ScriptHyp (T : Tok → Prop) (s : Script) : Prop :=
  ScopesWellFormed s.body ∧ BoolOpsOK s.body ∧ ∀ t ∈ C16nd.stmtsToks s.body, T t

theorem emitScript_good {T : Tok → Prop} (o : Opts) (ps : List ((Nat × Nat) × String)) (tl : List String)
    (s : Script) (h : ScriptHyp T s) : Good T (emitScript o ps tl s) :=
  (emitScript_total o ps tl s h.1 h.2.1).mono h.2.2

theorem emitScripts_good {T : Tok → Prop} (o : Opts) (ps : List ((Nat × Nat) × String)) (tl : List String) :
    ∀ (l : List (Option Script)), (∀ s, some s ∈ l → ScriptHyp T s) → Good T (emitScripts o ps tl l) := by
  intro l
  induction l with
  | nil => intro _; exact .inl ⟨_, rfl⟩
  | cons x r ih =>
    intro h
    have ih' := ih (fun s hs => h s (List.mem_cons_of_mem _ hs))
    cases x with
    | none => rw [emitScripts]; exact ih'
    | some s =>
      rw [emitScripts]
      rcases emitScript_good o ps tl s (h s List.mem_cons_self) with ⟨a, h1⟩ | ⟨tok, msg, h1, ht, hm⟩
      · rw [h1]
        simp only
        rcases ih' with ⟨b, h2⟩ | ⟨tok, msg, h2, ht, hm⟩
        · rw [h2]; exact .inl ⟨_, rfl⟩
        · rw [h2]; exact .inr ⟨tok, msg, rfl, ht, hm⟩
      · rw [h1]; exact .inr ⟨tok, msg, rfl, ht, hm⟩

theorem emitTables_good {T : Tok → Prop} (o : Opts) (ps : List ((Nat × Nat) × String)) (tl : List String) :
    ∀ (l : List TableMapScript), (∀ t ∈ l, ∀ e ∈ t.entries, ∀ s, e.script = some s → ScriptHyp T s) →
      Good T (emitTables o ps tl l) := by
  intro l
  induction l with
  | nil => intro _; exact .inl ⟨_, rfl⟩
  | cons t r ih =>
    intro h
    have ih' := ih (fun t' ht' => h t' (List.mem_cons_of_mem _ ht'))
    rw [emitTables]
    have hs : Good T (emitScripts o ps tl (t.entries.map (·.script))) := by
      apply emitScripts_good
      intro s hs
      obtain ⟨e, he, hes⟩ := List.mem_map.1 hs
      exact h t List.mem_cons_self e he s hes
    rcases hs with ⟨a, h1⟩ | ⟨tok, msg, h1, ht, hm⟩
    · rw [h1]
      simp only
      rcases ih' with ⟨b, h2⟩ | ⟨tok, msg, h2, ht, hm⟩
      · rw [h2]; exact .inl ⟨_, rfl⟩
      · rw [h2]; exact .inr ⟨tok, msg, rfl, ht, hm⟩
    · rw [h1]; exact .inr ⟨tok, msg, rfl, ht, hm⟩

/-- the parser's guarantees for the inline scripts of a `mapscripts` statement -/
def MapScriptsHyp (T : Tok → Prop) (m : MapScripts) : Prop :=
  (∀ ms ∈ m.mapScripts, ∀ s, ms.script = some s → ScriptHyp T s) ∧
  (∀ t ∈ m.tables, ∀ e ∈ t.entries, ∀ s, e.script = some s → ScriptHyp T s)

theorem emitMapScripts_good {T : Tok → Prop} (o : Opts) (ps : List ((Nat × Nat) × String)) (tl : List String)
    (m : MapScripts) (h : MapScriptsHyp T m) : Good T (emitMapScripts o ps tl m) := by
  unfold emitMapScripts
  simp only
  have hs : Good T (emitScripts o ps tl (m.mapScripts.map (·.script))) := by
    apply emitScripts_good
    intro s hs
    obtain ⟨e, he, hes⟩ := List.mem_map.1 hs
    exact h.1 e he s hes
  rcases hs with ⟨a, h1⟩ | ⟨tok, msg, h1, ht, hm⟩
  · rw [h1]
    simp only
    rcases emitTables_good o ps tl m.tables h.2 with ⟨b, h2⟩ | ⟨tok, msg, h2, ht, hm⟩
    · rw [h2]; exact .inl ⟨_, rfl⟩
    · rw [h2]; exact .inr ⟨tok, msg, rfl, ht, hm⟩
  · rw [h1]; exact .inr ⟨tok, msg, rfl, ht, hm⟩

/-- the parser's guarantees for one top-level statement -/
def TopHyp (T : Tok → Prop) : Top → Prop
  | .script s => ScriptHyp T s
  | .mapscripts m => MapScriptsHyp T m
  | _ => True

theorem emitTops_good {T : Tok → Prop} (o : Opts) (ps : List ((Nat × Nat) × String)) (tl : List String) :
    ∀ (l : List Top) (i : Nat), (∀ t ∈ l, TopHyp T t) → Good T (emitTops o ps tl l i) := by
  intro l
  induction l with
  | nil => intro i _; exact .inl ⟨_, rfl⟩
  | cons t r ih =>
    intro i h
    have ih' := fun j => ih j (fun t' ht' => h t' (List.mem_cons_of_mem _ ht'))
    have fin : ∀ (this : Except EFail (List Line)), Good T this →
        Good T (match this with
          | .error e => .error e
          | .ok ls =>
            match emitTops o ps tl r (i + 1) with
            | .error e => .error e
            | .ok (ls', n) => .ok ((if i > 0 then [Line.blank] else []) ++ ls ++ ls', n)) := by
      intro this hg
      rcases hg with ⟨a, h1⟩ | ⟨tok, msg, h1, ht, hm⟩
      · rw [h1]
        simp only
        rcases ih' (i + 1) with ⟨b, h2⟩ | ⟨tok, msg, h2, ht, hm⟩
        · rw [h2]; exact .inl ⟨_, rfl⟩
        · rw [h2]; exact .inr ⟨tok, msg, rfl, ht, hm⟩
      · rw [h1]; exact .inr ⟨tok, msg, rfl, ht, hm⟩
    cases t with
    | text x => rw [emitTops]; exact ih' i
    | script s => rw [emitTops]; exact fin _ (emitScript_good o ps tl s (h _ List.mem_cons_self))
    | mapscripts m => rw [emitTops]; exact fin _ (emitMapScripts_good o ps tl m (h _ List.mem_cons_self))
    | raw a b c => rw [emitTops]; exact fin _ (.inl ⟨_, rfl⟩)
    | movement m => rw [emitTops]; exact fin _ (.inl ⟨_, rfl⟩)
    | mart a b c d e => rw [emitTops]; exact fin _ (.inl ⟨_, rfl⟩)
    all_goals (intro x hx; cases hx)

/-- **`emitProgram` is total** on every program whose scripts (top-level and inline map scripts) satisfy the
parser's guarantees: the result is `.ok ls` or a label clash `.error (.perr tok msg)` reported on a token
(satisfying `T`) of a script body — never `.plain`, `.outOfFuel` or `.panic`. -/
theorem emitProgram_good {T : Tok → Prop} (o : Opts) (p : Program) (h : ∀ t ∈ p.tops, TopHyp T t) :
    Good T (emitProgram o p) := by
  unfold emitProgram
  simp only
  rcases emitTops_good o p.patches (p.texts.map (·.name)) p.tops 0 h with ⟨⟨ls, i⟩, h1⟩ | ⟨tok, msg, h1, ht, hm⟩
  · rw [h1]; exact .inl ⟨_, rfl⟩
  · rw [h1]; exact .inr ⟨tok, msg, rfl, ht, hm⟩

/-! ### non-vacuity -/

/-- `demoBody` (Worklist.lean: if / elif / else, while, do…while, switch, break, continue) satisfies the
hypotheses of `emitScript_total`; both chunk orders. -/
example (b : Bool) : Good (· ∈ C16nd.stmtsToks demoBody)
    (emitScript { optimize := b } [] [] { name := "S", body := demoBody }) :=
  emitScript_total _ _ _ { name := "S", body := demoBody } demo_wellFormed demo_boolOps

/-- the table of `demoBody` has 32 chunks with ids below 32, so `optimizeChunkOrder` succeeds on it -/
example : ∃ chunks, scriptChunks demoBody = .ok chunks ∧ ∃ order, optimizeChunkOrder chunks = .ok order := by
  obtain ⟨chunks, h⟩ := scriptChunks_total demoBody demo_wellFormed demo_boolOps
  obtain ⟨hnd, h0⟩ := C05.scriptChunks_ids demoBody chunks h
  exact ⟨chunks, h, optimizeChunkOrder_total chunks hnd h0 (scriptChunks_ids_lt demoBody chunks h)⟩

/-- the hypotheses of `optimizeChunkOrder_total` are needed: on a table whose ids are not `0 … length-1`
the model reports the spinning Go loop -/
example : optimizeChunkOrder [{ id := 0 }, { id := 5 }] = .error .outOfFuel := by
  simp [optimizeChunkOrder, optimizeLoop, optimizeLoop.pick, scanUnvisited, findChunk, tailId]

/-- a label clash: the label `S_1` of the body clashes with the generated label of chunk 1 -/
example : ∃ tok msg, emitScript { optimize := false } [] []
      { name := "S", body := [.ite {} (.leaf {}) [.cmd { name := "a" }] [] none,
                              .label { lit := "S_1", line := 7 } "S_1" false, .cmd { name := "b" }] } =
        .error (.perr tok msg) ∧ tok.line = 7 := ⟨_, _, rfl, rfl⟩

#print axioms scriptChunks_simple
#print axioms scriptChunks_ids_lt
#print axioms optimizeChunkOrder_total
#print axioms renderChunks_total
#print axioms emitScript_total
#print axioms emitProgram_good

end Pory.Emit
