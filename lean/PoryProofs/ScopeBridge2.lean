import PoryProofs.ScopeBridge
import PoryProofs.WorklistTotal
import PoryProofs.Properties.C20b
/-
Bridge, part 2: the static scoping predicate of the source semantics (`Sem.scopedStmts B C l`,
PoryProofs/Scoped.lean — what the parser proof `C20b` establishes) and the scoping predicate of the
worklist-totality proof (`Emit.WFL l B C`, PoryProofs/WorklistTotal.lean) are the same mutual
recursion with the arguments in a different order:

* `scopedStmts_iff_WFL : Sem.scopedStmts B C l ↔ Emit.WFL l B C` (and the variants for statements,
  elif arms and switch cases);
* `wellFormed_of_wellScoped : Sem.WellScoped ⟨body, [], []⟩ → Emit.ScopesWellFormed body`
  (and the converse `wellScoped_of_wellFormed`);
* `wellFormed_of_bodyOK : C20b.BodyOK body → Emit.ScopesWellFormed body`.
Nothing is partial.
-/
namespace Pory.ScopeBridge
open Pory

mutual
theorem scopedStmt_iff_WFS : (s : Stmt) → (B C : List Nat) → (Sem.scopedStmt B C s ↔ Emit.WFS s B C)
  | .cmd _, _, _ => by simp [Sem.scopedStmt, Emit.WFS]
  | .label .., _, _ => by simp [Sem.scopedStmt, Emit.WFS]
  | .ite tok c t elifs els, B, C => by
    rw [Sem.scopedStmt_ite, Emit.wfs_ite, scopedStmts_iff_WFL t B C, scopedElifs_iff_WFE elifs B C]
    exact and_congr_right' (and_congr_right' (match els with
      | none => Iff.rfl
      | some e => scopedStmts_iff_WFL e B C))
  | .while_ _ sid _ b, B, C => by
    simp only [Sem.scopedStmt, Emit.WFS]; exact scopedStmts_iff_WFL b (sid :: B) (sid :: C)
  | .doWhile _ sid _ b, B, C => by
    simp only [Sem.scopedStmt, Emit.WFS]; exact scopedStmts_iff_WFL b (sid :: B) (sid :: C)
  | .brk .., _, _ => by simp [Sem.scopedStmt, Emit.WFS]
  | .cont .., _, _ => by simp [Sem.scopedStmt, Emit.WFS]
  | .switch_ _ sid _ cs, B, C => by
    simp only [Sem.scopedStmt, Emit.WFS]; exact scopedCases_iff_WFC cs (sid :: B) C
theorem scopedStmts_iff_WFL : (l : List Stmt) → (B C : List Nat) → (Sem.scopedStmts B C l ↔ Emit.WFL l B C)
  | [], _, _ => by simp [Sem.scopedStmts, Emit.WFL]
  | s :: r, B, C => by
    rw [Emit.wfl_cons]; simp only [Sem.scopedStmts]
    exact and_congr (scopedStmt_iff_WFS s B C) (scopedStmts_iff_WFL r B C)
theorem scopedElifs_iff_WFE : (l : List (BoolExpr × List Stmt)) → (B C : List Nat) →
    (Sem.scopedElifs B C l ↔ Emit.WFE l B C)
  | [], _, _ => by simp [Sem.scopedElifs, Emit.WFE]
  | (c, b) :: r, B, C => by
    rw [Emit.wfe_cons]; simp only [Sem.scopedElifs]
    exact and_congr (scopedStmts_iff_WFL b B C) (scopedElifs_iff_WFE r B C)
theorem scopedCases_iff_WFC : (l : List SwitchCase) → (B C : List Nat) →
    (Sem.scopedCases B C l ↔ Emit.WFC l B C)
  | [], _, _ => by simp [Sem.scopedCases, Emit.WFC]
  | (v, d, b) :: r, B, C => by
    rw [Emit.wfc_cons]; simp only [Sem.scopedCases]
    exact and_congr (scopedStmts_iff_WFL b B C) (scopedCases_iff_WFC r B C)
end

/-- the semantic scoping hypothesis is the worklist's `ScopesWellFormed` -/
theorem wellFormed_of_wellScoped {body : List Stmt} (h : Sem.WellScoped ⟨body, [], []⟩) :
    Emit.ScopesWellFormed body :=
  (scopedStmts_iff_WFL body [] []).1 h.1

theorem wellScoped_of_wellFormed {body : List Stmt} (h : Emit.ScopesWellFormed body) :
    Sem.WellScoped ⟨body, [], []⟩ :=
  ⟨(scopedStmts_iff_WFL body [] []).2 h, trivial⟩

theorem wellScoped_iff_wellFormed (body : List Stmt) :
    Sem.WellScoped ⟨body, [], []⟩ ↔ Emit.ScopesWellFormed body :=
  ⟨wellFormed_of_wellScoped, wellScoped_of_wellFormed⟩

/-- the parser's guarantee implies the worklist's scoping hypothesis -/
theorem wellFormed_of_bodyOK {body : List Stmt} (h : C20b.BodyOK body) : Emit.ScopesWellFormed body :=
  wellFormed_of_wellScoped h.1

/-- non-vacuity: a loop with a nested switch (`break` of the switch, `continue` of the loop) -/
example : let body : List Stmt :=
    [ .while_ {} 1 none [.switch_ {} 2 {} [({}, false, [.brk {} 2]), ({}, true, [.cont {} 1])]],
      .ite {} (.leaf {}) [.doWhile {} 3 (.leaf {}) [.brk {} 3]] [] none ]
    Sem.WellScoped ⟨body, [], []⟩ ∧ Emit.ScopesWellFormed body := by
  intro body
  have h : Sem.WellScoped ⟨body, [], []⟩ := by
    simp [body, Sem.WellScoped, Sem.scopedStmts, Sem.scopedStmt, Sem.scopedCases, Sem.scopedElifs,
      Sem.brkScopes, Sem.contScopes, Sem.scopedK]
  exact ⟨h, wellFormed_of_wellScoped h⟩

#print axioms scopedStmts_iff_WFL
#print axioms wellFormed_of_bodyOK

end Pory.ScopeBridge
