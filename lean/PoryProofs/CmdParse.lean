import PoryProofs.BoolParseLeaf
/-
Helpers for C10 (parser half): command statements `name`, `name()`, `name(arg, …, arg)`.
Reference syntax: an argument is a non-empty flat token list of plain tokens and parentheses whose
parentheses are balanced (`ArgOK`; `Bal` is the grammar-style presentation of the same thing);
`printCmd` writes the command, `renderArg` is the argument string the parser must produce.
One-step lemmas for `cmdArgsLoop`, the induction over one argument (`cal_arg`) and over the
comma-separated tail (`cal_more`), and the unfolding of `parseCommandStatement`.
The property theorems are in `PoryProofs/Properties/C10b.lean`.

Run-lemmas of the parser monad (`st`, `run_cur`, `substC`, …) come from
`PoryProofs/BoolParseLeaf.lean` (namespace `Pory.C02P`).
-/
namespace Pory.C10b
open Pory Pory.Parser Pory.C02P

/-! ### reference syntax -/

/-- Tokens that `cmdArgsLoop` copies into the current argument after constant substitution:
everything except `,` `(` `)` EOF `format` string literals, string types and `moves`. -/
def Plain (t : Tok) : Prop :=
  t.type ≠ .COMMA ∧ t.type ≠ .LPAREN ∧ t.type ≠ .RPAREN ∧ t.type ≠ .EOF ∧ t.type ≠ .FORMAT ∧
  t.type ≠ .STRING ∧ t.type ≠ .STRINGTYPE ∧ t.type ≠ .MOVES

instance : DecidablePred Plain := fun t => by unfold Plain; exact inferInstance

/-- Tokens allowed inside an argument. -/
def ArgTok (t : Tok) : Prop := Plain t ∨ t.type = .LPAREN ∨ t.type = .RPAREN

instance : DecidablePred ArgTok := fun t => by unfold ArgTok; exact inferInstance

/-- Parenthesis depth after reading `ts` starting at depth `d`; `none` if a `)` occurs at depth 0. -/
def depthAfter : Nat → List Tok → Option Nat
  | d, [] => some d
  | d, t :: r =>
    if t.type = .LPAREN then depthAfter (d + 1) r
    else if t.type = .RPAREN then
      match d with
      | 0 => none
      | k + 1 => depthAfter k r
    else depthAfter d r

/-- A command argument: non-empty, only argument tokens, parentheses balanced. -/
structure ArgOK (a : List Tok) : Prop where
  nonempty : a ≠ []
  toks : ∀ t ∈ a, ArgTok t
  balanced : depthAfter 0 a = some 0

instance (a : List Tok) : Decidable (ArgOK a) :=
  if h : a ≠ [] ∧ (∀ t ∈ a, ArgTok t) ∧ depthAfter 0 a = some 0 then
    isTrue ⟨h.1, h.2.1, h.2.2⟩
  else isFalse (fun h' => h ⟨h'.1, h'.2, h'.3⟩)

/-- Grammar-style presentation: `Bal ::= ε | plain Bal | '(' Bal ')' Bal`. -/
inductive Bal : List Tok → Prop
  | nil : Bal []
  | plain (t : Tok) (r : List Tok) : Plain t → Bal r → Bal (t :: r)
  | group (lp rp : Tok) (a b : List Tok) : lp.type = .LPAREN → rp.type = .RPAREN →
      Bal a → Bal b → Bal (lp :: (a ++ rp :: b))

theorem depthAfter_append (a b : List Tok) (d : Nat) :
    depthAfter d (a ++ b) = (depthAfter d a).bind (fun d' => depthAfter d' b) := by
  induction a generalizing d with
  | nil => simp [depthAfter]
  | cons t r ih =>
    simp only [List.cons_append, depthAfter]
    split
    · exact ih _
    · split
      · cases d with
        | zero => simp
        | succ k => exact ih _
      · exact ih _

theorem Bal.depth {ts : List Tok} (h : Bal ts) : ∀ d, depthAfter d ts = some d := by
  induction h with
  | nil => intro d; rfl
  | plain t r ht _ ih =>
    intro d
    obtain ⟨-, h2, h3, -⟩ := ht
    simp [depthAfter, h2, h3, ih]
  | group lp rp a b hlp hrp _ _ iha ihb =>
    intro d
    have hrp' : rp.type ≠ .LPAREN := by simp [hrp]
    simp [depthAfter, hlp, depthAfter_append, iha, hrp, ihb]

theorem Bal.argTok {ts : List Tok} (h : Bal ts) : ∀ t ∈ ts, ArgTok t := by
  induction h with
  | nil => simp
  | plain t r ht _ ih =>
    intro x hx
    rcases List.mem_cons.mp hx with rfl | hx
    · exact Or.inl ht
    · exact ih x hx
  | group lp rp a b hlp hrp _ _ iha ihb =>
    intro x hx
    simp only [List.mem_cons, List.mem_append] at hx
    rcases hx with rfl | hx | rfl | hx
    · exact Or.inr (Or.inl hlp)
    · exact iha x hx
    · exact Or.inr (Or.inr hrp)
    · exact ihb x hx

theorem ArgOK.of_bal {a : List Tok} (h : Bal a) (hne : a ≠ []) : ArgOK a :=
  ⟨hne, h.argTok, h.depth 0⟩

/-- `,`-separated further arguments: (the comma token, the argument after it). -/
def printMore : List (Tok × List Tok) → List Tok
  | [] => []
  | p :: m => p.1 :: (p.2 ++ printMore m)

/-- `name ( a0 , a1 , … )` -/
def printCmd (name lp : Tok) (a0 : List Tok) (more : List (Tok × List Tok)) (rp : Tok) : List Tok :=
  name :: lp :: (a0 ++ (printMore more ++ [rp]))

/-- What one token contributes to the argument string: parenthesis tokens their literal, every
other token its literal after constant substitution. -/
def argPart (σ : String → String) (t : Tok) : String :=
  if t.type = .LPAREN ∨ t.type = .RPAREN then t.lit else σ t.lit

/-- The argument string: the parts joined by single spaces. -/
def renderArg (σ : String → String) (a : List Tok) : String := joinSp (a.map (argPart σ))

/-- When no constant is named like a parenthesis literal (always the case for lexer output: the
literals are `(` / `)`, constant names are identifiers) every token is substituted uniformly. -/
theorem renderArg_eq_subst (σ : String → String) (a : List Tok)
    (h : ∀ t ∈ a, (t.type = .LPAREN ∨ t.type = .RPAREN) → σ t.lit = t.lit) :
    renderArg σ a = joinSp (a.map (fun t => σ t.lit)) := by
  unfold renderArg
  congr 1
  apply List.map_congr_left
  intro t ht
  unfold argPart
  split
  · rename_i hp; exact (h t ht hp).symm
  · rfl

/-- The parser's next-command-id counter advanced by one. -/
def bump (s : PState) : PState := { s with nextCmdId := s.nextCmdId + 1 }

@[simp] theorem bump_toks (s : PState) : (bump s).toks = s.toks := rfl
@[simp] theorem bump_eof (s : PState) : (bump s).eof = s.eof := rfl
@[simp] theorem bump_constants (s : PState) : (bump s).constants = s.constants := rfl
@[simp] theorem bump_nextCmdId (s : PState) : (bump s).nextCmdId = s.nextCmdId + 1 := rfl
theorem bump_st (s : PState) (l : List Tok) : bump (st s l) = st (bump s) l := rfl

/-! ### one-step lemmas for `cmdArgsLoop` (accumulator written as `⟨args, argParts, depth, imp⟩`) -/
section
variable (env : Env) (sn : String) (id : Nat) (ct : Tok) (f : Nat) (s : PState)
  (A P : List String) (d : Nat) (I : ImpData)

/-- `)` at depth 0 ends the loop, without consuming it. -/
theorem cal_close (c : Tok) (tl : List Tok) (hc : c.type = .RPAREN) :
    (cmdArgsLoop env sn id ct (f + 1) ⟨A, P, 0, I⟩).run (st s (c :: tl)) =
      .ok (⟨A, P, 0, I⟩, st s (c :: tl)) := by
  rw [cmdArgsLoop]
  simp [hc]

/-- A comma closes the current argument — at EVERY parenthesis depth `d`. -/
theorem cal_comma (c : Tok) (tl : List Tok) (hc : c.type = .COMMA) :
    (cmdArgsLoop env sn id ct (f + 1) ⟨A, P, d, I⟩).run (st s (c :: tl)) =
      (cmdArgsLoop env sn id ct f ⟨A ++ [joinSp P], [], d, I⟩).run (st s tl) := by
  rw [cmdArgsLoop]
  simp [hc]

theorem cal_lparen (c : Tok) (tl : List Tok) (hc : c.type = .LPAREN) :
    (cmdArgsLoop env sn id ct (f + 1) ⟨A, P, d, I⟩).run (st s (c :: tl)) =
      (cmdArgsLoop env sn id ct f ⟨A, P ++ [c.lit], d + 1, I⟩).run (st s tl) := by
  rw [cmdArgsLoop]
  simp [hc]

theorem cal_rparen (c : Tok) (tl : List Tok) (hc : c.type = .RPAREN) :
    (cmdArgsLoop env sn id ct (f + 1) ⟨A, P, d + 1, I⟩).run (st s (c :: tl)) =
      (cmdArgsLoop env sn id ct f ⟨A, P ++ [c.lit], d, I⟩).run (st s tl) := by
  rw [cmdArgsLoop]
  simp [hc]

theorem cal_plain (c : Tok) (tl : List Tok) (hc : Plain c) :
    (cmdArgsLoop env sn id ct (f + 1) ⟨A, P, d, I⟩).run (st s (c :: tl)) =
      (cmdArgsLoop env sn id ct f ⟨A, P ++ [substC s.constants c.lit], d, I⟩).run (st s tl) := by
  obtain ⟨h1, h2, h3, h4, h5, h6, h7, h8⟩ := hc
  rw [cmdArgsLoop]
  simp [h1, h2, h3, h4, h5, h6, h7, h8]

/-- End of input inside the parentheses: the error is located on the command token. -/
theorem cal_eof (c : Tok) (tl : List Tok) (hc : c.type = .EOF) :
    (cmdArgsLoop env sn id ct (f + 1) ⟨A, P, d, I⟩).run (st s (c :: tl)) =
      .error (newParseError ct s!"missing closing parenthesis for command '{ct.lit}'") := by
  rw [cmdArgsLoop]
  simp [hc]

/-- The tokens of one argument (balanced from depth `d` to depth `d'`). -/
theorem cal_arg (ts rest : List Tok) (hts : ∀ t ∈ ts, ArgTok t) (d' : Nat)
    (hd : depthAfter d ts = some d') :
    (cmdArgsLoop env sn id ct (ts.length + f) ⟨A, P, d, I⟩).run (st s (ts ++ rest)) =
      (cmdArgsLoop env sn id ct f ⟨A, P ++ ts.map (argPart (substC s.constants)), d', I⟩).run
        (st s rest) := by
  induction ts generalizing P d with
  | nil =>
    simp [depthAfter] at hd; subst hd
    simp
  | cons t r ih =>
    have hlen : (t :: r).length + f = (r.length + f) + 1 := by simp; omega
    have hr : ∀ x ∈ r, ArgTok x := fun x hx => hts x (by simp [hx])
    rw [hlen, List.cons_append]
    rcases hts t (by simp) with hp | hl | hrp
    · have h2 := hp.2.1
      have h3 := hp.2.2.1
      simp only [depthAfter, h2, h3, if_false] at hd
      rw [cal_plain env sn id ct _ s A P d I t _ hp, ih _ _ hr hd]
      simp [argPart, h2, h3]
    · simp only [depthAfter, hl, if_true] at hd
      rw [cal_lparen env sn id ct _ s A P d I t _ hl, ih _ _ hr hd]
      simp [argPart, hl]
    · have h2 : t.type ≠ .LPAREN := by simp [hrp]
      simp only [depthAfter, hrp, if_true] at hd
      cases d with
      | zero => simp at hd
      | succ k =>
        simp only at hd
        rw [cal_rparen env sn id ct _ s A P k I t _ hrp, ih _ _ hr hd]
        simp [argPart, hrp]

/-- Accumulator (`args`, `argParts`) after the `, arg` groups. -/
def accMore (σ : String → String) : List String → List String → List (Tok × List Tok) →
    List String × List String
  | A, P, [] => (A, P)
  | A, P, p :: m => accMore σ (A ++ [joinSp P]) (p.2.map (argPart σ)) m

theorem cal_more (more : List (Tok × List Tok)) (rest : List Tok)
    (hm : ∀ p ∈ more, p.1.type = .COMMA ∧ (∀ t ∈ p.2, ArgTok t) ∧ depthAfter 0 p.2 = some 0) :
    (cmdArgsLoop env sn id ct ((printMore more).length + f) ⟨A, P, 0, I⟩).run
        (st s (printMore more ++ rest)) =
      (cmdArgsLoop env sn id ct f
        ⟨(accMore (substC s.constants) A P more).1, (accMore (substC s.constants) A P more).2, 0, I⟩).run
        (st s rest) := by
  induction more generalizing A P with
  | nil => simp [printMore, accMore]
  | cons p m ih =>
    obtain ⟨hc, hts, hd⟩ := hm p (by simp)
    have hlen : (printMore (p :: m)).length + f = (p.2.length + ((printMore m).length + f)) + 1 := by
      simp [printMore]; omega
    rw [hlen]
    simp only [printMore, List.cons_append, List.append_assoc]
    rw [cal_comma env sn id ct _ s A P 0 I p.1 _ hc,
      cal_arg env sn id ct _ s _ _ 0 I p.2 _ hts 0 hd, ih _ _ (fun q hq => hm q (by simp [hq]))]
    simp [accMore]

end

theorem accMore_args (σ : String → String) (A P : List String) (more : List (Tok × List Tok)) :
    (accMore σ A P more).1 ++ [joinSp (accMore σ A P more).2] =
      A ++ joinSp P :: more.map (fun p => renderArg σ p.2) := by
  induction more generalizing A P with
  | nil => simp [accMore]
  | cons p m ih => simp [accMore, ih, renderArg]

theorem accMore_parts_ne (σ : String → String) (A P : List String) (more : List (Tok × List Tok))
    (hP : P ≠ []) (hne : ∀ p ∈ more, p.2 ≠ []) : (accMore σ A P more).2 ≠ [] := by
  induction more generalizing A P with
  | nil => simpa [accMore] using hP
  | cons p m ih =>
    simp only [accMore]
    exact ih _ _ (by simpa using hne p (by simp)) (fun q hq => hne q (by simp [hq]))

/-- An argument made of plain tokens only is balanced. -/
theorem Bal.of_plain (a : List Tok) (h : ∀ t ∈ a, Plain t) : Bal a := by
  induction a with
  | nil => exact .nil
  | cons t r ih => exact .plain t r (h t (by simp)) (ih (fun x hx => h x (by simp [hx])))

theorem ArgOK.of_plain {a : List Tok} (hne : a ≠ []) (h : ∀ t ∈ a, Plain t) : ArgOK a :=
  ArgOK.of_bal (Bal.of_plain a h) hne

theorem renderArg_plain (σ : String → String) (a : List Tok) (h : ∀ t ∈ a, Plain t) :
    renderArg σ a = joinSp (a.map (fun t => σ t.lit)) :=
  renderArg_eq_subst σ a (fun t ht hp => by
    obtain ⟨-, h2, h3, -⟩ := h t ht
    rcases hp with hp | hp
    · exact absurd hp h2
    · exact absurd hp h3)

/-- The whole argument loop on `a0 , a1 , … )`: stops on the `)`. -/
theorem loop_all (env : Env) (sn : String) (id : Nat) (ct : Tok) (s : PState) (a0 : List Tok)
    (more : List (Tok × List Tok)) (rp : Tok) (rest : List Tok) (hrp : rp.type = .RPAREN)
    (h0t : ∀ t ∈ a0, ArgTok t) (h0d : depthAfter 0 a0 = some 0)
    (hm : ∀ p ∈ more, p.1.type = .COMMA ∧ (∀ t ∈ p.2, ArgTok t) ∧ depthAfter 0 p.2 = some 0)
    (fuel : Nat) (hf : a0.length + (printMore more).length + 1 ≤ fuel) :
    (cmdArgsLoop env sn id ct fuel {}).run (st s (a0 ++ (printMore more ++ rp :: rest))) =
      .ok (⟨(accMore (substC s.constants) [] (a0.map (argPart (substC s.constants))) more).1,
            (accMore (substC s.constants) [] (a0.map (argPart (substC s.constants))) more).2, 0, {}⟩,
           st s (rp :: rest)) := by
  obtain ⟨f, rfl⟩ : ∃ f, fuel = a0.length + ((printMore more).length + (f + 1)) :=
    ⟨fuel - a0.length - (printMore more).length - 1, by omega⟩
  have e0 : ({} : CmdAcc) = ⟨[], [], 0, {}⟩ := rfl
  rw [e0, cal_arg env sn id ct _ s [] [] 0 {} a0 _ h0t 0 h0d, List.nil_append,
    cal_more env sn id ct _ s _ _ {} more _ hm, cal_close env sn id ct f s _ _ {} rp rest hrp]

/-- The same up to an EOF token instead of the `)`: the error names the command token. -/
theorem loop_eof (env : Env) (sn : String) (id : Nat) (ct : Tok) (s : PState) (a0 : List Tok)
    (more : List (Tok × List Tok)) (e : Tok) (rest : List Tok) (he : e.type = .EOF)
    (h0t : ∀ t ∈ a0, ArgTok t) (h0d : depthAfter 0 a0 = some 0)
    (hm : ∀ p ∈ more, p.1.type = .COMMA ∧ (∀ t ∈ p.2, ArgTok t) ∧ depthAfter 0 p.2 = some 0)
    (fuel : Nat) (hf : a0.length + (printMore more).length + 1 ≤ fuel) :
    (cmdArgsLoop env sn id ct fuel {}).run (st s (a0 ++ (printMore more ++ e :: rest))) =
      .error (newParseError ct s!"missing closing parenthesis for command '{ct.lit}'") := by
  obtain ⟨f, rfl⟩ : ∃ f, fuel = a0.length + ((printMore more).length + (f + 1)) :=
    ⟨fuel - a0.length - (printMore more).length - 1, by omega⟩
  have e0 : ({} : CmdAcc) = ⟨[], [], 0, {}⟩ := rfl
  rw [e0, cal_arg env sn id ct _ s [] [] 0 {} a0 _ h0t 0 h0d, List.nil_append,
    cal_more env sn id ct _ s _ _ {} more _ hm, cal_eof env sn id ct f s _ _ 0 {} e rest he]

/-- The argument list built from the final accumulator. -/
theorem final_args (σ : String → String) (a0 : List Tok) (more : List (Tok × List Tok))
    (h0 : a0 ≠ []) (hne : ∀ p ∈ more, p.2 ≠ []) :
    (if (accMore σ [] (a0.map (argPart σ)) more).2.length > 0 then
        (accMore σ [] (a0.map (argPart σ)) more).1 ++ [joinSp (accMore σ [] (a0.map (argPart σ)) more).2]
      else (accMore σ [] (a0.map (argPart σ)) more).1) =
      (a0 :: more.map (·.2)).map (renderArg σ) := by
  have hne' := accMore_parts_ne σ [] (a0.map (argPart σ)) more (by simpa using h0) hne
  rw [if_pos (Nat.pos_of_ne_zero (fun h => hne' (List.eq_nil_of_length_eq_zero h))), accMore_args]
  simp [renderArg, Function.comp_def]

/-! ### unfolding `parseCommandStatement` -/

/-- The command built from the final accumulator. -/
def cmdOf (id : Nat) (tok : Tok) (a : CmdAcc) : Cmd × ImpData :=
  ({ id := id, tok := tok, name := tok.lit,
     args := if a.argParts.length > 0 then a.args ++ [joinSp a.argParts] else a.args }, a.imp)

/-- `name (` …: the id counter is advanced, both tokens are consumed and the argument loop runs. -/
theorem pcs_paren (env : Env) (sn : String) (fuel : Nat) (s : PState) (name lp : Tok) (tl : List Tok)
    (hlp : lp.type = .LPAREN) :
    (parseCommandStatement env sn fuel).run (st s (name :: lp :: tl)) =
      match (cmdArgsLoop env sn s.nextCmdId name fuel {}).run (st (bump s) tl) with
      | .ok (a, s') => .ok (cmdOf s.nextCmdId name a, s')
      | .error e => .error e := by
  unfold parseCommandStatement
  simp only [StateT.run_bind, run_cur, StateT.run_get, StateT.run_modify, run_peekIs, ex_bind_ok,
    ex_pure, st_toks, getD_one, hlp, beq_self_eq_true, if_true, run_nextToken, List.tail_cons, st_st,
    List.headD_cons]
  show ((cmdArgsLoop env sn s.nextCmdId name fuel {}).run (st (bump s) tl) >>= fun p =>
      StateT.run (pure (cmdOf s.nextCmdId name p.1)) p.2) = _
  generalize (cmdArgsLoop env sn s.nextCmdId name fuel {}).run (st (bump s) tl) = X
  cases X with
  | error e => rfl
  | ok p => obtain ⟨a, s'⟩ := p; rfl

/-- A command name not followed by `(`: no arguments, nothing consumed. -/
theorem pcs_bare (env : Env) (sn : String) (fuel : Nat) (s : PState)
    (h : (s.toks.getD 1 s.eof).type ≠ .LPAREN) :
    (parseCommandStatement env sn fuel).run s =
      .ok (({ id := s.nextCmdId, tok := s.toks.headD s.eof, name := (s.toks.headD s.eof).lit,
              args := [] }, {}), bump s) := by
  unfold parseCommandStatement
  simp only [StateT.run_bind, run_cur, StateT.run_get, StateT.run_modify, run_peekIs, ex_bind_ok,
    ex_pure]
  have hb : ((s.toks.getD 1 s.eof).type == TT.LPAREN) = false :=
    beq_eq_false_iff_ne.mpr h
  simp only [hb, Bool.false_eq_true, if_false]
  rfl

end Pory.C10b
