import PoryProofs.Retok
/-
L2 helpers, stage 2: **re-decoration of the statement grammar** `StmtG.SStmt` (P1).

* `eS / eL / eElif / eElifs / eElse / eCase / eCases / ePCase / ePCases` — position erasure of surface
  statements: every token `erase`d, every position record `{}`; two blocks with the same `eL` have the same
  SHAPE (same constructors, same token types and literals everywhere).
* `retokL` (with `retokS`, …): for a block `b` and a token list `l` with the text of `printL b`
  (`l.map erase = (printL b).map erase`) there is a block `b'` with `printL b' = l` and `eL b' = eL b`.
* `swfL_eL`: well-formedness reads token types only: `swfL (eL b) = swfL b`; hence `swf_of_eL`:
  `eL b' = eL b → SWF b → SWF b'`.
-/
namespace Pory.L2
open Pory Pory.Parser Pory.C02P Pory.C10b Pory.C10c Pory.StmtG
open Pory.C14b (Item printItems expand)
open Pory.C11b (Form printAuto)

/-! ### erasure -/
mutual
def eS : SStmt → SStmt
  | .cmd name lp a0 more rp => .cmd (erase name) (erase lp) (a0.map erase) (eMore more) (erase rp)
  | .cmdI name lp a0 more rp => .cmdI (erase name) (erase lp) (a0.map eAElem) (eMoreE more) (erase rp)
  | .cmdE name lp rp => .cmdE (erase name) (erase lp) (erase rp)
  | .cmd0 name => .cmd0 (erase name)
  | .label name colon => .label (erase name) (erase colon)
  | .labelS name lp sc rp colon => .labelS (erase name) (erase lp) (erase sc) (erase rp) (erase colon)
  | .ite i lp c rp lb body rb elifs els =>
      .ite (erase i) (erase lp) (eCond c) (erase rp) (erase lb) (eL body) (erase rb) (eElifs elifs) (eElse els)
  | .while_ w lp c rp lb body rb =>
      .while_ (erase w) (erase lp) (eCond c) (erase rp) (erase lb) (eL body) (erase rb)
  | .whileInf w lb body rb => .whileInf (erase w) (erase lb) (eL body) (erase rb)
  | .doWhile d lb body rb w lp c rp =>
      .doWhile (erase d) (erase lb) (eL body) (erase rb) (erase w) (erase lp) (eCond c) (erase rp)
  | .brk t => .brk (erase t)
  | .cont t => .cont (erase t)
  | .switch_ sw lp v lp2 ops rp2 rp lb cases rb =>
      .switch_ (erase sw) (erase lp) (erase v) (erase lp2) (ops.map erase) (erase rp2) (erase rp) (erase lb)
        (eCases cases) (erase rb)
  | .switchA sw lp name lp2 a0 more rp2 rp lb cases rb =>
      .switchA (erase sw) (erase lp) (erase name) (erase lp2) (a0.map erase) (eMore more) (erase rp2) (erase rp)
        (erase lb) (eCases cases) (erase rb)
  | .pory ps lp x rp lb cases rb =>
      .pory (erase ps) (erase lp) (erase x) (erase rp) (erase lb) (ePCases cases) (erase rb)
def eL : List SStmt → List SStmt
  | [] => []
  | x :: r => eS x :: eL r
def eElif : SElif → SElif
  | .mk e lp c rp lb body rb => .mk (erase e) (erase lp) (eCond c) (erase rp) (erase lb) (eL body) (erase rb)
def eElifs : List SElif → List SElif
  | [] => []
  | e :: r => eElif e :: eElifs r
def eElse : SElse → SElse
  | .none => .none
  | .some e lb body rb => .some (erase e) (erase lb) (eL body) (erase rb)
def eCase : SCase → SCase
  | .case c vs colon body => .case (erase c) (vs.map erase) (erase colon) (eL body)
  | .dflt d colon body => .dflt (erase d) (erase colon) (eL body)
def eCases : List SCase → List SCase
  | [] => []
  | c :: r => eCase c :: eCases r
def ePCase : SPCase → SPCase
  | .colon key c x => .colon (erase key) (erase c) (eS x)
  | .brace key lb body rb => .brace (erase key) (erase lb) (eL body) (erase rb)
def ePCases : List SPCase → List SPCase
  | [] => []
  | c :: r => ePCase c :: ePCases r
end

/-! ### re-decoration -/
mutual
theorem retokS : ∀ (x : SStmt) (l : List Tok), l.map erase = (printS x).map erase →
    ∃ x', printS x' = l ∧ eS x' = eS x
  | .cmd name lp a0 more rp, l, h => by
    simp only [printS] at h
    obtain ⟨name', lp', a0', more', rp', rfl, e1, e2, e3, e4, e5⟩ := cmd_retok name lp a0 more rp l h
    exact ⟨.cmd name' lp' a0' more' rp', by simp only [printS], by simp only [eS, e1, e2, e3, e4, e5]⟩
  | .cmdI name lp a0 more rp, l, h => by
    simp only [printS] at h
    obtain ⟨name', lp', a0', more', rp', rfl, e1, e2, e3, e4, e5⟩ := cmdE_retok name lp a0 more rp l h
    exact ⟨.cmdI name' lp' a0' more' rp', by simp only [printS], by simp only [eS, e1, e2, e3, e4, e5]⟩
  | .cmdE name lp rp, l, h => by
    simp only [printS] at h
    obtain ⟨a1, l1, rfl, e1, k1⟩ := st_cons h
    obtain ⟨a2, l2, rfl, e2, k2⟩ := st_cons k1
    obtain ⟨a3, rfl, e3⟩ := st_single k2
    exact ⟨.cmdE a1 a2 a3, by simp only [printS], by simp only [eS, e1, e2, e3]⟩
  | .cmd0 name, l, h => by
    simp only [printS] at h
    obtain ⟨a1, rfl, e1⟩ := st_single h
    exact ⟨.cmd0 a1, by simp only [printS], by simp only [eS, e1]⟩
  | .label name colon, l, h => by
    simp only [printS] at h
    obtain ⟨a1, l1, rfl, e1, k1⟩ := st_cons h
    obtain ⟨a2, rfl, e2⟩ := st_single k1
    exact ⟨.label a1 a2, by simp only [printS], by simp only [eS, e1, e2]⟩
  | .labelS name lp sc rp colon, l, h => by
    simp only [printS] at h
    obtain ⟨a1, l1, rfl, e1, k1⟩ := st_cons h
    obtain ⟨a2, l2, rfl, e2, k2⟩ := st_cons k1
    obtain ⟨a3, l3, rfl, e3, k3⟩ := st_cons k2
    obtain ⟨a4, l4, rfl, e4, k4⟩ := st_cons k3
    obtain ⟨a5, rfl, e5⟩ := st_single k4
    exact ⟨.labelS a1 a2 a3 a4 a5, by simp only [printS], by simp only [eS, e1, e2, e3, e4, e5]⟩
  | .ite i lp c rp lb body rb elifs els, l, h => by
    simp only [printS] at h
    obtain ⟨i', l1, rfl, e1, k1⟩ := st_cons h
    obtain ⟨lp', l2, rfl, e2, k2⟩ := st_cons k1
    obtain ⟨l3, l4, rfl, k3, k4⟩ := st_append k2
    obtain ⟨c', rfl, e3⟩ := cond_retok c l3 k3
    obtain ⟨rp', l5, rfl, e4, k5⟩ := st_cons k4
    obtain ⟨lb', l6, rfl, e5, k6⟩ := st_cons k5
    obtain ⟨l7, l8, rfl, k7, k8⟩ := st_append k6
    obtain ⟨body', rfl, e6⟩ := retokL body l7 k7
    obtain ⟨rb', l9, rfl, e7, k9⟩ := st_cons k8
    obtain ⟨l10, l11, rfl, k10, k11⟩ := st_append k9
    obtain ⟨elifs', rfl, e8⟩ := retokElifs elifs l10 k10
    obtain ⟨els', rfl, e9⟩ := retokElse els l11 k11
    exact ⟨.ite i' lp' c' rp' lb' body' rb' elifs' els', by simp only [printS],
      by simp only [eS, e1, e2, e3, e4, e5, e6, e7, e8, e9]⟩
  | .while_ w lp c rp lb body rb, l, h => by
    simp only [printS] at h
    obtain ⟨w', l1, rfl, e1, k1⟩ := st_cons h
    obtain ⟨lp', l2, rfl, e2, k2⟩ := st_cons k1
    obtain ⟨l3, l4, rfl, k3, k4⟩ := st_append k2
    obtain ⟨c', rfl, e3⟩ := cond_retok c l3 k3
    obtain ⟨rp', l5, rfl, e4, k5⟩ := st_cons k4
    obtain ⟨lb', l6, rfl, e5, k6⟩ := st_cons k5
    obtain ⟨l7, l8, rfl, k7, k8⟩ := st_append k6
    obtain ⟨body', rfl, e6⟩ := retokL body l7 k7
    obtain ⟨rb', rfl, e7⟩ := st_single k8
    exact ⟨.while_ w' lp' c' rp' lb' body' rb', by simp only [printS],
      by simp only [eS, e1, e2, e3, e4, e5, e6, e7]⟩
  | .whileInf w lb body rb, l, h => by
    simp only [printS] at h
    obtain ⟨w', l1, rfl, e1, k1⟩ := st_cons h
    obtain ⟨lb', l2, rfl, e2, k2⟩ := st_cons k1
    obtain ⟨l3, l4, rfl, k3, k4⟩ := st_append k2
    obtain ⟨body', rfl, e3⟩ := retokL body l3 k3
    obtain ⟨rb', rfl, e4⟩ := st_single k4
    exact ⟨.whileInf w' lb' body' rb', by simp only [printS], by simp only [eS, e1, e2, e3, e4]⟩
  | .doWhile d lb body rb w lp c rp, l, h => by
    simp only [printS] at h
    obtain ⟨d', l1, rfl, e1, k1⟩ := st_cons h
    obtain ⟨lb', l2, rfl, e2, k2⟩ := st_cons k1
    obtain ⟨l3, l4, rfl, k3, k4⟩ := st_append k2
    obtain ⟨body', rfl, e3⟩ := retokL body l3 k3
    obtain ⟨rb', l5, rfl, e4, k5⟩ := st_cons k4
    obtain ⟨w', l6, rfl, e5, k6⟩ := st_cons k5
    obtain ⟨lp', l7, rfl, e6, k7⟩ := st_cons k6
    obtain ⟨l8, l9, rfl, k8, k9⟩ := st_append k7
    obtain ⟨c', rfl, e7⟩ := cond_retok c l8 k8
    obtain ⟨rp', rfl, e8⟩ := st_single k9
    exact ⟨.doWhile d' lb' body' rb' w' lp' c' rp', by simp only [printS],
      by simp only [eS, e1, e2, e3, e4, e5, e6, e7, e8]⟩
  | .brk t, l, h => by
    simp only [printS] at h
    obtain ⟨a1, rfl, e1⟩ := st_single h
    exact ⟨.brk a1, by simp only [printS], by simp only [eS, e1]⟩
  | .cont t, l, h => by
    simp only [printS] at h
    obtain ⟨a1, rfl, e1⟩ := st_single h
    exact ⟨.cont a1, by simp only [printS], by simp only [eS, e1]⟩
  | .switch_ sw lp v lp2 ops rp2 rp lb cases rb, l, h => by
    simp only [printS] at h
    obtain ⟨sw', l1, rfl, e1, k1⟩ := st_cons h
    obtain ⟨lp', l2, rfl, e2, k2⟩ := st_cons k1
    obtain ⟨v', l3, rfl, e3, k3⟩ := st_cons k2
    obtain ⟨lp2', l4, rfl, e4, k4⟩ := st_cons k3
    obtain ⟨ops', l5, rfl, e5, k5⟩ := st_append k4
    obtain ⟨rp2', l6, rfl, e6, k6⟩ := st_cons k5
    obtain ⟨rp', l7, rfl, e7, k7⟩ := st_cons k6
    obtain ⟨lb', l8, rfl, e8, k8⟩ := st_cons k7
    obtain ⟨l9, l10, rfl, k9, k10⟩ := st_append k8
    obtain ⟨cases', rfl, e9⟩ := retokCases cases l9 k9
    obtain ⟨rb', rfl, e10⟩ := st_single k10
    exact ⟨.switch_ sw' lp' v' lp2' ops' rp2' rp' lb' cases' rb', by simp only [printS],
      by simp only [eS, e1, e2, e3, e4, e5, e6, e7, e8, e9, e10]⟩
  | .switchA sw lp name lp2 a0 more rp2 rp lb cases rb, l, h => by
    simp only [printS] at h
    obtain ⟨sw', l1, rfl, e1, k1⟩ := st_cons h
    obtain ⟨lp', l2, rfl, e2, k2⟩ := st_cons k1
    obtain ⟨l3, l4, rfl, k3, k4⟩ := st_append k2
    obtain ⟨name', lp2', a0', more', rp2', rfl, e3, e4, e5, e6, e7⟩ := cmd_retok name lp2 a0 more rp2 l3 k3
    obtain ⟨rp', l5, rfl, e8, k5⟩ := st_cons k4
    obtain ⟨lb', l6, rfl, e9, k6⟩ := st_cons k5
    obtain ⟨l7, l8, rfl, k7, k8⟩ := st_append k6
    obtain ⟨cases', rfl, e10⟩ := retokCases cases l7 k7
    obtain ⟨rb', rfl, e11⟩ := st_single k8
    exact ⟨.switchA sw' lp' name' lp2' a0' more' rp2' rp' lb' cases' rb', by simp only [printS],
      by simp only [eS, e1, e2, e3, e4, e5, e6, e7, e8, e9, e10, e11]⟩
  | .pory ps lp x rp lb cases rb, l, h => by
    simp only [printS] at h
    obtain ⟨ps', l1, rfl, e1, k1⟩ := st_cons h
    obtain ⟨lp', l2, rfl, e2, k2⟩ := st_cons k1
    obtain ⟨x', l3, rfl, e3, k3⟩ := st_cons k2
    obtain ⟨rp', l4, rfl, e4, k4⟩ := st_cons k3
    obtain ⟨lb', l5, rfl, e5, k5⟩ := st_cons k4
    obtain ⟨l6, l7, rfl, k6, k7⟩ := st_append k5
    obtain ⟨cases', rfl, e6⟩ := retokPCases cases l6 k6
    obtain ⟨rb', rfl, e7⟩ := st_single k7
    exact ⟨.pory ps' lp' x' rp' lb' cases' rb', by simp only [printS],
      by simp only [eS, e1, e2, e3, e4, e5, e6, e7]⟩
theorem retokL : ∀ (b : List SStmt) (l : List Tok), l.map erase = (printL b).map erase →
    ∃ b', printL b' = l ∧ eL b' = eL b
  | [], l, h => by
    have hl : l = [] := st_nil (by simpa only [printL] using h)
    subst hl
    exact ⟨[], by simp only [printL], rfl⟩
  | x :: r, l, h => by
    simp only [printL] at h
    obtain ⟨l1, l2, rfl, k1, k2⟩ := st_append h
    obtain ⟨x', rfl, e1⟩ := retokS x l1 k1
    obtain ⟨r', rfl, e2⟩ := retokL r l2 k2
    exact ⟨x' :: r', by simp only [printL], by simp only [eL, e1, e2]⟩
theorem retokElif : ∀ (x : SElif) (l : List Tok), l.map erase = (printElif x).map erase →
    ∃ x', printElif x' = l ∧ eElif x' = eElif x
  | .mk e lp c rp lb body rb, l, h => by
    simp only [printElif] at h
    obtain ⟨w', l1, rfl, e1, k1⟩ := st_cons h
    obtain ⟨lp', l2, rfl, e2, k2⟩ := st_cons k1
    obtain ⟨l3, l4, rfl, k3, k4⟩ := st_append k2
    obtain ⟨c', rfl, e3⟩ := cond_retok c l3 k3
    obtain ⟨rp', l5, rfl, e4, k5⟩ := st_cons k4
    obtain ⟨lb', l6, rfl, e5, k6⟩ := st_cons k5
    obtain ⟨l7, l8, rfl, k7, k8⟩ := st_append k6
    obtain ⟨body', rfl, e6⟩ := retokL body l7 k7
    obtain ⟨rb', rfl, e7⟩ := st_single k8
    exact ⟨.mk w' lp' c' rp' lb' body' rb', by simp only [printElif],
      by simp only [eElif, e1, e2, e3, e4, e5, e6, e7]⟩
theorem retokElifs : ∀ (b : List SElif) (l : List Tok), l.map erase = (printElifs b).map erase →
    ∃ b', printElifs b' = l ∧ eElifs b' = eElifs b
  | [], l, h => by
    have hl : l = [] := st_nil (by simpa only [printElifs] using h)
    subst hl
    exact ⟨[], by simp only [printElifs], rfl⟩
  | x :: r, l, h => by
    simp only [printElifs] at h
    obtain ⟨l1, l2, rfl, k1, k2⟩ := st_append h
    obtain ⟨x', rfl, e1⟩ := retokElif x l1 k1
    obtain ⟨r', rfl, e2⟩ := retokElifs r l2 k2
    exact ⟨x' :: r', by simp only [printElifs], by simp only [eElifs, e1, e2]⟩
theorem retokElse : ∀ (x : SElse) (l : List Tok), l.map erase = (printElse x).map erase →
    ∃ x', printElse x' = l ∧ eElse x' = eElse x
  | .none, l, h => by
    have hl : l = [] := st_nil (by simpa only [printElse] using h)
    subst hl
    exact ⟨.none, by simp only [printElse], rfl⟩
  | .some e lb body rb, l, h => by
    simp only [printElse] at h
    obtain ⟨w', l1, rfl, e1, k1⟩ := st_cons h
    obtain ⟨lb', l2, rfl, e2, k2⟩ := st_cons k1
    obtain ⟨l3, l4, rfl, k3, k4⟩ := st_append k2
    obtain ⟨body', rfl, e3⟩ := retokL body l3 k3
    obtain ⟨rb', rfl, e4⟩ := st_single k4
    exact ⟨.some w' lb' body' rb', by simp only [printElse], by simp only [eElse, e1, e2, e3, e4]⟩
theorem retokCase : ∀ (x : SCase) (l : List Tok), l.map erase = (printCase x).map erase →
    ∃ x', printCase x' = l ∧ eCase x' = eCase x
  | .case c vs colon body, l, h => by
    simp only [printCase] at h
    obtain ⟨c', l1, rfl, e1, k1⟩ := st_cons h
    obtain ⟨vs', l2, rfl, e2, k2⟩ := st_append k1
    obtain ⟨colon', l3, rfl, e3, k3⟩ := st_cons k2
    obtain ⟨body', rfl, e4⟩ := retokL body l3 k3
    exact ⟨.case c' vs' colon' body', by simp only [printCase], by simp only [eCase, e1, e2, e3, e4]⟩
  | .dflt d colon body, l, h => by
    simp only [printCase] at h
    obtain ⟨d', l1, rfl, e1, k1⟩ := st_cons h
    obtain ⟨colon', l3, rfl, e3, k3⟩ := st_cons k1
    obtain ⟨body', rfl, e4⟩ := retokL body l3 k3
    exact ⟨.dflt d' colon' body', by simp only [printCase], by simp only [eCase, e1, e3, e4]⟩
theorem retokCases : ∀ (b : List SCase) (l : List Tok), l.map erase = (printCases b).map erase →
    ∃ b', printCases b' = l ∧ eCases b' = eCases b
  | [], l, h => by
    have hl : l = [] := st_nil (by simpa only [printCases] using h)
    subst hl
    exact ⟨[], by simp only [printCases], rfl⟩
  | x :: r, l, h => by
    simp only [printCases] at h
    obtain ⟨l1, l2, rfl, k1, k2⟩ := st_append h
    obtain ⟨x', rfl, e1⟩ := retokCase x l1 k1
    obtain ⟨r', rfl, e2⟩ := retokCases r l2 k2
    exact ⟨x' :: r', by simp only [printCases], by simp only [eCases, e1, e2]⟩
theorem retokPCase : ∀ (x : SPCase) (l : List Tok), l.map erase = (printPCase x).map erase →
    ∃ x', printPCase x' = l ∧ ePCase x' = ePCase x
  | .colon key c x, l, h => by
    simp only [printPCase] at h
    obtain ⟨key', l1, rfl, e1, k1⟩ := st_cons h
    obtain ⟨c', l2, rfl, e2, k2⟩ := st_cons k1
    obtain ⟨x', rfl, e3⟩ := retokS x l2 k2
    exact ⟨.colon key' c' x', by simp only [printPCase], by simp only [ePCase, e1, e2, e3]⟩
  | .brace key lb body rb, l, h => by
    simp only [printPCase] at h
    obtain ⟨key', l1, rfl, e1, k1⟩ := st_cons h
    obtain ⟨lb', l2, rfl, e2, k2⟩ := st_cons k1
    obtain ⟨l3, l4, rfl, k3, k4⟩ := st_append k2
    obtain ⟨body', rfl, e3⟩ := retokL body l3 k3
    obtain ⟨rb', rfl, e4⟩ := st_single k4
    exact ⟨.brace key' lb' body' rb', by simp only [printPCase], by simp only [ePCase, e1, e2, e3, e4]⟩
theorem retokPCases : ∀ (b : List SPCase) (l : List Tok), l.map erase = (printPCases b).map erase →
    ∃ b', printPCases b' = l ∧ ePCases b' = ePCases b
  | [], l, h => by
    have hl : l = [] := st_nil (by simpa only [printPCases] using h)
    subst hl
    exact ⟨[], by simp only [printPCases], rfl⟩
  | x :: r, l, h => by
    simp only [printPCases] at h
    obtain ⟨l1, l2, rfl, k1, k2⟩ := st_append h
    obtain ⟨x', rfl, e1⟩ := retokPCase x l1 k1
    obtain ⟨r', rfl, e2⟩ := retokPCases r l2 k2
    exact ⟨x' :: r', by simp only [printPCases], by simp only [ePCases, e1, e2]⟩
end


/-! ### well-formedness reads token types only -/

theorem depthAfter_erase : ∀ (a : List Tok) (d : Nat), depthAfter d (a.map erase) = depthAfter d a
  | [], d => rfl
  | t :: r, d => by
    simp only [List.map_cons, depthAfter, erase_type', depthAfter_erase r]

theorem argTok_erase (t : Tok) : ArgTok (erase t) ↔ ArgTok t := Iff.rfl

theorem argOK_erase (a : List Tok) : ArgOK (a.map erase) ↔ ArgOK a := by
  constructor
  · rintro ⟨h1, h2, h3⟩
    refine ⟨by simpa using h1, fun t ht => (argTok_erase t).1 (h2 _ (List.mem_map_of_mem ht)), ?_⟩
    rwa [depthAfter_erase] at h3
  · rintro ⟨h1, h2, h3⟩
    refine ⟨by simpa using h1, ?_, by rwa [depthAfter_erase]⟩
    intro t ht
    obtain ⟨u, hu, rfl⟩ := List.mem_map.1 ht
    exact (argTok_erase u).2 (h2 u hu)

theorem decide_argOK_erase (a : List Tok) : decide (ArgOK (a.map erase)) = decide (ArgOK a) := by
  simp only [argOK_erase]

theorem more_all_erase (more : List (Tok × List Tok)) :
    (eMore more).all (fun p => p.1.type == .COMMA && decide (ArgOK p.2)) =
      more.all (fun p => p.1.type == .COMMA && decide (ArgOK p.2)) := by
  simp only [eMore, List.all_map]
  congr 1
  funext p
  simp only [Function.comp, erase_type', decide_argOK_erase]

theorem eMore_length (more : List (Tok × List Tok)) : (eMore more).length = more.length := by
  simp [eMore]

theorem itemOk_eItem (i : Item) : itemOk (eItem i) = itemOk i := by
  cases i <;> rfl

theorem itemExpand_eItem (i : Item) : (eItem i).expand = (i.expand).map (List.map erase) := by
  cases i with
  | step n => rfl
  | stepMul n s m =>
    simp only [eItem, Item.expand, erase_lit']
    cases C14b.mulOf m.lit <;> simp
  | comma t => rfl

theorem expand_eItem : ∀ (items : List Item), expand (items.map eItem) = (expand items).map (List.map erase)
  | [] => rfl
  | i :: r => by
    simp only [List.map_cons, expand, itemExpand_eItem, expand_eItem r]
    cases i.expand <;> cases expand r <;> simp

theorem aelemOk_eAElem (e : AElem) : AElem.ok (eAElem e) = AElem.ok e := by
  cases e with
  | tok t => rfl
  | str t => rfl
  | tstr ty t => rfl
  | moves mv lp items rp =>
    simp only [eAElem, AElem.ok, erase_type', List.all_map, expand_eItem, Option.isSome_map]
    congr 2
    congr 1
    funext i
    exact itemOk_eItem i

theorem depthE_eAElem : ∀ (a : List AElem) (d : Nat), depthE d (a.map eAElem) = depthE d a
  | [], d => rfl
  | e :: r, d => by
    cases e with
    | tok t =>
      simp only [List.map_cons, eAElem, depthE, erase_type', depthE_eAElem r]
    | str t => simp only [List.map_cons, eAElem, depthE]; exact depthE_eAElem r _
    | tstr ty t => simp only [List.map_cons, eAElem, depthE]; exact depthE_eAElem r _
    | moves mv lp items rp => simp only [List.map_cons, eAElem, depthE]; exact depthE_eAElem r _

theorem argEOK_eAElem (a : List AElem) : argEOK (a.map eAElem) = argEOK a := by
  simp only [argEOK, List.isEmpty_map, List.all_map, depthE_eAElem]
  congr 2
  congr 1
  funext e
  exact aelemOk_eAElem e

theorem moreE_all_erase (more : List (Tok × List AElem)) :
    (eMoreE more).all (fun p => p.1.type == .COMMA && argEOK p.2) =
      more.all (fun p => p.1.type == .COMMA && argEOK p.2) := by
  simp only [eMoreE, List.all_map]
  congr 1
  funext p
  simp only [Function.comp, erase_type', argEOK_eAElem]

theorem swfCond_eCond (c : SCond) : swfCond (eCond c) = swfCond c := by
  cases c with
  | plain g => rfl
  | auto fm name lp a0 more rp =>
    simp only [eCond, swfCond, erase_type', decide_argOK_erase, more_all_erase]

theorem all_map_erase (p : Tok → Bool) (hp : ∀ t, p (erase t) = p t) (l : List Tok) :
    (l.map erase).all p = l.all p := by
  simp only [List.all_map]
  congr 1
  funext t
  exact hp t

mutual
theorem swfS_eS : ∀ (x : SStmt), swfS (eS x) = swfS x
  | .cmd name lp a0 more rp => by
    simp only [eS, swfS, erase_type', decide_argOK_erase, more_all_erase]
  | .cmdI name lp a0 more rp => by
    simp only [eS, swfS, erase_type', argEOK_eAElem, moreE_all_erase]
  | .cmdE name lp rp => rfl
  | .cmd0 name => rfl
  | .label name colon => rfl
  | .labelS name lp sc rp colon => rfl
  | .ite i lp c rp lb body rb elifs els => by
    simp only [eS, swfS, erase_type', swfL_eL body, swfElifs_eElifs elifs, swfElse_eElse els, swfCond_eCond]
  | .while_ w lp c rp lb body rb => by
    simp only [eS, swfS, erase_type', swfL_eL body, swfCond_eCond]
  | .whileInf w lb body rb => by
    simp only [eS, swfS, erase_type', swfL_eL body]
  | .doWhile d lb body rb w lp c rp => by
    simp only [eS, swfS, erase_type', swfL_eL body, swfCond_eCond]
  | .brk t => rfl
  | .cont t => rfl
  | .switch_ sw lp v lp2 ops rp2 rp lb cases rb => by
    simp only [eS, swfS, erase_type', swfCases_eCases cases, all_map_erase operandTok (fun _ => rfl)]
  | .switchA sw lp name lp2 a0 more rp2 rp lb cases rb => by
    simp only [eS, swfS, erase_type', swfCases_eCases cases, decide_argOK_erase, more_all_erase]
  | .pory ps lp x rp lb cases rb => by
    simp only [eS, swfS, erase_type', swfPCases_ePCases cases]
theorem swfL_eL : ∀ (b : List SStmt), swfL (eL b) = swfL b
  | [] => rfl
  | x :: r => by simp only [eL, swfL, swfS_eS x, swfL_eL r]
theorem swfElif_eElif : ∀ (x : SElif), swfElif (eElif x) = swfElif x
  | .mk e lp c rp lb body rb => by
    simp only [eElif, swfElif, erase_type', swfL_eL body, swfCond_eCond]
theorem swfElifs_eElifs : ∀ (b : List SElif), swfElifs (eElifs b) = swfElifs b
  | [] => rfl
  | x :: r => by simp only [eElifs, swfElifs, swfElif_eElif x, swfElifs_eElifs r]
theorem swfElse_eElse : ∀ (x : SElse), swfElse (eElse x) = swfElse x
  | .none => rfl
  | .some e lb body rb => by simp only [eElse, swfElse, erase_type', swfL_eL body]
theorem swfCase_eCase : ∀ (x : SCase), swfCase (eCase x) = swfCase x
  | .case c vs colon body => by
    simp only [eCase, swfCase, erase_type', swfL_eL body, all_map_erase caseValTok (fun _ => rfl)]
  | .dflt d colon body => by simp only [eCase, swfCase, erase_type', swfL_eL body]
theorem swfCases_eCases : ∀ (b : List SCase), swfCases (eCases b) = swfCases b
  | [] => rfl
  | x :: r => by simp only [eCases, swfCases, swfCase_eCase x, swfCases_eCases r]
theorem swfPCase_ePCase : ∀ (x : SPCase), swfPCase (ePCase x) = swfPCase x
  | .colon key c x => by simp only [ePCase, swfPCase, erase_type', swfS_eS x]
  | .brace key lb body rb => by simp only [ePCase, swfPCase, erase_type', swfL_eL body]
theorem swfPCases_ePCases : ∀ (b : List SPCase), swfPCases (ePCases b) = swfPCases b
  | [] => rfl
  | x :: r => by simp only [ePCases, swfPCases, swfPCase_ePCase x, swfPCases_ePCases r]
end

/-- **Well-formedness is preserved by re-decoration.** -/
theorem swf_of_eL {b b' : List SStmt} (h : eL b' = eL b) (hwf : SWF b) : SWF b' := by
  unfold SWF at hwf ⊢
  rw [← swfL_eL b', h, swfL_eL b, hwf]

/-- **retok for the statement grammar**: a token list with the text of a printed block is the print of a
re-decorated block of the same shape, well-formed when the original is. -/
theorem retok_stmts (b : List SStmt) (l : List Tok) (h : SameText l (printStmts b)) :
    ∃ b', printStmts b' = l ∧ eL b' = eL b ∧ (SWF b → SWF b') := by
  obtain ⟨b', h1, h2⟩ := retokL b l h
  exact ⟨b', h1, h2, swf_of_eL h2⟩

end Pory.L2
