import PoryProofs.StmtParseErr
/-
C20c helper, stage 1: the violations of a script body as a DECIDABLE, ID-FREE CHECKER over the surface syntax.

* `SViol` — a violation of the statement grammar together with its offending token(s): the six documented
  violations (`break` outside, `continue` outside, `continue` not last, duplicate `case`, second `default`,
  `switch` without cases) and the six configuration errors of P1 (auto-var command not configured as condition /
  as switch operand, configured argument position addressing no argument, `poryswitch` without `-s`, with an
  undefined switch, without a matching case).  `SViol.err` = the located error, `SViol.tok` = the offending
  token (start of the reported range), `SViol.documented` = "one of the six".
* `violL env σ inB inC last b` (with `violS`, `violElifs`, `violElse`, `violCases`, `violPCases`, `violCond`) —
  THE FIRST VIOLATION OF A BLOCK IN SOURCE ORDER.  It does not look at scope ids, command ids, implicit data: the
  nesting only enters through two booleans (`inB` = inside a loop or switch, `inC` = inside a loop), `last` = "the
  block is closed by `}`", `σ` = the constant substitution (case values are compared after substitution).  The
  order is manifest: `orV a b` = `a` if there is one, else `b`.
* `elabL_viol` (and siblings): the error of the reference elaboration P1 (`StmtG.elabL`) IS the located error of
  `violL`, and the elaboration succeeds iff `violL = none` — for all stacks, ids, script names.
-/
namespace Pory.C20c
open Pory Pory.Parser Pory.C02P Pory.C10b Pory.StmtG
open Pory.C14b (swVal)

/-! ### violations of the statement grammar -/

inductive SViol where
  | breakOutside (t : Tok)
  | continueOutside (t : Tok)
  | continueNotLast (t : Tok)
  /-- `case` token, its `:`, the value after constant substitution -/
  | duplicateCase (c colon : Tok) (v : String)
  | secondDefault (d : Tok)
  /-- `switch` token, closing `}` -/
  | emptySwitch (sw rb : Tok)
  | notLeaf (name : Tok)
  | notAutoVar (name : Tok)
  | badPos (name rp : Tok) (pos : Int) (nargs : Nat)
  | noSwitches (ps : Tok)
  | undefinedSwitch (x : Tok)
  | noPoryCase (ps x : Tok) (v : String)
  deriving DecidableEq, Repr

/-- The located error of a violation. -/
def SViol.err : SViol → PFail
  | .breakOutside t => breakOutsideErr t
  | .continueOutside t => continueOutsideErr t
  | .continueNotLast t => continueNotLastErr t
  | .duplicateCase c colon v => duplicateCaseErr c colon v
  | .secondDefault d => secondDefaultErr d
  | .emptySwitch sw rb => emptySwitchErr sw rb
  | .notLeaf name => notLeafErr name
  | .notAutoVar name => notAutoVarErr name
  | .badPos name rp pos n => badPosErr name rp pos n
  | .noSwitches ps => noSwitchesErr ps
  | .undefinedSwitch x => undefinedSwitchErr x
  | .noPoryCase ps x v => noPoryCaseErr ps x v

/-- The offending token: where the reported range starts. -/
def SViol.tok : SViol → Tok
  | .breakOutside t => t
  | .continueOutside t => t
  | .continueNotLast t => t
  | .duplicateCase c _ _ => c
  | .secondDefault d => d
  | .emptySwitch sw _ => sw
  | .notLeaf name => name
  | .notAutoVar name => name
  | .badPos name _ _ _ => name
  | .noSwitches ps => ps
  | .undefinedSwitch x => x
  | .noPoryCase ps _ _ => ps

/-- One of the six documented violations of control flow (the others are configuration errors). -/
def SViol.documented : SViol → Bool
  | .breakOutside _ | .continueOutside _ | .continueNotLast _ | .duplicateCase .. | .secondDefault _
  | .emptySwitch .. => true
  | _ => false

/-- Every violation is a documented located error of P1. -/
theorem SViol.err_violation (v : SViol) : StmtG.Violation v.err := by
  cases v
  · exact .breakOutside _
  · exact .continueOutside _
  · exact .continueNotLast _
  · exact .duplicateCase _ _ _
  · exact .secondDefault _
  · exact .emptySwitch _ _
  · exact .notLeaf _
  · exact .notAutoVar _
  · exact .badPos _ _ _ _
  · exact .noSwitches _
  · exact .undefinedSwitch _
  · exact .noPoryCase _ _ _

/-! ### the checker -/

/-- first of two (source order) -/
def orV {α : Type} (a b : Option α) : Option α :=
  match a with
  | some v => some v
  | none => b

@[simp] theorem orV_none_left {α : Type} (b : Option α) : orV none b = b := rfl
@[simp] theorem orV_some_left {α : Type} (v : α) (b : Option α) : orV (some v) b = some v := rfl
@[simp] theorem orV_none_right {α : Type} (a : Option α) : orV a none = a := by cases a <;> rfl

theorem orV_eq_none {α : Type} {a b : Option α} : orV a b = none ↔ a = none ∧ b = none := by
  cases a <;> simp [orV]

theorem orV_assoc {α : Type} (a b c : Option α) : orV (orV a b) c = orV a (orV b c) := by
  cases a <;> rfl

/-- An auto-var condition: the command must be configured and its argument position must address an argument. -/
def violCond (env : Env) : SCond → Option SViol
  | .plain _ => none
  | .auto _ name _ _ more rp =>
      match env.autoVars.lookup name.lit with
      | none => some (.notLeaf name)
      | some av =>
        match autoPosBad av (more.length + 1) with
        | some pos => some (.badPos name rp pos (more.length + 1))
        | none => none

/-- The keys of the cases of a poryswitch, in source order. -/
def pcaseKeys : List SPCase → List String
  | [] => []
  | .colon key _ _ :: r => key.lit :: pcaseKeys r
  | .brace key _ _ _ :: r => key.lit :: pcaseKeys r

/-- No case for the value `v` and no `_` case. -/
def noCaseFor (v : String) (cs : List SPCase) : Bool := !(pcaseKeys cs).contains v && !(pcaseKeys cs).contains "_"

mutual
/-- The first violation of one statement. `inB` / `inC` = inside a break-able / continue-able scope, `nx` = the
token after the statement is `}`. -/
def violS (env : Env) (σ : String → String) (inB inC nx : Bool) : SStmt → Option SViol
  | .cmd .. => none
  | .cmdI .. => none
  | .cmdE .. => none
  | .cmd0 _ => none
  | .label .. => none
  | .labelS .. => none
  | .ite _ _ c _ _ body _ elifs els =>
      orV (violCond env c) (orV (violL env σ inB inC true body)
        (orV (violElifs env σ inB inC elifs) (violElse env σ inB inC els)))
  | .while_ _ _ c _ _ body _ => orV (violCond env c) (violL env σ true true true body)
  | .whileInf _ _ body _ => violL env σ true true true body
  | .doWhile _ _ body _ _ _ c _ => orV (violL env σ true true true body) (violCond env c)
  | .brk t => if inB then none else some (.breakOutside t)
  | .cont t => if inC then (if nx then none else some (.continueNotLast t)) else some (.continueOutside t)
  | .switch_ sw _ _ _ _ _ _ _ cases rb =>
      orV (violCases env σ true inC cases [] false) (if cases.isEmpty then some (.emptySwitch sw rb) else none)
  | .switchA sw _ name _ _ more rp2 _ _ cases rb =>
      match env.autoVars.lookup name.lit with
      | none => some (.notAutoVar name)
      | some av =>
        match autoPosBad av (more.length + 1) with
        | some pos => some (.badPos name rp2 pos (more.length + 1))
        | none =>
          orV (violCases env σ true inC cases [] false) (if cases.isEmpty then some (.emptySwitch sw rb) else none)
  | .pory ps _ x _ _ cases _ =>
      if env.envErrors && env.switches.isEmpty then some (.noSwitches ps)
      else if env.envErrors && (env.switches.lookup x.lit).isNone then some (.undefinedSwitch x)
      else
        orV (violPCases env σ inB inC cases)
          (if env.envErrors && noCaseFor (swVal env x.lit) cases then some (.noPoryCase ps x (swVal env x.lit))
           else none)
/-- The first violation of a statement list, in source order. `last` = the list is closed by `}`. -/
def violL (env : Env) (σ : String → String) (inB inC last : Bool) : List SStmt → Option SViol
  | [] => none
  | x :: r => orV (violS env σ inB inC (r.isEmpty && last) x) (violL env σ inB inC last r)
def violElifs (env : Env) (σ : String → String) (inB inC : Bool) : List SElif → Option SViol
  | [] => none
  | .mk _ _ c _ _ body _ :: r =>
      orV (violCond env c) (orV (violL env σ inB inC true body) (violElifs env σ inB inC r))
def violElse (env : Env) (σ : String → String) (inB inC : Bool) : SElse → Option SViol
  | .none => none
  | .some _ _ body _ => violL env σ inB inC true body
/-- The cases of a switch (a break-able scope). `seen` = the case values met so far (after constant
substitution), `hd` = a `default` was met. -/
def violCases (env : Env) (σ : String → String) (inB inC : Bool) : List SCase → List String → Bool → Option SViol
  | [], _, _ => none
  | .case c vs colon body :: r, seen, hd =>
      if seen.contains (caseValue σ vs) then some (.duplicateCase c colon (caseValue σ vs))
      else orV (violL env σ inB inC r.isEmpty body) (violCases env σ inB inC r (caseValue σ vs :: seen) hd)
  | .dflt d _ body :: r, seen, hd =>
      if hd then some (.secondDefault d)
      else orV (violL env σ inB inC r.isEmpty body) (violCases env σ inB inC r seen true)
/-- The cases of a poryswitch: ALL of them are checked, in source order. -/
def violPCases (env : Env) (σ : String → String) (inB inC : Bool) : List SPCase → Option SViol
  | [] => none
  | .colon _ _ x :: r => orV (violS env σ inB inC r.isEmpty x) (violPCases env σ inB inC r)
  | .brace _ _ body _ :: r => orV (violL env σ inB inC true body) (violPCases env σ inB inC r)
end

/-! ### the reference elaboration fails exactly with the first violation -/

/-- the error of a result, if any -/
def perrOf {α : Type} : Except PFail α → Option PFail
  | .error e => some e
  | .ok _ => none

@[simp] theorem perrOf_error {α : Type} (e : PFail) : perrOf (.error e : Except PFail α) = some e := rfl
@[simp] theorem perrOf_ok {α : Type} (a : α) : perrOf (.ok a : Except PFail α) = none := rfl

theorem perrOf_eq_none {α : Type} {r : Except PFail α} : perrOf r = none ↔ ∃ a, r = .ok a := by
  cases r <;> simp [perrOf]

theorem perrOf_eq_some {α : Type} {r : Except PFail α} {e : PFail} : perrOf r = some e ↔ r = .error e := by
  cases r <;> simp [perrOf]

/-- the first part fails: so does the whole, with that error -/
theorem orV_err {a b : Option SViol} {e : PFail} (h : some e = a.map SViol.err) :
    some e = (orV a b).map SViol.err := by
  cases a with
  | none => cases h
  | some v => exact h

/-- the first part succeeds: the whole is the rest -/
theorem orV_ok {a b : Option SViol} (h : none = a.map SViol.err) : orV a b = b := by
  cases a with
  | none => rfl
  | some v => cases h

theorem elabCond_viol (env : Env) (σ : String → String) (c : SCond) (j : Nat) :
    perrOf (elabCond env σ c j) = (violCond env c).map SViol.err := by
  cases c with
  | plain g => rfl
  | auto fm name lp a0 more rp =>
    simp only [elabCond, violCond]
    cases env.autoVars.lookup name.lit with
    | none => rfl
    | some av =>
      simp only
      cases autoPosBad av (more.length + 1) <;> rfl

theorem elabCases_isEmpty (env : Env) (sn : String) (σ : String → String) (B C : List Nat) (cs : List SCase)
    (seen : List String) (hd : Bool) (i j : Nat) (r : List SwitchCase × ImpData × Nat × Nat)
    (h : elabCases env sn σ B C cs seen hd i j = .ok r) : r.1.isEmpty = cs.isEmpty := by
  cases cs with
  | nil => simp only [elabCases] at h; cases h; rfl
  | cons c rest =>
    cases c with
    | case c vs colon body =>
      simp only [elabCases] at h
      split at h
      · cases h
      · split at h
        · cases h
        · split at h
          · cases h
          · cases h; rfl
    | dflt d colon body =>
      simp only [elabCases] at h
      split at h
      · cases h
      · split at h
        · cases h
        · split at h
          · cases h
          · cases h; rfl

theorem elabPCases_keys (env : Env) (sn : String) (σ : String → String) (B C : List Nat) :
    ∀ (cs : List SPCase) (acc : List (String × List Stmt × ImpData)) (i j : Nat)
      (r : List (String × List Stmt × ImpData) × Nat × Nat),
      elabPCases env sn σ B C cs acc i j = .ok r → r.1.map (·.1) = (pcaseKeys cs).reverse ++ acc.map (·.1)
  | [], acc, i, j, r, h => by simp only [elabPCases] at h; cases h; simp [pcaseKeys]
  | .colon key c x :: rest, acc, i, j, r, h => by
    simp only [elabPCases] at h
    split at h
    · cases h
    · rw [elabPCases_keys env sn σ B C rest _ _ _ r h]
      simp [pcaseKeys]
  | .brace key lb body rb :: rest, acc, i, j, r, h => by
    simp only [elabPCases] at h
    split at h
    · cases h
    · rw [elabPCases_keys env sn σ B C rest _ _ _ r h]
      simp [pcaseKeys]

theorem lookup_isNone_iff {β : Type} (k : String) : ∀ (l : List (String × β)),
    (l.lookup k).isNone = !(l.map (·.1)).contains k
  | [] => rfl
  | (a, b) :: r => by
    simp only [List.lookup_cons, List.map_cons, List.contains_cons]
    cases h : k == a with
    | true => simp
    | false => simp [lookup_isNone_iff k r]

theorem selectCase_isNone {β : Type} (env : Env) (table : List (String × β)) (v : String) :
    (selectCase env table v).isNone = (!(table.map (·.1)).contains v && !(table.map (·.1)).contains "_") := by
  unfold selectCase
  rw [← lookup_isNone_iff, ← lookup_isNone_iff]
  cases table.lookup v <;> simp

theorem selectCase_noCaseFor (env : Env) (sn : String) (σ : String → String) (B C : List Nat) (cs : List SPCase)
    (i j : Nat) (r : List (String × List Stmt × ImpData) × Nat × Nat)
    (h : elabPCases env sn σ B C cs [] i j = .ok r) (v : String) :
    (selectCase env r.1 v).isNone = noCaseFor v cs := by
  rw [selectCase_isNone, elabPCases_keys env sn σ B C cs [] i j r h]
  simp [noCaseFor]

mutual
theorem elabS_viol (env : Env) (sn : String) : (x : SStmt) → ∀ (σ : String → String) (B C : List Nat) (nx : Bool) (i j : Nat),
    perrOf (elabS env sn σ B C nx x i j) = (violS env σ (!B.isEmpty) (!C.isEmpty) nx x).map SViol.err
  | .cmd .., _, _, _, _, _, _ => by simp [elabS, violS]
  | .cmdI .., _, _, _, _, _, _ => by simp [elabS, violS]
  | .cmdE .., _, _, _, _, _, _ => by simp [elabS, violS]
  | .cmd0 .., _, _, _, _, _, _ => by simp [elabS, violS]
  | .label .., _, _, _, _, _, _ => by simp [elabS, violS]
  | .labelS .., _, _, _, _, _, _ => by simp [elabS, violS]
  | .ite _ _ c _ _ body _ elifs els, σ, B, C, _, i, j => by
    simp only [elabS, violS]
    have h0 := elabCond_viol env σ c j
    split
    · rename_i e hc; rw [hc] at h0; exact orV_err h0
    · rename_i t cid0 hc; rw [hc] at h0; rw [orV_ok h0]
      have h1 := elabL_viol env sn body σ B C true i cid0
      split
      · rename_i e hb; rw [hb] at h1; exact orV_err h1
      · rename_i b m1 sid1 cid1 hb; rw [hb] at h1; rw [orV_ok h1]
        have h2 := elabElifs_viol env sn elifs σ B C sid1 cid1
        split
        · rename_i e he; rw [he] at h2; exact orV_err h2
        · rename_i es m2 sid2 cid2 he; rw [he] at h2; rw [orV_ok h2]
          have h3 := elabElse_viol env sn els σ B C sid2 cid2
          split
          · rename_i e hl; rw [hl] at h3; exact h3
          · rename_i el m3 sid3 cid3 hl; rw [hl] at h3; exact h3
  | .while_ _ _ c _ _ body _, σ, B, C, _, i, j => by
    simp only [elabS, violS]
    have h0 := elabCond_viol env σ c j
    split
    · rename_i e hc; rw [hc] at h0; exact orV_err h0
    · rename_i t cid0 hc; rw [hc] at h0; rw [orV_ok h0]
      have h1 := elabL_viol env sn body σ (i :: B) (i :: C) true (i + 1) cid0
      simp only [List.isEmpty_cons, Bool.not_false] at h1
      split
      · rename_i e hb; rw [hb] at h1; exact h1
      · rename_i b m1 sid1 cid1 hb; rw [hb] at h1; exact h1
  | .whileInf _ _ body _, σ, B, C, _, i, j => by
    simp only [elabS, violS]
    have h1 := elabL_viol env sn body σ (i :: B) (i :: C) true (i + 1) j
    simp only [List.isEmpty_cons, Bool.not_false] at h1
    split
    · rename_i e hb; rw [hb] at h1; exact h1
    · rename_i b m1 sid1 cid1 hb; rw [hb] at h1; exact h1
  | .doWhile _ _ body _ _ _ c _, σ, B, C, _, i, j => by
    simp only [elabS, violS]
    have h1 := elabL_viol env sn body σ (i :: B) (i :: C) true (i + 1) j
    simp only [List.isEmpty_cons, Bool.not_false] at h1
    split
    · rename_i e hb; rw [hb] at h1; exact orV_err h1
    · rename_i b m1 sid1 cid1 hb; rw [hb] at h1; rw [orV_ok h1]
      have h0 := elabCond_viol env σ c cid1
      split
      · rename_i e hc; rw [hc] at h0; exact h0
      · rename_i t cid2 hc; rw [hc] at h0; exact h0
  | .brk t, σ, B, C, _, i, j => by
    cases B <;> simp [elabS, violS, SViol.err]
  | .cont t, σ, B, C, nx, i, j => by
    cases C <;> cases nx <;> simp [elabS, violS, SViol.err]
  | .switch_ sw _ _ _ _ _ _ _ cases rb, σ, B, C, _, i, j => by
    simp only [elabS, violS]
    have h1 := elabCases_viol env sn cases σ (i :: B) C [] false (i + 1) j
    simp only [List.isEmpty_cons, Bool.not_false] at h1
    split
    · rename_i e hb; rw [hb] at h1; exact orV_err h1
    · rename_i cs m1 sid1 cid1 hb; rw [hb] at h1; rw [orV_ok h1]
      have hE := elabCases_isEmpty env sn σ _ _ _ _ _ _ _ _ hb
      simp only at hE
      rw [hE]
      cases cases.isEmpty <;> simp [SViol.err]
  | .switchA sw _ name _ _ more rp2 _ _ cases rb, σ, B, C, _, i, j => by
    simp only [elabS, violS]
    cases env.autoVars.lookup name.lit with
    | none => simp [SViol.err]
    | some av =>
      simp only
      cases autoPosBad av (more.length + 1) with
      | some pos => simp [SViol.err]
      | none =>
        simp only
        have h1 := elabCases_viol env sn cases σ (i :: B) C [] false (i + 1) (j + 1)
        simp only [List.isEmpty_cons, Bool.not_false] at h1
        split
        · rename_i e hb; rw [hb] at h1; exact orV_err h1
        · rename_i cs m1 sid1 cid1 hb; rw [hb] at h1; rw [orV_ok h1]
          have hE := elabCases_isEmpty env sn σ _ _ _ _ _ _ _ _ hb
          simp only at hE
          rw [hE]
          cases cases.isEmpty <;> simp [SViol.err]
  | .pory ps _ x _ _ cases _, σ, B, C, _, i, j => by
    simp only [elabS, violS]
    split
    · simp [SViol.err]
    · split
      · simp [SViol.err]
      · have h1 := elabPCases_viol env sn cases σ B C [] i j
        split
        · rename_i e hb; rw [hb] at h1; exact orV_err h1
        · rename_i table sid1 cid1 hb; rw [hb] at h1; rw [orV_ok h1]
          have hS := selectCase_noCaseFor env sn σ B C cases i j _ hb (swVal env x.lit)
          simp only at hS
          rw [← hS]
          split
          · rename_i r hr; rw [hr]; simp
          · rename_i hr; rw [hr]
            cases env.envErrors <;> simp [SViol.err]
theorem elabL_viol (env : Env) (sn : String) : (b : List SStmt) → ∀ (σ : String → String) (B C : List Nat) (last : Bool) (i j : Nat),
    perrOf (elabL env sn σ B C last b i j) = (violL env σ (!B.isEmpty) (!C.isEmpty) last b).map SViol.err
  | [], _, _, _, _, _, _ => by simp [elabL, violL]
  | x :: r, σ, B, C, last, i, j => by
    simp only [elabL, violL]
    have h0 := elabS_viol env sn x σ B C (r.isEmpty && last) i j
    split
    · rename_i e hx; rw [hx] at h0; exact orV_err h0
    · rename_i a m1 sid1 cid1 hx; rw [hx] at h0; rw [orV_ok h0]
      have h1 := elabL_viol env sn r σ B C last sid1 cid1
      split
      · rename_i e hr; rw [hr] at h1; exact h1
      · rename_i b m2 sid2 cid2 hr; rw [hr] at h1; exact h1
theorem elabElifs_viol (env : Env) (sn : String) : (es : List SElif) → ∀ (σ : String → String) (B C : List Nat) (i j : Nat),
    perrOf (elabElifs env sn σ B C es i j) = (violElifs env σ (!B.isEmpty) (!C.isEmpty) es).map SViol.err
  | [], _, _, _, _, _ => by simp [elabElifs, violElifs]
  | .mk _ _ c _ _ body _ :: r, σ, B, C, i, j => by
    simp only [elabElifs, violElifs]
    have h0 := elabCond_viol env σ c j
    split
    · rename_i e hc; rw [hc] at h0; exact orV_err h0
    · rename_i t cid0 hc; rw [hc] at h0; rw [orV_ok h0]
      have h1 := elabL_viol env sn body σ B C true i cid0
      split
      · rename_i e hb; rw [hb] at h1; exact orV_err h1
      · rename_i b m1 sid1 cid1 hb; rw [hb] at h1; rw [orV_ok h1]
        have h2 := elabElifs_viol env sn r σ B C sid1 cid1
        split
        · rename_i e he; rw [he] at h2; exact h2
        · rename_i es m2 sid2 cid2 he; rw [he] at h2; exact h2
theorem elabElse_viol (env : Env) (sn : String) : (el : SElse) → ∀ (σ : String → String) (B C : List Nat) (i j : Nat),
    perrOf (elabElse env sn σ B C el i j) = (violElse env σ (!B.isEmpty) (!C.isEmpty) el).map SViol.err
  | .none, _, _, _, _, _ => by simp [elabElse, violElse]
  | .some _ _ body _, σ, B, C, i, j => by
    simp only [elabElse, violElse]
    have h1 := elabL_viol env sn body σ B C true i j
    split
    · rename_i e hb; rw [hb] at h1; exact h1
    · rename_i b m1 sid1 cid1 hb; rw [hb] at h1; exact h1
theorem elabCases_viol (env : Env) (sn : String) : (cs : List SCase) → ∀ (σ : String → String) (B C : List Nat) (seen : List String)
    (hd : Bool) (i j : Nat),
    perrOf (elabCases env sn σ B C cs seen hd i j) =
      (violCases env σ (!B.isEmpty) (!C.isEmpty) cs seen hd).map SViol.err
  | [], _, _, _, _, _, _, _ => by simp [elabCases, violCases]
  | .case c vs colon body :: r, σ, B, C, seen, hd, i, j => by
    simp only [elabCases, violCases]
    split
    · simp [SViol.err]
    · have h1 := elabL_viol env sn body σ B C r.isEmpty i j
      split
      · rename_i e hb; rw [hb] at h1; exact orV_err h1
      · rename_i b m1 sid1 cid1 hb; rw [hb] at h1; rw [orV_ok h1]
        have h2 := elabCases_viol env sn r σ B C (caseValue σ vs :: seen) hd sid1 cid1
        split
        · rename_i e he; rw [he] at h2; exact h2
        · rename_i cs m2 sid2 cid2 he; rw [he] at h2; exact h2
  | .dflt d _ body :: r, σ, B, C, seen, hd, i, j => by
    simp only [elabCases, violCases]
    split
    · simp [SViol.err]
    · have h1 := elabL_viol env sn body σ B C r.isEmpty i j
      split
      · rename_i e hb; rw [hb] at h1; exact orV_err h1
      · rename_i b m1 sid1 cid1 hb; rw [hb] at h1; rw [orV_ok h1]
        have h2 := elabCases_viol env sn r σ B C seen true sid1 cid1
        split
        · rename_i e he; rw [he] at h2; exact h2
        · rename_i cs m2 sid2 cid2 he; rw [he] at h2; exact h2
theorem elabPCases_viol (env : Env) (sn : String) : (cs : List SPCase) → ∀ (σ : String → String) (B C : List Nat)
    (acc : List (String × List Stmt × ImpData)) (i j : Nat),
    perrOf (elabPCases env sn σ B C cs acc i j) = (violPCases env σ (!B.isEmpty) (!C.isEmpty) cs).map SViol.err
  | [], _, _, _, _, _, _ => by simp [elabPCases, violPCases]
  | .colon _ _ x :: r, σ, B, C, acc, i, j => by
    simp only [elabPCases, violPCases]
    have h0 := elabS_viol env sn x σ B C r.isEmpty i j
    split
    · rename_i e hx; rw [hx] at h0; exact orV_err h0
    · rename_i a m1 sid1 cid1 hx; rw [hx] at h0; rw [orV_ok h0]
      exact elabPCases_viol env sn r σ B C _ sid1 cid1
  | .brace _ _ body _ :: r, σ, B, C, acc, i, j => by
    simp only [elabPCases, violPCases]
    have h0 := elabL_viol env sn body σ B C true i j
    split
    · rename_i e hx; rw [hx] at h0; exact orV_err h0
    · rename_i a m1 sid1 cid1 hx; rw [hx] at h0; rw [orV_ok h0]
      exact elabPCases_viol env sn r σ B C _ sid1 cid1
end

end Pory.C20c
