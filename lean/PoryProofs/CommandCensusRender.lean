import PoryProofs.CommandCensus
import PoryProofs.ProgramLabels
/-
Command census, part 2 (helper module of PoryProofs/Properties/C10d.lean): the command lines of rendered
output.

* `cmdLinesOf ls`: the `.command` lines of `ls`, in order.  `Line.command` is produced by
  `renderCommand` only (command statements and AutoVar preambles); labels, gotos, `compare` /
  `goto_if…` / `switch` / `case` lines, terminators, markers, blank lines, raw / text / movement / mart /
  map-script lines are other constructors.
* `cmdLinesOf_layout`: the command lines of a laid-out chunk table are, chunk by chunk in layout order,
  the rendered `chunkCmds`.
* `cmdLinesOf_emitScript`: … hence a permutation of the rendered `emittedCmds` of the body.
* `scriptCmdLines` … `programCmdLines`, `cmdLinesOf_emitProgram`: the command lines of a whole program are
  the concatenation of the per-script command lines (top-level scripts and inline map scripts, in output
  order).
-/
namespace Pory.C10d
open Pory Pory.Emit Pory.RenderSim

def isCmdLine : Line → Bool
  | .command .. => true
  | _ => false

/-- **The command lines of an output**, in order. -/
def cmdLinesOf (ls : List Line) : List Line := ls.filter isCmdLine

@[simp] theorem cmdLinesOf_nil : cmdLinesOf [] = [] := rfl
@[simp] theorem cmdLinesOf_append (a b : List Line) : cmdLinesOf (a ++ b) = cmdLinesOf a ++ cmdLinesOf b := by
  simp [cmdLinesOf]
theorem cmdLinesOf_cons (l : Line) (r : List Line) :
    cmdLinesOf (l :: r) = (if isCmdLine l then [l] else []) ++ cmdLinesOf r := by
  simp only [cmdLinesOf, List.filter_cons]; split <;> simp

theorem cmdLinesOf_none (ls : List Line) (h : ∀ l ∈ ls, isCmdLine l = false) : cmdLinesOf ls = [] := by
  simp only [cmdLinesOf, List.filter_eq_nil_iff]
  intro l hl; simp [h l hl]

theorem cmdLinesOf_flatMap_nil {α : Type} (f : α → List Line) (l : List α)
    (h : ∀ x ∈ l, cmdLinesOf (f x) = []) : cmdLinesOf (l.flatMap f) = [] := by
  induction l with
  | nil => rfl
  | cons a r ih =>
    rw [List.flatMap_cons, cmdLinesOf_append, h a (by simp), ih (fun x hx => h x (by simp [hx]))]
    rfl

@[simp] theorem cmdLinesOf_marker (o : Opts) (t : Tok) : cmdLinesOf (marker o t) = [] := by
  unfold marker; split <;> simp [cmdLinesOf, isCmdLine]

@[simp] theorem cmdLinesOf_renderCommand (ps : List ((Nat × Nat) × String)) (c : Cmd) :
    cmdLinesOf [renderCommand ps c] = [renderCommand ps c] := by
  simp [cmdLinesOf, isCmdLine, renderCommand]

theorem cmdLinesOf_branchComparison (o : Opts) (n : String) (t : Nat) (e : OpExpr) :
    cmdLinesOf (renderBranchComparison o n t e) = [] := by
  unfold renderBranchComparison
  simp only [cmdLinesOf_append, cmdLinesOf_marker, List.nil_append]
  split
  · split <;> simp [cmdLinesOf, isCmdLine]
  · split <;> simp [cmdLinesOf, isCmdLine]
  · simp [cmdLinesOf, isCmdLine]
  · rfl

theorem cmdLinesOf_caseLines (o : Opts) (n : String) (cases : List SwitchCaseBranch) :
    cmdLinesOf (caseLines o n cases) = [] := by
  unfold caseLines
  apply cmdLinesOf_flatMap_nil
  intro sc _
  simp [cmdLinesOf_cons, isCmdLine]

theorem cmdLinesOf_exitTo (n : String) (dest next : Option Nat) : cmdLinesOf (exitTo n dest next).1 = [] := by
  unfold exitTo
  cases dest with
  | none => simp [cmdLinesOf, isCmdLine]
  | some d => simp only; split <;> simp [cmdLinesOf, isCmdLine]

section
variable (o : Opts) (ps : List ((Nat × Nat) × String))

theorem cmdLinesOf_stmtLines (ss : List Stmt) :
    cmdLinesOf (stmtLines o ps ss) = (flatCmds ss).map (renderCommand ps) := by
  induction ss with
  | nil => rfl
  | cons s r ih =>
    cases s with
    | cmd c =>
      simp only [stmtLines, flatCmds, cmdLinesOf_append, cmdLinesOf_marker, cmdLinesOf_renderCommand, ih,
        List.nil_append, List.map_cons, List.singleton_append]
    | label t n g =>
      simp only [stmtLines, flatCmds, cmdLinesOf_append, cmdLinesOf_marker, ih, List.nil_append]
      simp [cmdLinesOf, isCmdLine]
    | ite => simpa [stmtLines, flatCmds] using ih
    | while_ => simpa [stmtLines, flatCmds] using ih
    | doWhile => simpa [stmtLines, flatCmds] using ih
    | brk => simpa [stmtLines, flatCmds] using ih
    | cont => simpa [stmtLines, flatCmds] using ih
    | switch_ => simpa [stmtLines, flatCmds] using ih

theorem cmdLinesOf_renderBranching (n : String) (c : Chunk) (next : Option Nat) :
    cmdLinesOf (renderBranching o ps n c next).1 = (branchCmds c.branch).map (renderCommand ps) := by
  rw [renderBranching_eq]
  cases hb : c.branch with
  | none =>
    simp only [branchCmds, List.map_nil]
    cases c.returnID with
    | none => simp [cmdLinesOf, isCmdLine]
    | some r => exact cmdLinesOf_exitTo _ _ _
  | jump d => exact cmdLinesOf_exitTo _ _ _
  | breakCtx d => exact cmdLinesOf_exitTo _ _ _
  | leaf t e f =>
    simp only [prepend, cmdLinesOf_append, cmdLinesOf_branchComparison, cmdLinesOf_exitTo, branchCmds,
      List.append_nil]
    unfold preambleLines
    cases e.preamble with
    | none => rfl
    | some p => simp
  | switch_ op cases dflt dest =>
    simp only [prepend, cmdLinesOf_append, cmdLinesOf_marker, cmdLinesOf_caseLines, branchCmds, List.map_nil,
      List.nil_append, List.append_nil]
    have h1 : cmdLinesOf [Line.switch_ op.lit] = [] := by simp [cmdLinesOf, isCmdLine]
    rw [h1, List.nil_append]
    cases dflt with
    | some d => exact cmdLinesOf_exitTo _ _ _
    | none =>
      simp only
      split
      · rfl
      · exact cmdLinesOf_exitTo _ _ _

theorem cmdLinesOf_bodyOf (n : String) (c : Chunk) (next : Option Nat) :
    cmdLinesOf (bodyOf o ps n c next) = (chunkCmds c).map (renderCommand ps) := by
  unfold bodyOf chunkCmds
  rw [cmdLinesOf_append, cmdLinesOf_append, cmdLinesOf_stmtLines, cmdLinesOf_renderBranching, List.map_append]
  split <;> simp [cmdLinesOf, isCmdLine]

theorem cmdLinesOf_lbl (n : String) (g : Bool) (jumps : List Nat) (id : Nat) :
    cmdLinesOf (lbl n g jumps id) = [] := by
  unfold lbl; split <;> simp [cmdLinesOf, isCmdLine]

/-- The command lines of a laid-out table: chunk by chunk, statements then leaf preamble. -/
theorem cmdLinesOf_layout (n : String) (G : List Chunk) (g : Bool) (jumps : List Nat) : ∀ (order : List Nat),
    cmdLinesOf (layout o ps n G g jumps order) =
      order.flatMap fun id => (chunkCmds (chunkOf G id)).map (renderCommand ps) := by
  intro order
  induction order with
  | nil => rfl
  | cons id rest ih =>
    rw [layout_cons, cmdLinesOf_append, cmdLinesOf_append, cmdLinesOf_lbl, cmdLinesOf_bodyOf, ih,
      List.flatMap_cons, List.nil_append]

end

/-- The chunks of the table in layout order, and the commands they hold. -/
def layoutCmds (G : List Chunk) (order : List Nat) : List Cmd := order.flatMap fun id => chunkCmds (chunkOf G id)

theorem layoutCmds_perm (G : List Chunk) (order : List Nat) (hn : (G.map (·.id)).Nodup)
    (hp : order.Perm (G.map (·.id))) : (layoutCmds G order).Perm (tableCmds G) := by
  have h := (C04c.map_chunkOf_perm G order hn hp).flatMap_right chunkCmds
  unfold layoutCmds tableCmds
  rwa [List.flatMap_map] at h

/-- The command lines of one emitted script, exactly: in layout order, for every chunk its command
statements and then the preamble of its leaf test. -/
theorem cmdLinesOf_emitScript_layout (o : Opts) (ps : List ((Nat × Nat) × String)) (tl : List String)
    (s : Script) (ls : List Line) (h : emitScript o ps tl s = .ok ls) :
    ∃ G order, scriptChunks s.body = .ok G ∧ C05.chunkOrder o G = .ok order ∧
      cmdLinesOf ls = (layoutCmds G order).map (renderCommand ps) := by
  rw [C05.emitScript_eq] at h
  cases hc : scriptChunks s.body with
  | error e => rw [hc] at h; cases h
  | ok G =>
    rw [hc] at h
    simp only at h
    obtain ⟨order, ho, hls, _⟩ := renderChunks_ok o ps s.name G (s.scope == .GLOBAL) tl ls h
    refine ⟨G, order, rfl, ho, ?_⟩
    rw [hls, cmdLinesOf_layout, layoutCmds, List.map_flatMap]

/-- **Per-script census**: the command lines of an emitted script are a permutation of the rendered
`emittedCmds` of its body. -/
theorem cmdLinesOf_emitScript (o : Opts) (ps : List ((Nat × Nat) × String)) (tl : List String)
    (s : Script) (ls : List Line) (h : emitScript o ps tl s = .ok ls) :
    (cmdLinesOf ls).Perm ((emittedCmds s.body).map (renderCommand ps)) := by
  obtain ⟨G, order, hc, ho, hl⟩ := cmdLinesOf_emitScript_layout o ps tl s ls h
  obtain ⟨hperm, _, _⟩ := C05.script_order_perm o s G order hc ho
  obtain ⟨hn, _⟩ := C05.scriptChunks_ids s.body G hc
  rw [hl]
  exact ((layoutCmds_perm G order hn hperm).trans (scriptChunks_perm s.body G hc)).map _

/-! ## whole programs -/

/-- The command lines `emitScript` produces for `s` (`[]` if `s` is not accepted): in the layout order of
its chunk table. -/
def scriptCmdLines (o : Opts) (ps : List ((Nat × Nat) × String)) (s : Script) : List Line :=
  match scriptChunks s.body with
  | .error _ => []
  | .ok G =>
    match C05.chunkOrder o G with
    | .error _ => []
    | .ok order => (layoutCmds G order).map (renderCommand ps)

theorem cmdLinesOf_emitScript_eq (o : Opts) (ps : List ((Nat × Nat) × String)) (tl : List String)
    (s : Script) (ls : List Line) (h : emitScript o ps tl s = .ok ls) :
    cmdLinesOf ls = scriptCmdLines o ps s := by
  obtain ⟨G, order, hc, ho, hl⟩ := cmdLinesOf_emitScript_layout o ps tl s ls h
  unfold scriptCmdLines
  simp only [hc, ho]
  exact hl

/-- … a permutation of the rendered commands of the body whenever the script is accepted. -/
theorem scriptCmdLines_perm (o : Opts) (ps : List ((Nat × Nat) × String)) (tl : List String)
    (s : Script) (ls : List Line) (h : emitScript o ps tl s = .ok ls) :
    (scriptCmdLines o ps s).Perm ((emittedCmds s.body).map (renderCommand ps)) := by
  rw [← cmdLinesOf_emitScript_eq o ps tl s ls h]
  exact cmdLinesOf_emitScript o ps tl s ls h

theorem cmdLinesOf_emitScripts (o : Opts) (ps : List ((Nat × Nat) × String)) (tl : List String) :
    ∀ (ss : List (Option Script)) (ls : List Line), emitScripts o ps tl ss = .ok ls →
      cmdLinesOf ls = (C04c.optScripts ss).flatMap (scriptCmdLines o ps) := by
  intro ss
  induction ss with
  | nil => intro ls h; simp [emitScripts] at h; subst h; rfl
  | cons s r ih =>
    intro ls h
    cases s with
    | none => simp only [emitScripts] at h; simpa [C04c.optScripts] using ih ls h
    | some sc =>
      simp only [emitScripts] at h
      split at h
      · cases h
      · next p hp =>
        split at h
        · cases h
        · next rest hr =>
          injection h with h
          subst h
          rw [cmdLinesOf_append, cmdLinesOf_emitScript_eq o ps tl sc p hp, ih rest hr]
          simp [C04c.optScripts]

theorem cmdLinesOf_tableHead (o : Opts) (t : TableMapScript) : cmdLinesOf (C08.tableHead o t) = [] := by
  unfold C08.tableHead
  rw [cmdLinesOf_append, cmdLinesOf_append, cmdLinesOf_flatMap_nil]
  · simp [cmdLinesOf, isCmdLine]
  · intro e _; simp [cmdLinesOf_cons, isCmdLine]

theorem cmdLinesOf_headerLines (o : Opts) (m : MapScripts) : cmdLinesOf (C08.headerLines o m) = [] := by
  unfold C08.headerLines
  rw [cmdLinesOf_append, cmdLinesOf_append, cmdLinesOf_append, cmdLinesOf_flatMap_nil, cmdLinesOf_flatMap_nil]
  · simp [cmdLinesOf, isCmdLine]
  · intro e _; simp [cmdLinesOf_cons, isCmdLine]
  · intro e _; simp [cmdLinesOf_cons, isCmdLine]

/-- inline scripts of the rows of tables, in output order -/
def tableScripts (ts : List TableMapScript) : List Script :=
  ts.flatMap fun t => C04c.optScripts (t.entries.map (·.script))

theorem cmdLinesOf_emitTables (o : Opts) (ps : List ((Nat × Nat) × String)) (tl : List String) :
    ∀ (ts : List TableMapScript) (ls : List Line), emitTables o ps tl ts = .ok ls →
      cmdLinesOf ls = (tableScripts ts).flatMap (scriptCmdLines o ps) := by
  intro ts
  induction ts with
  | nil => intro ls h; simp [emitTables] at h; subst h; rfl
  | cons t r ih =>
    intro ls h
    obtain ⟨scripts, rest, h1, h2, rfl⟩ := C08.table_shape o ps tl t r ls h
    rw [cmdLinesOf_append, cmdLinesOf_append, cmdLinesOf_tableHead, cmdLinesOf_emitScripts o ps tl _ _ h1,
      ih rest h2]
    simp [tableScripts]

theorem cmdLinesOf_emitMapScripts (o : Opts) (ps : List ((Nat × Nat) × String)) (tl : List String)
    (m : MapScripts) (ls : List Line) (h : emitMapScripts o ps tl m = .ok ls) :
    cmdLinesOf ls = (C04c.topScripts (.mapscripts m)).flatMap (scriptCmdLines o ps) := by
  obtain ⟨scripts, tables, h1, h2, rfl⟩ := C08.header_shape o ps tl m ls h
  rw [cmdLinesOf_append, cmdLinesOf_append, cmdLinesOf_headerLines, cmdLinesOf_emitScripts o ps tl _ _ h1,
    cmdLinesOf_emitTables o ps tl _ _ h2]
  simp [C04c.topScripts, tableScripts]

theorem cmdLinesOf_emitRaw (o : Opts) (vt : Tok) (v : String) : cmdLinesOf (emitRaw o vt v) = [] := by
  unfold emitRaw
  apply cmdLinesOf_flatMap_nil
  intro i _
  split <;> simp [cmdLinesOf, isCmdLine]

theorem cmdLinesOf_movement_steps (o : Opts) (cmds : List Tok) :
    cmdLinesOf (emitMovement.steps o cmds) = [] := by
  induction cmds with
  | nil => simp [emitMovement.steps, cmdLinesOf, isCmdLine]
  | cons c r ih =>
    unfold emitMovement.steps
    split <;> simp [cmdLinesOf_cons, isCmdLine, ih]

theorem cmdLinesOf_mart_go (o : Opts) (ts : List Tok) (items : List String) :
    cmdLinesOf (emitMart.go o ts items) = [] := by
  induction items generalizing ts with
  | nil => simp [emitMart.go, cmdLinesOf, isCmdLine]
  | cons i r ih =>
    unfold emitMart.go
    split <;> simp [cmdLinesOf_cons, isCmdLine, ih]

theorem cmdLinesOf_emitMovement (o : Opts) (m : MovementStmt) : cmdLinesOf (emitMovement o m) = [] := by
  unfold emitMovement
  simp [cmdLinesOf_cons, isCmdLine, cmdLinesOf_movement_steps]

theorem cmdLinesOf_emitMart (o : Opts) (tok : Tok) (name : String) (tis : List Tok) (items : List String)
    (scope : TT) : cmdLinesOf (emitMart o tok name tis items scope) = [] := by
  unfold emitMart
  simp [cmdLinesOf_cons, isCmdLine, cmdLinesOf_mart_go]

theorem cmdLinesOf_emitText (o : Opts) (t : Text) : cmdLinesOf (emitText o t) = [] := by
  unfold emitText
  simp only [cmdLinesOf_append, cmdLinesOf_marker, List.append_nil]
  have : ∀ (d : String) (xs : List (List Char)),
      cmdLinesOf (xs.map fun l => Line.textLine d (String.ofList l)) = [] := by
    intro d xs
    apply cmdLinesOf_none
    intro l hl
    simp only [List.mem_map] at hl
    obtain ⟨x, _, rfl⟩ := hl
    rfl
  rw [this]
  simp [cmdLinesOf, isCmdLine]

theorem cmdLinesOf_textsBlock (o : Opts) (texts : List Text) (i : Nat) :
    cmdLinesOf (C06b.textsBlock o i texts) = [] := by
  induction texts generalizing i with
  | nil => rfl
  | cons t r ih =>
    simp only [C06b.textsBlock, cmdLinesOf_append, cmdLinesOf_emitText, ih]
    split <;> simp [cmdLinesOf, isCmdLine]

theorem cmdLinesOf_emitTops (o : Opts) (ps : List ((Nat × Nat) × String)) (tl : List String) :
    ∀ (tops : List Top) (i : Nat) (ls : List Line) (n : Nat),
      emitTops o ps tl tops i = .ok (ls, n) →
      cmdLinesOf ls = (tops.flatMap C04c.topScripts).flatMap (scriptCmdLines o ps) := by
  intro tops
  induction tops with
  | nil => intro i ls n h; simp [emitTops] at h; rw [h.1]; rfl
  | cons t r ih =>
    intro i ls n h
    have hsep : cmdLinesOf (if i > 0 then [Line.blank] else []) = [] := by
      split <;> simp [cmdLinesOf, isCmdLine]
    rw [List.flatMap_cons, List.flatMap_append]
    cases t with
    | text tx =>
      simp only [emitTops] at h
      rw [ih i ls n h]
      rfl
    | script s =>
      simp only [emitTops] at h
      split at h
      · cases h
      · next l hl =>
        split at h
        · cases h
        · next l' n' hr =>
          simp only [Except.ok.injEq, Prod.mk.injEq] at h
          rw [← h.1, cmdLinesOf_append, cmdLinesOf_append, hsep, cmdLinesOf_emitScript_eq o ps tl s l hl,
            ih _ _ _ hr]
          simp [C04c.topScripts]
    | mapscripts m =>
      simp only [emitTops] at h
      split at h
      · cases h
      · next l hl =>
        split at h
        · cases h
        · next l' n' hr =>
          simp only [Except.ok.injEq, Prod.mk.injEq] at h
          rw [← h.1, cmdLinesOf_append, cmdLinesOf_append, hsep, cmdLinesOf_emitMapScripts o ps tl m l hl,
            ih _ _ _ hr]
          simp
    | raw tk vt v =>
      simp only [emitTops] at h
      split at h
      · cases h
      · next l' n' hr =>
        simp only [Except.ok.injEq, Prod.mk.injEq] at h
        rw [← h.1, cmdLinesOf_append, cmdLinesOf_append, hsep, cmdLinesOf_emitRaw, ih _ _ _ hr]
        simp [C04c.topScripts]
    | movement m =>
      simp only [emitTops] at h
      split at h
      · cases h
      · next l' n' hr =>
        simp only [Except.ok.injEq, Prod.mk.injEq] at h
        rw [← h.1, cmdLinesOf_append, cmdLinesOf_append, hsep, cmdLinesOf_emitMovement, ih _ _ _ hr]
        simp [C04c.topScripts]
    | mart tk name tis items scope =>
      simp only [emitTops] at h
      split at h
      · cases h
      · next l' n' hr =>
        simp only [Except.ok.injEq, Prod.mk.injEq] at h
        rw [← h.1, cmdLinesOf_append, cmdLinesOf_append, hsep, cmdLinesOf_emitMart, ih _ _ _ hr]
        simp [C04c.topScripts]

/-- **The command lines of a whole program**: the concatenation, over the scripts of the program in output
order (top-level scripts; for a `mapscripts` statement its inline scripts, then the inline scripts of its
table rows), of the per-script command lines.  Raw blocks, texts, movements, marts and the map-script
tables themselves contribute no command line. -/
theorem cmdLinesOf_emitProgram (o : Opts) (p : Program) (ls : List Line) (h : emitProgram o p = .ok ls) :
    cmdLinesOf ls = (C04c.scriptsOf p).flatMap (scriptCmdLines o p.patches) := by
  obtain ⟨body, i, hb, rfl⟩ := C06b.emitProgram_texts o p ls h
  rw [cmdLinesOf_append, cmdLinesOf_emitTops o p.patches _ p.tops 0 body i hb, cmdLinesOf_textsBlock,
    List.append_nil]
  rfl

end Pory.C10d
