import PoryModel.Render
/-
Helper lemmas for property C16 ("line markers are transparent").

`isMarker`, `strip` and the relation `Off o o'` ("`o'` is `o` with the markers switched off")
are defined here; the bottom-up lemmas say, for every rendering function `f` of the emitter
model, `strip (f o …) = f o' …` (lifted through `Except` with `Except.map`).
-/
namespace Pory.C16
open Pory Pory.Emit

/-- `true` exactly for the `# <line> "<file>"` marker lines. -/
@[simp] def isMarker : Line → Bool
  | .marker .. => true
  | _ => false

/-- Remove the marker lines. -/
def strip (ls : List Line) : List Line := ls.filter (fun l => !isMarker l)

@[simp] theorem strip_nil : strip [] = [] := rfl

@[simp] theorem strip_append (a b : List Line) : strip (a ++ b) = strip a ++ strip b := by
  simp [strip]

@[simp] theorem strip_cons_marker (n : Nat) (f : String) (r : List Line) :
    strip (Line.marker n f :: r) = strip r := by
  simp [strip]

@[simp] theorem strip_cons_labelDef {a0 a1 : _} (r : List Line) :
    strip ((Line.labelDef a0 a1) :: r) = (Line.labelDef a0 a1) :: strip r := rfl
@[simp] theorem strip_cons_command {a0 a1 : _} (r : List Line) :
    strip ((Line.command a0 a1) :: r) = (Line.command a0 a1) :: strip r := rfl
@[simp] theorem strip_cons_goto {a0 : _} (r : List Line) :
    strip ((Line.goto_ a0) :: r) = (Line.goto_ a0) :: strip r := rfl
@[simp] theorem strip_cons_gotoIfSet {a0 a1 : _} (r : List Line) :
    strip ((Line.gotoIfSet a0 a1) :: r) = (Line.gotoIfSet a0 a1) :: strip r := rfl
@[simp] theorem strip_cons_gotoIfUnset {a0 a1 : _} (r : List Line) :
    strip ((Line.gotoIfUnset a0 a1) :: r) = (Line.gotoIfUnset a0 a1) :: strip r := rfl
@[simp] theorem strip_cons_compare {a0 a1 a2 : _} (r : List Line) :
    strip ((Line.compare a0 a1 a2) :: r) = (Line.compare a0 a1 a2) :: strip r := rfl
@[simp] theorem strip_cons_gotoIfCmp {a0 a1 : _} (r : List Line) :
    strip ((Line.gotoIfCmp a0 a1) :: r) = (Line.gotoIfCmp a0 a1) :: strip r := rfl
@[simp] theorem strip_cons_checkTrainerFlag {a0 : _} (r : List Line) :
    strip ((Line.checkTrainerFlag a0) :: r) = (Line.checkTrainerFlag a0) :: strip r := rfl
@[simp] theorem strip_cons_gotoIfTrainer {a0 a1 : _} (r : List Line) :
    strip ((Line.gotoIfTrainer a0 a1) :: r) = (Line.gotoIfTrainer a0 a1) :: strip r := rfl
@[simp] theorem strip_cons_switch {a0 : _} (r : List Line) :
    strip ((Line.switch_ a0) :: r) = (Line.switch_ a0) :: strip r := rfl
@[simp] theorem strip_cons_case {a0 a1 : _} (r : List Line) :
    strip ((Line.case_ a0 a1) :: r) = (Line.case_ a0 a1) :: strip r := rfl
@[simp] theorem strip_cons_terminator {a0 : _} (r : List Line) :
    strip ((Line.terminator a0) :: r) = (Line.terminator a0) :: strip r := rfl
@[simp] theorem strip_cons_blank (r : List Line) :
    strip (Line.blank :: r) = Line.blank :: strip r := rfl
@[simp] theorem strip_cons_raw {a0 : _} (r : List Line) :
    strip ((Line.raw a0) :: r) = (Line.raw a0) :: strip r := rfl
@[simp] theorem strip_cons_mapScript {a0 a1 : _} (r : List Line) :
    strip ((Line.mapScript a0 a1) :: r) = (Line.mapScript a0 a1) :: strip r := rfl
@[simp] theorem strip_cons_mapScript2 {a0 a1 a2 : _} (r : List Line) :
    strip ((Line.mapScript2 a0 a1 a2) :: r) = (Line.mapScript2 a0 a1 a2) :: strip r := rfl
@[simp] theorem strip_cons_byte0 (r : List Line) :
    strip (Line.byte0 :: r) = Line.byte0 :: strip r := rfl
@[simp] theorem strip_cons_twoByte0 (r : List Line) :
    strip (Line.twoByte0 :: r) = Line.twoByte0 :: strip r := rfl
@[simp] theorem strip_cons_align2 (r : List Line) :
    strip (Line.align2 :: r) = Line.align2 :: strip r := rfl
@[simp] theorem strip_cons_twoByte {a0 : _} (r : List Line) :
    strip ((Line.twoByte a0) :: r) = (Line.twoByte a0) :: strip r := rfl
@[simp] theorem strip_cons_step {a0 : _} (r : List Line) :
    strip ((Line.step a0) :: r) = (Line.step a0) :: strip r := rfl
@[simp] theorem strip_cons_textLine {a0 a1 : _} (r : List Line) :
    strip ((Line.textLine a0 a1) :: r) = (Line.textLine a0 a1) :: strip r := rfl

theorem strip_cons_of_not {l : Line} (h : isMarker l = false) (r : List Line) :
    strip (l :: r) = l :: strip r := by
  simp only [strip, List.filter_cons, h]; rfl

theorem strip_flatMap {α : Type} (xs : List α) (f : α → List Line) :
    strip (xs.flatMap f) = xs.flatMap (fun x => strip (f x)) := by
  induction xs with
  | nil => rfl
  | cons x r ih => simp [List.flatMap_cons, ih]

theorem strip_eq_self_iff (ls : List Line) : strip ls = ls ↔ ∀ l ∈ ls, isMarker l = false := by
  simp [strip, List.filter_eq_self]

/-- `marker` only ever produces marker lines. -/
@[simp] theorem strip_marker (o : Opts) (t : Tok) : strip (marker o t) = [] := by
  unfold marker; split <;> simp

theorem marker_off {o : Opts} (h : o.markers = false) (t : Tok) : marker o t = [] := by
  simp [marker, h]

theorem markers_lineMarkers_false (o : Opts) : ({ o with lineMarkers := false } : Opts).markers = false := by
  simp [Opts.markers]

/-- `o'` behaves like `o` with the line markers switched off. -/
structure Off (o o' : Opts) : Prop where
  opt : o'.optimize = o.optimize
  off : o'.markers = false

theorem Off.of_lineMarkers_false (o : Opts) : Off o { o with lineMarkers := false } :=
  ⟨rfl, markers_lineMarkers_false o⟩

theorem Off.refl {o : Opts} (h : o.markers = false) : Off o o := ⟨rfl, h⟩

/-! ### Bottom-up: every rendering function commutes with `strip` -/

variable {o o' : Opts}

theorem renderBranchComparison_strip (h : Off o o') (n : String) (t : Nat) (e : OpExpr) :
    strip (renderBranchComparison o n t e) = renderBranchComparison o' n t e := by
  unfold renderBranchComparison
  simp only [strip_append, strip_marker, marker_off h.off, List.nil_append]
  split <;> simp
  · split <;> simp
  · split <;> simp

theorem renderStatements_strip (h : Off o o') (ps : List ((Nat × Nat) × String))
    (cl tl : List String) (ss : List Stmt) :
    Except.map strip (renderStatements o ps cl tl ss) = renderStatements o' ps cl tl ss := by
  induction ss with
  | nil => rfl
  | cons s r ih =>
    cases s with
    | cmd c =>
      rw [renderStatements, renderStatements, ← ih]
      cases renderStatements o ps cl tl r <;> simp [Except.map, marker_off h.off, renderCommand]
    | label tok name g =>
      rw [renderStatements, renderStatements, ← ih]
      split
      · rfl
      · split
        · rfl
        · cases renderStatements o ps cl tl r <;> simp [Except.map, marker_off h.off]
    | _ => rfl

/-- Map `strip` over the lines of a `renderBranching` result. -/
def stripBr (r : List Line × List Nat × Bool) : List Line × List Nat × Bool := (strip r.1, r.2.1, r.2.2)

theorem caseLines_strip (h : Off o o') (n : String) (cases : List SwitchCaseBranch) :
    strip (cases.flatMap fun sc => marker o sc.value ++ [Line.case_ sc.value.lit (jumpLabel n sc.dest)]) =
      cases.flatMap fun sc => marker o' sc.value ++ [Line.case_ sc.value.lit (jumpLabel n sc.dest)] := by
  rw [strip_flatMap]
  simp [marker_off h.off]

/-- Same registered ids, same fall-through flag, stripped lines equal. -/
theorem renderBranching_strip (h : Off o o') (ps : List ((Nat × Nat) × String)) (n : String)
    (c : Chunk) (next : Option Nat) :
    stripBr (renderBranching o ps n c next) = renderBranching o' ps n c next := by
  unfold renderBranching
  cases c.branch with
  | none =>
    simp only
    split
    · simp [stripBr]
    · split <;> simp [stripBr]
  | jump d => simp only; split <;> simp [stripBr]
  | breakCtx d =>
    simp only
    split
    · simp [stripBr]
    · split <;> simp [stripBr]
  | leaf t e f =>
    simp only
    have hc := renderBranchComparison_strip h n t e
    cases e.preamble <;> simp only
    · split
      · simp [stripBr, hc]
      · split <;> simp [stripBr, hc]
    · split
      · simp [stripBr, hc, renderCommand]
      · split <;> simp [stripBr, hc, renderCommand]
  | switch_ operand cases dflt dest =>
    simp only
    have hc := caseLines_strip h n cases
    split
    · split <;> simp [stripBr, hc, marker_off h.off]
    · split
      · split <;> simp [stripBr, hc, marker_off h.off]
      · simp [stripBr, hc, marker_off h.off]

/-- Map `strip` over the bodies of a `renderBodies` result. -/
def stripBodies (r : List (Nat × List Line) × List Nat) : List (Nat × List Line) × List Nat :=
  (r.1.map fun b => (b.1, strip b.2), r.2)

theorem renderBodies_strip (h : Off o o') (ps : List ((Nat × Nat) × String)) (n : String)
    (chunks : List Chunk) (cl tl : List String) (order : List Nat) :
    Except.map stripBodies (renderBodies o ps n chunks cl tl order) =
      renderBodies o' ps n chunks cl tl order := by
  induction order with
  | nil => rfl
  | cons id rest ih =>
    rw [renderBodies, renderBodies, ← ih]
    cases findChunk chunks id with
    | none => rfl
    | some c =>
      simp only
      rw [← renderStatements_strip h, ← renderBranching_strip h]
      generalize renderBranching o ps n c rest.head? = rb
      obtain ⟨bl, reg, fall⟩ := rb
      cases renderStatements o ps cl tl c.statements with
      | error e => rfl
      | ok sl =>
        cases renderBodies o ps n chunks cl tl rest with
        | error e => rfl
        | ok br =>
          cases fall <;> simp [Except.map, stripBr, stripBodies]

theorem renderChunks_strip (h : Off o o') (ps : List ((Nat × Nat) × String)) (chunks : List Chunk)
    (n : String) (g : Bool) (tl : List String) :
    Except.map strip (renderChunks o ps chunks n g tl) = renderChunks o' ps chunks n g tl := by
  unfold renderChunks
  rw [h.opt]
  simp only
  cases (if o.optimize then optimizeChunkOrder chunks else .ok (sortNat (chunks.map (·.id)))) with
  | error e => rfl
  | ok order =>
    simp only
    rw [← renderBodies_strip h]
    cases renderBodies o ps n chunks (chunks.map fun c => chunkLabel n c.id) tl order with
    | error e => rfl
    | ok br =>
      simp only [Except.map, stripBodies, strip_flatMap, List.flatMap_map]
      congr
      funext x
      split <;> simp

theorem emitScript_strip (h : Off o o') (ps : List ((Nat × Nat) × String)) (tl : List String)
    (s : Script) : Except.map strip (emitScript o ps tl s) = emitScript o' ps tl s := by
  unfold emitScript
  cases scriptChunks s.body with
  | error e => rfl
  | ok chunks => exact renderChunks_strip h ps chunks _ _ tl

theorem emitText_strip (h : Off o o') (t : Text) : strip (emitText o t) = emitText o' t := by
  unfold emitText
  have hm : ∀ (d : String) (ls : List (List Char)),
      strip (ls.map fun l => Line.textLine d (String.ofList l)) =
        ls.map fun l => Line.textLine d (String.ofList l) := by
    intro d ls
    induction ls with
    | nil => rfl
    | cons l r ih => simp [ih]
  simp [marker_off h.off, hm]

theorem emitRaw_strip (h : Off o o') (vt : Tok) (v : String) :
    strip (emitRaw o vt v) = emitRaw o' vt v := by
  unfold emitRaw
  simp only [strip_flatMap, h.off]
  congr
  funext i
  split <;> simp

theorem emitMovement_steps_strip (h : Off o o') (cs : List Tok) :
    strip (emitMovement.steps o cs) = emitMovement.steps o' cs := by
  induction cs with
  | nil => simp [emitMovement.steps]
  | cons c r ih =>
    rw [emitMovement.steps, emitMovement.steps]
    split <;> simp [marker_off h.off, ih]

theorem emitMovement_strip (h : Off o o') (m : MovementStmt) :
    strip (emitMovement o m) = emitMovement o' m := by
  unfold emitMovement
  simp [marker_off h.off, emitMovement_steps_strip h]

theorem emitMart_go_strip (h : Off o o') (ts : List Tok) (items : List String) :
    strip (emitMart.go o ts items) = emitMart.go o' ts items := by
  induction items generalizing ts with
  | nil => simp [emitMart.go]
  | cons it r ih =>
    rw [emitMart.go, emitMart.go]
    split <;> simp [marker_off h.off, ih]

theorem emitMart_strip (h : Off o o') (tok : Tok) (name : String) (tis : List Tok)
    (items : List String) (scope : TT) :
    strip (emitMart o tok name tis items scope) = emitMart o' tok name tis items scope := by
  unfold emitMart
  simp [marker_off h.off, emitMart_go_strip h]

theorem emitScripts_strip (h : Off o o') (ps : List ((Nat × Nat) × String)) (tl : List String)
    (ss : List (Option Script)) :
    Except.map strip (emitScripts o ps tl ss) = emitScripts o' ps tl ss := by
  induction ss with
  | nil => rfl
  | cons s r ih =>
    cases s with
    | none => rw [emitScripts, emitScripts, ih]
    | some s =>
      rw [emitScripts, emitScripts, ← ih, ← emitScript_strip h]
      cases emitScript o ps tl s with
      | error e => rfl
      | ok ls => cases emitScripts o ps tl r <;> simp [Except.map]

theorem emitTables_strip (h : Off o o') (ps : List ((Nat × Nat) × String)) (tl : List String)
    (ts : List TableMapScript) :
    Except.map strip (emitTables o ps tl ts) = emitTables o' ps tl ts := by
  induction ts with
  | nil => rfl
  | cons t r ih =>
    rw [emitTables, emitTables, ← ih, ← emitScripts_strip h]
    cases emitScripts o ps tl (t.entries.map (·.script)) with
    | error e => rfl
    | ok ls =>
      cases emitTables o ps tl r <;> simp [Except.map, strip_flatMap, marker_off h.off]

theorem emitMapScripts_strip (h : Off o o') (ps : List ((Nat × Nat) × String)) (tl : List String)
    (m : MapScripts) :
    Except.map strip (emitMapScripts o ps tl m) = emitMapScripts o' ps tl m := by
  unfold emitMapScripts
  rw [← emitTables_strip h, ← emitScripts_strip h]
  cases emitScripts o ps tl (m.mapScripts.map (·.script)) with
  | error e => rfl
  | ok ls =>
    cases emitTables o ps tl m.tables <;> simp [Except.map, strip_flatMap, marker_off h.off]

/-- Map `strip` over the lines of an `emitTops` result. -/
def stripTops (r : List Line × Nat) : List Line × Nat := (strip r.1, r.2)

theorem emitTops_strip (h : Off o o') (ps : List ((Nat × Nat) × String)) (tl : List String)
    (ts : List Top) (i : Nat) :
    Except.map stripTops (emitTops o ps tl ts i) = emitTops o' ps tl ts i := by
  induction ts generalizing i with
  | nil => rfl
  | cons t r ih =>
    have hsep : strip (if i > 0 then [Line.blank] else []) = (if i > 0 then [Line.blank] else []) := by
      split <;> simp
    cases t with
    | text t => rw [emitTops, emitTops, ih]
    | script s =>
      rw [emitTops, emitTops, ← ih, ← emitScript_strip h]
      cases emitScript o ps tl s with
      | error e => rfl
      | ok ls => cases emitTops o ps tl r (i + 1) <;> simp [Except.map, stripTops, hsep]
    | mapscripts m =>
      rw [emitTops, emitTops, ← ih, ← emitMapScripts_strip h]
      cases emitMapScripts o ps tl m with
      | error e => rfl
      | ok ls => cases emitTops o ps tl r (i + 1) <;> simp [Except.map, stripTops, hsep]
    | raw tok vt v =>
      rw [emitTops, emitTops, ← ih, ← emitRaw_strip h]
      cases emitTops o ps tl r (i + 1) <;> simp [Except.map, stripTops, hsep]
    | movement m =>
      rw [emitTops, emitTops, ← ih, ← emitMovement_strip h]
      cases emitTops o ps tl r (i + 1) <;> simp [Except.map, stripTops, hsep]
    | mart tok name tis items scope =>
      rw [emitTops, emitTops, ← ih, ← emitMart_strip h]
      cases emitTops o ps tl r (i + 1) <;> simp [Except.map, stripTops, hsep]

theorem emitProgram_strip (h : Off o o') (p : Program) :
    Except.map strip (emitProgram o p) = emitProgram o' p := by
  unfold emitProgram
  simp only
  rw [← emitTops_strip h]
  cases emitTops o p.patches (p.texts.map (·.name)) p.tops 0 with
  | error e => rfl
  | ok r =>
    simp only [Except.map, stripTops, strip_append, strip_flatMap]
    congr
    funext j
    rw [emitText_strip h]
    split <;> simp

end Pory.C16
