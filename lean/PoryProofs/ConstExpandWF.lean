import PoryProofs.ConstExpand
/-
Helpers for C13c, part 3: when is the hand expansion of a well-formed block well formed (`SWF`)?
Sufficient: every word of every stored value gets (by `wordType`) a *plain* type — not `,` `(` `)` EOF `format`
STRING STRINGTYPE `moves` (the tokens that structure a command argument, `C10b.Plain`) and not `:` (which ends a
`case` value): `PlainValues wt`.  That the condition is genuinely needed (a value with a comma changes the
argument structure) is shown on the parser in `Properties/C13c.lean` (`comma_value_changes_arguments`).
-/
namespace Pory.C13c
open Pory Pory.Parser Pory.C02P Pory.C10b Pory.C10c Pory.StmtG Pory.C13b Pory.TopParse
open Pory.C11b (operandName badPosMsg Form printAuto autoLeafT leftSideMsg)

/-- Types of words that structure neither a command argument nor a `case` header. -/
def plainTy (ty : TT) : Bool :=
  ty != .COMMA && ty != .LPAREN && ty != .RPAREN && ty != .EOF && ty != .FORMAT && ty != .STRING &&
    ty != .STRINGTYPE && ty != .MOVES && ty != .COLON

/-- Every word of every stored value is written as a plain token. -/
def PlainValues (wt : WTable) : Prop := ∀ e ∈ wt, ∀ w ∈ e.2, plainTy (wordType w) = true

instance (wt : WTable) : Decidable (PlainValues wt) := by unfold PlainValues; exact inferInstance

theorem plainTy_spec {t : Tok} (h : plainTy t.type = true) : Plain t ∧ t.type ≠ .COLON := by
  simp only [plainTy, Bool.and_eq_true, bne_iff_ne, ne_eq] at h
  obtain ⟨⟨⟨⟨⟨⟨⟨⟨h1, h2⟩, h3⟩, h4⟩, h5⟩, h6⟩, h7⟩, h8⟩, h9⟩ := h
  exact ⟨⟨h1, h2, h3, h4, h5, h6, h7, h8⟩, h9⟩

section
set_option linter.unusedSectionVars false
variable {wt : WTable} (hpv : PlainValues wt)
include hpv

/-- A token of an expansion is the token itself or a plain word token. -/
theorem mem_expandTok {t x : Tok} (hx : x ∈ expandTok wt t) : x = t ∨ (Plain x ∧ x.type ≠ .COLON) := by
  unfold expandTok at hx
  cases hl : wt.lookup t.lit with
  | none => rw [hl] at hx; simp at hx; exact Or.inl hx
  | some ws =>
    rw [hl] at hx
    simp only [List.mem_map] at hx
    obtain ⟨w, hw, rfl⟩ := hx
    exact Or.inr (plainTy_spec (t := wordTok t w) (hpv _ (lookup_mem' wt t.lit ws hl) w hw))

theorem mem_expandArgTok {t x : Tok} (hx : x ∈ expandArgTok wt t) : x = t ∨ (Plain x ∧ x.type ≠ .COLON) := by
  unfold expandArgTok at hx
  split at hx
  · simp at hx; exact Or.inl hx
  · exact mem_expandTok hpv hx

omit hpv in
theorem depthAfter_plain (l r : List Tok) (d : Nat) (h : ∀ x ∈ l, x.type ≠ .LPAREN ∧ x.type ≠ .RPAREN) :
    depthAfter d (l ++ r) = depthAfter d r := by
  induction l with
  | nil => rfl
  | cons x l ih =>
    obtain ⟨h1, h2⟩ := h x (by simp)
    simp only [List.cons_append, depthAfter, h1, h2, if_false]
    exact ih (fun y hy => h y (by simp [hy]))

theorem depthAfter_expandArgTok (t : Tok) (r r' : List Tok) (d : Nat)
    (ih : ∀ d, depthAfter d r' = depthAfter d r) :
    depthAfter d (expandArgTok wt t ++ r') = depthAfter d (t :: r) := by
  unfold expandArgTok
  split
  · rename_i hp
    simp only [List.cons_append, List.nil_append, depthAfter]
    split
    · exact ih _
    · split
      · cases d with
        | zero => rfl
        | succ k => exact ih _
      · exact ih _
  · rename_i hp
    have h1 : t.type ≠ .LPAREN := fun h => hp (Or.inl h)
    have h2 : t.type ≠ .RPAREN := fun h => hp (Or.inr h)
    rw [depthAfter_plain _ _ _ (fun x hx => ?_), ih]
    · simp [depthAfter, h1, h2]
    · rcases mem_expandTok hpv hx with rfl | ⟨hpl, _⟩
      · exact ⟨h1, h2⟩
      · exact ⟨hpl.2.1, hpl.2.2.1⟩

theorem depthAfter_expandArg (a : List Tok) : ∀ d, depthAfter d (expandArg wt a) = depthAfter d a := by
  induction a with
  | nil => intro d; rfl
  | cons t r ih =>
    intro d
    have : expandArg wt (t :: r) = expandArgTok wt t ++ expandArg wt r := by simp [expandArg]
    rw [this]
    exact depthAfter_expandArgTok hpv t r _ d ih

theorem argOK_expand (hne : NonEmptyWords wt) {a : List Tok} (h : ArgOK a) : ArgOK (expandArg wt a) := by
  refine ⟨?_, ?_, ?_⟩
  · obtain ⟨t, r, rfl⟩ := List.exists_cons_of_ne_nil h.nonempty
    have := expandArgTok_ne_nil hne t
    simp [expandArg, this]
  · intro x hx
    simp only [expandArg, List.mem_flatMap] at hx
    obtain ⟨t, ht, hx⟩ := hx
    rcases mem_expandArgTok hpv hx with rfl | ⟨hpl, _⟩
    · exact h.toks _ ht
    · exact Or.inl hpl
  · rw [depthAfter_expandArg hpv]
    exact h.balanced

theorem more_expand (hne : NonEmptyWords wt) {more : List (Tok × List Tok)}
    (h : more.all (fun p => p.1.type == .COMMA && decide (ArgOK p.2)) = true) :
    (expandMore wt more).all (fun p => p.1.type == .COMMA && decide (ArgOK p.2)) = true := by
  simp only [List.all_eq_true, Bool.and_eq_true, decide_eq_true_eq, expandMore, List.mem_map] at h ⊢
  rintro p ⟨q, hq, rfl⟩
  exact ⟨(h q hq).1, argOK_expand hpv hne (h q hq).2⟩

/-! arguments with string / `moves` elements -/

omit hpv in
theorem depthE_toks (ts : List Tok) (r : List AElem) (d : Nat) :
    depthE d (ts.map .tok ++ r) = (depthAfter d ts).bind fun d' => depthE d' r := by
  induction ts generalizing d with
  | nil => simp [depthAfter]
  | cons t ts ih =>
    simp only [List.map_cons, List.cons_append, depthE, depthAfter]
    split
    · exact ih _
    · split
      · cases d with
        | zero => rfl
        | succ k => exact ih _
      · exact ih _

theorem depthE_expandArgE (a : List AElem) : ∀ d, depthE d (expandArgE wt a) = depthE d a := by
  induction a with
  | nil => intro d; rfl
  | cons e r ih =>
    intro d
    have : expandArgE wt (e :: r) = expandElem wt e ++ expandArgE wt r := by simp [expandArgE]
    rw [this]
    cases e with
    | tok t =>
      simp only [expandElem]
      rw [depthE_toks]
      have h0 := depthAfter_expandArgTok hpv t [] [] d (fun _ => rfl)
      simp only [List.append_nil] at h0
      rw [h0]
      simp only [depthAfter, depthE]
      split
      · exact ih _
      · split
        · cases d with
          | zero => rfl
          | succ k => exact ih _
        · exact ih _
    | str t => simp only [expandElem, List.cons_append, List.nil_append, depthE]; exact ih _
    | tstr ty t => simp only [expandElem, List.cons_append, List.nil_append, depthE]; exact ih _
    | moves mv lp items rp => simp only [expandElem, List.cons_append, List.nil_append, depthE]; exact ih _

theorem argEOK_expand (hne : NonEmptyWords wt) {a : List AElem} (h : argEOK a = true) :
    argEOK (expandArgE wt a) = true := by
  rw [argEOK_iff] at h ⊢
  obtain ⟨h1, h2, h3⟩ := h
  refine ⟨?_, ?_, ?_⟩
  · obtain ⟨e, r, rfl⟩ := List.exists_cons_of_ne_nil h1
    have := expandElem_ne_nil hne e
    simp [expandArgE, this]
  · simp only [List.all_eq_true, expandArgE, List.mem_flatMap] at h2 ⊢
    rintro x ⟨e, he, hx⟩
    cases e with
    | tok t =>
      simp only [expandElem, List.mem_map] at hx
      obtain ⟨y, hy, rfl⟩ := hx
      rcases mem_expandArgTok hpv hy with rfl | ⟨hpl, _⟩
      · exact h2 _ he
      · simp only [AElem.ok, decide_eq_true_eq]; exact Or.inl hpl
    | str t => simp only [expandElem, List.mem_singleton] at hx; subst hx; exact h2 _ he
    | tstr ty t => simp only [expandElem, List.mem_singleton] at hx; subst hx; exact h2 _ he
    | moves mv lp items rp => simp only [expandElem, List.mem_singleton] at hx; subst hx; exact h2 _ he
  · rw [depthE_expandArgE hpv]
    exact h3

theorem moreE_expand (hne : NonEmptyWords wt) {more : List (Tok × List AElem)}
    (h : more.all (fun p => p.1.type == .COMMA && argEOK p.2) = true) :
    (expandMoreE wt more).all (fun p => p.1.type == .COMMA && argEOK p.2) = true := by
  simp only [List.all_eq_true, Bool.and_eq_true, expandMoreE, List.mem_map] at h ⊢
  rintro p ⟨q, hq, rfl⟩
  exact ⟨(h q hq).1, argEOK_expand hpv hne (h q hq).2⟩

theorem caseVals_expand {vs : List Tok} (h : vs.all caseValTok = true) :
    (expandToks wt vs).all caseValTok = true := by
  simp only [List.all_eq_true, expandToks, List.mem_flatMap] at h ⊢
  rintro x ⟨t, ht, hx⟩
  rcases mem_expandTok hpv hx with rfl | ⟨hpl, hc⟩
  · exact h _ ht
  · simp only [caseValTok, Bool.and_eq_true, bne_iff_ne, ne_eq]
    exact ⟨hc, hpl.2.2.2.1⟩

theorem operands_expand {ops : List Tok} (h : ops.all operandTok = true) :
    (expandToks wt ops).all operandTok = true := by
  simp only [List.all_eq_true, expandToks, List.mem_flatMap] at h ⊢
  rintro x ⟨t, ht, hx⟩
  rcases mem_expandTok hpv hx with rfl | ⟨hpl, hc⟩
  · exact h _ ht
  · simp only [operandTok, Bool.and_eq_true, bne_iff_ne, ne_eq]
    exact ⟨hpl.2.2.1, hpl.2.2.2.1⟩

theorem swfCond_expand (hne : NonEmptyWords wt) (c : SCond) (h : swfCond c = true) :
    swfCond (expandCond wt c) = true := by
  cases c with
  | plain g => rfl
  | auto fm name lp a0 more rp =>
    simp only [swfCond, expandCond, Bool.and_eq_true, decide_eq_true_eq] at h ⊢
    obtain ⟨⟨⟨⟨h1, h2⟩, h3⟩, h4⟩, h5⟩ := h
    exact ⟨⟨⟨⟨h1, h2⟩, h3⟩, argOK_expand hpv hne h4⟩, more_expand hpv hne h5⟩

variable (hne : NonEmptyWords wt)
include hne

mutual
theorem swfS_expand : (x : SStmt) → swfS x = true → swfS (expandS wt x) = true
  | .cmd name lp a0 more rp, h => by
    simp only [swfS, expandS, Bool.and_eq_true, decide_eq_true_eq] at h ⊢
    obtain ⟨⟨⟨⟨h1, h2⟩, h3⟩, h4⟩, h5⟩ := h
    exact ⟨⟨⟨⟨h1, h2⟩, h3⟩, argOK_expand hpv hne h4⟩, more_expand hpv hne h5⟩
  | .cmdI name lp a0 more rp, h => by
    simp only [swfS, expandS, Bool.and_eq_true] at h ⊢
    obtain ⟨⟨⟨⟨h1, h2⟩, h3⟩, h4⟩, h5⟩ := h
    exact ⟨⟨⟨⟨h1, h2⟩, h3⟩, argEOK_expand hpv hne h4⟩, moreE_expand hpv hne h5⟩
  | .cmdE name lp rp, h => h
  | .cmd0 name, h => h
  | .label name colon, h => h
  | .labelS name lp sc rp colon, h => h
  | .ite ifTok lp c rp lb body rb elifs els, h => by
    simp only [swfS, expandS, Bool.and_eq_true] at h ⊢
    obtain ⟨⟨⟨⟨⟨⟨⟨⟨h1, h2⟩, h3⟩, h4⟩, h5⟩, h6⟩, h7⟩, h8⟩, h9⟩ := h
    exact ⟨⟨⟨⟨⟨⟨⟨⟨h1, h2⟩, h3⟩, h4⟩, h5⟩, swfL_expand body h6⟩, swfElifs_expand elifs h7⟩,
      swfElse_expand els h8⟩, swfCond_expand hpv hne c h9⟩
  | .while_ w lp c rp lb body rb, h => by
    simp only [swfS, expandS, Bool.and_eq_true] at h ⊢
    obtain ⟨⟨⟨⟨⟨⟨h1, h2⟩, h3⟩, h4⟩, h5⟩, h6⟩, h7⟩ := h
    exact ⟨⟨⟨⟨⟨⟨h1, h2⟩, h3⟩, h4⟩, h5⟩, swfL_expand body h6⟩, swfCond_expand hpv hne c h7⟩
  | .whileInf w lb body rb, h => by
    simp only [swfS, expandS, Bool.and_eq_true] at h ⊢
    obtain ⟨⟨⟨h1, h2⟩, h3⟩, h4⟩ := h
    exact ⟨⟨⟨h1, h2⟩, h3⟩, swfL_expand body h4⟩
  | .doWhile d lb body rb w lp c rp, h => by
    simp only [swfS, expandS, Bool.and_eq_true] at h ⊢
    obtain ⟨⟨⟨⟨⟨⟨⟨h1, h2⟩, h3⟩, h4⟩, h5⟩, h6⟩, h7⟩, h8⟩ := h
    exact ⟨⟨⟨⟨⟨⟨⟨h1, h2⟩, h3⟩, h4⟩, h5⟩, h6⟩, swfL_expand body h7⟩, swfCond_expand hpv hne c h8⟩
  | .brk t, h => h
  | .cont t, h => h
  | .switch_ sw lp v lp2 ops rp2 rp lb cases rb, h => by
    simp only [swfS, expandS, Bool.and_eq_true] at h ⊢
    obtain ⟨⟨⟨⟨⟨⟨⟨⟨⟨h1, h2⟩, h3⟩, h4⟩, h5⟩, h6⟩, h7⟩, h8⟩, h9⟩, h10⟩ := h
    exact ⟨⟨⟨⟨⟨⟨⟨⟨⟨h1, h2⟩, h3⟩, h4⟩, operands_expand hpv h5⟩, h6⟩, h7⟩, h8⟩, h9⟩, swfCases_expand cases h10⟩
  | .switchA sw lp name lp2 a0 more rp2 rp lb cases rb, h => by
    simp only [swfS, expandS, Bool.and_eq_true, decide_eq_true_eq] at h ⊢
    obtain ⟨⟨⟨⟨⟨⟨⟨⟨⟨⟨h1, h2⟩, h3⟩, h4⟩, h5⟩, h6⟩, h7⟩, h8⟩, h9⟩, h10⟩, h11⟩ := h
    exact ⟨⟨⟨⟨⟨⟨⟨⟨⟨⟨h1, h2⟩, h3⟩, h4⟩, argOK_expand hpv hne h5⟩, more_expand hpv hne h6⟩, h7⟩, h8⟩, h9⟩, h10⟩,
      swfCases_expand cases h11⟩
  | .pory ps lp x rp lb cases rb, h => by
    simp only [swfS, expandS, Bool.and_eq_true] at h ⊢
    obtain ⟨⟨⟨⟨⟨⟨h1, h2⟩, h3⟩, h4⟩, h5⟩, h6⟩, h7⟩ := h
    exact ⟨⟨⟨⟨⟨⟨h1, h2⟩, h3⟩, h4⟩, h5⟩, h6⟩, swfPCases_expand cases h7⟩
theorem swfL_expand : (b : List SStmt) → swfL b = true → swfL (expandL wt b) = true
  | [], _ => rfl
  | x :: r, h => by
    simp only [swfL, expandL, Bool.and_eq_true] at h ⊢
    exact ⟨swfS_expand x h.1, swfL_expand r h.2⟩
theorem swfElifs_expand : (es : List SElif) → swfElifs es = true → swfElifs (expandElifs wt es) = true
  | [], _ => rfl
  | .mk e lp c rp lb body rb :: r, h => by
    simp only [swfElifs, swfElif, expandElifs, Bool.and_eq_true] at h ⊢
    obtain ⟨⟨⟨⟨⟨⟨⟨h1, h2⟩, h3⟩, h4⟩, h5⟩, h6⟩, h7⟩, h8⟩ := h
    exact ⟨⟨⟨⟨⟨⟨⟨h1, h2⟩, h3⟩, h4⟩, h5⟩, swfL_expand body h6⟩, swfCond_expand hpv hne c h7⟩, swfElifs_expand r h8⟩
theorem swfElse_expand : (e : SElse) → swfElse e = true → swfElse (expandElse wt e) = true
  | .none, _ => rfl
  | .some e lb body rb, h => by
    simp only [swfElse, expandElse, Bool.and_eq_true] at h ⊢
    obtain ⟨⟨⟨h1, h2⟩, h3⟩, h4⟩ := h
    exact ⟨⟨⟨h1, h2⟩, h3⟩, swfL_expand body h4⟩
theorem swfCases_expand : (cs : List SCase) → swfCases cs = true → swfCases (expandCases wt cs) = true
  | [], _ => rfl
  | .case c vs colon body :: r, h => by
    simp only [swfCases, swfCase, expandCases, Bool.and_eq_true] at h ⊢
    obtain ⟨⟨⟨⟨h1, h2⟩, h3⟩, h4⟩, h5⟩ := h
    exact ⟨⟨⟨⟨h1, caseVals_expand hpv h2⟩, h3⟩, swfL_expand body h4⟩, swfCases_expand r h5⟩
  | .dflt d colon body :: r, h => by
    simp only [swfCases, swfCase, expandCases, Bool.and_eq_true] at h ⊢
    obtain ⟨⟨⟨h1, h2⟩, h3⟩, h4⟩ := h
    exact ⟨⟨⟨h1, h2⟩, swfL_expand body h3⟩, swfCases_expand r h4⟩
theorem swfPCases_expand : (cs : List SPCase) → swfPCases cs = true → swfPCases (expandPCases wt cs) = true
  | [], _ => rfl
  | .colon key c x :: r, h => by
    simp only [swfPCases, swfPCase, expandPCases, Bool.and_eq_true] at h ⊢
    obtain ⟨⟨⟨h1, h2⟩, h3⟩, h4⟩ := h
    exact ⟨⟨⟨h1, h2⟩, swfS_expand x h3⟩, swfPCases_expand r h4⟩
  | .brace key lb body rb :: r, h => by
    simp only [swfPCases, swfPCase, expandPCases, Bool.and_eq_true] at h ⊢
    obtain ⟨⟨⟨⟨h1, h2⟩, h3⟩, h4⟩, h5⟩ := h
    exact ⟨⟨⟨⟨h1, h2⟩, h3⟩, swfL_expand body h4⟩, swfPCases_expand r h5⟩
end

end

end Pory.C13c
