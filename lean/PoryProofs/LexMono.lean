import PoryProofs.Properties.C19
/-
Monotonicity of token positions in the lexer model, used by `PoryProofs/Properties/C18b.lean`.

`le2` is the lexicographic order on (line, byte column) pairs, `posOf pre` the pair of the source
position just after the prefix `pre` (monotone along prefix extension: `posOf_mono`).
`CallOK pre inp out`: every token of one `nextToken` call started at prefix `pre` lies between
`posOf pre` and the position where the call stops, starts no later than it ends, and the tokens
of the call are sorted by start.  `nextToken_call` proves it for every branch (new facts beyond
`LexTok.lean`: the end of `STRING`, `RAWSTRING` and `EOF` tokens, and where the `STRING` after a
`STRINGTYPE` stands relative to the stop position); `lexLoop_sorted` lifts it to `lexAll`.
-/
namespace Pory.LexMono
open Pory Pory.Lexer Pory.LexPos

/-- lexicographic `≤` on (line, column) -/
def le2 (a b : Nat × Nat) : Prop := a.1 < b.1 ∨ (a.1 = b.1 ∧ a.2 ≤ b.2)

theorem le2_refl (a : Nat × Nat) : le2 a a := Or.inr ⟨rfl, Nat.le_refl _⟩

theorem le2_trans {a b c : Nat × Nat} (h1 : le2 a b) (h2 : le2 b c) : le2 a c := by
  unfold le2 at *
  omega

/-- (line, byte column) of the source position just after `pre` -/
def posOf (pre : List Char) : Nat × Nat := (lineOf pre, colOf pre)

theorem posOf_mono (pre m : List Char) : le2 (posOf pre) (posOf (pre ++ m)) := by
  by_cases h : ∀ c ∈ m, c ≠ '\n'
  · right
    simp only [posOf, lineOf_append _ _ h, colOf_append _ _ h]
    exact ⟨trivial, Nat.le_add_right _ _⟩
  · left
    have hm : '\n' ∈ m := by
      apply Classical.byContradiction
      intro hn
      exact h fun c hc e => hn (e ▸ hc)
    have : 0 < m.count '\n' := List.count_pos_iff.2 hm
    simp only [posOf, lineOf, List.count_append]
    omega

theorem posOf_mono2 (pre m m' : List Char) : le2 (posOf (pre ++ m)) (posOf (pre ++ m ++ m')) :=
  posOf_mono _ _

def start (t : Tok) : Nat × Nat := (t.line, t.startChar)
def stop (t : Tok) : Nat × Nat := (t.endLine, t.endChar)

/-- token `t` lies between the prefixes `P` and `P'` and starts no later than it ends -/
def TokBounds (P P' : List Char) (t : Tok) : Prop :=
  le2 (posOf P) (start t) ∧ le2 (start t) (posOf P') ∧ le2 (start t) (stop t)

def Sorted (ts : List Tok) : Prop := ts.Pairwise fun a b => le2 (start a) (start b)

/-- What is proved of one `nextToken` call from a truthful state at prefix `pre`. -/
def CallOK (pre inp : List Char) (out : List Tok × LS × Bool) : Prop :=
  ∃ consumed, inp = consumed ++ out.2.1.inp ∧ Truthful (pre ++ consumed) out.2.1.inp out.2.1.p ∧
    (∀ t ∈ out.1, TokBounds pre (pre ++ consumed) t) ∧ Sorted out.1

/-! ### String tokens: where they end -/

theorem readString_end (n : Nat) {pre : List Char} {s : LS} (sb : List Char) (e : Nat × Nat × Nat)
    (pos0 : Nat × Nat) (h : Truthful pre s.inp s.p) (h0 : le2 pos0 (posOf pre))
    (he : le2 pos0 (e.1, e.2.1)) :
    le2 pos0 ((readString n s sb e).2.1.1, (readString n s sb e).2.1.2.1) := by
  induction n generalizing pre s sb e with
  | zero => exact he
  | succ n ih =>
    simp only [readString]
    split
    · obtain ⟨m1, _, t1⟩ := steps_readChar h
      obtain ⟨m2, _, t2⟩ := strBody_steps ((readChar s).inp.length + 1) t1
      obtain ⟨m3, _, t3⟩ := steps_readChar t2
      obtain ⟨m4, _, t4⟩ := skipWhitespace_steps t3
      have hp3 : le2 pos0 (posOf (pre ++ m1 ++ m2 ++ m3)) := by
        have : pre ++ m1 ++ m2 ++ m3 = pre ++ (m1 ++ m2 ++ m3) := by simp
        rw [this]
        exact le2_trans h0 (posOf_mono _ _)
      refine ih _ _ t4 (le2_trans hp3 (posOf_mono _ _)) ?_
      simp only
      rw [t3.line, t3.prevCol]
      exact hp3
    · exact he

/-- A string token read from a truthful state standing on a quote starts at that state's position
and does not end before it starts. -/
theorem readStringToken_order {pre : List Char} {s : LS} (h : Truthful pre s.inp s.p)
    (hq : (ch s.inp == '"') = true) :
    start (readStringToken s).1 = posOf pre ∧ le2 (start (readStringToken s).1) (stop (readStringToken s).1) := by
  have hs : start (readStringToken s).1 = posOf pre := by
    simp only [start, readStringToken, posOf, h.line, h.prevCol]
  refine ⟨hs, ?_⟩
  rw [hs]
  simp only [stop, readStringToken, readString, hq, if_true]
  obtain ⟨m1, _, t1⟩ := steps_readChar h
  obtain ⟨m2, _, t2⟩ := strBody_steps ((readChar s).inp.length + 1) t1
  obtain ⟨m3, _, t3⟩ := steps_readChar t2
  obtain ⟨m4, _, t4⟩ := skipWhitespace_steps t3
  have hp3 : le2 (posOf pre) (posOf (pre ++ m1 ++ m2 ++ m3)) := by
    have : pre ++ m1 ++ m2 ++ m3 = pre ++ (m1 ++ m2 ++ m3) := by simp
    rw [this]
    exact posOf_mono _ _
  refine readString_end _ _ _ _ t4 (le2_trans hp3 (posOf_mono _ _)) ?_
  simp only
  rw [t3.line, t3.prevCol]
  exact hp3

/-! ### Classification of the branches of `tokenAt` -/

/-- a single token of a class with a single-line end claim -/
def Simple (out : List Tok × LS × Bool) : Prop := ∃ t, out.1 = [t] ∧ ¬ Multi t

/-- which branch of the `switch` produced `x` -/
def Cls (s : LS) (c : Char) (x : List Tok × LS × Bool) : Prop :=
  Simple x ∨ (c = '"' ∧ x = strTok s) ∨ (c = '`' ∧ x = rawTok s) ∨ (c = NUL ∧ x = nulTok s) ∨
    (isLetter c = true ∧ c ≠ NUL ∧ x = identTok s c)

theorem cls_ite {s : LS} {c : Char} {b : Bool} {x y : List Tok × LS × Bool}
    (h1 : b = true → Cls s c x) (h2 : b = false → Cls s c y) :
    Cls s c (if b = true then x else y) := by
  cases b
  · simpa using h2 rfl
  · simpa using h1 rfl

theorem notMulti {t : Tok} (h1 : t.type ≠ .STRING) (h2 : t.type ≠ .RAWSTRING) (h3 : t.type ≠ .EOF) :
    ¬ Multi t := by
  intro h
  rcases h with h | h | h
  · exact h1 h
  · exact h2 h
  · exact h3 h

theorem cls_one {s : LS} {c : Char} (ty : TT) (h : ty ≠ .STRING ∧ ty ≠ .RAWSTRING ∧ ty ≠ .EOF) :
    Cls s c (oneTok s c ty) := Or.inl ⟨_, rfl, notMulti h.1 h.2.1 h.2.2⟩

theorem cls_two {s : LS} {c : Char} (ty : TT) (h : ty ≠ .STRING ∧ ty ≠ .RAWSTRING ∧ ty ≠ .EOF) :
    Cls s c (twoTok s c ty) := Or.inl ⟨_, rfl, notMulti h.1 h.2.1 h.2.2⟩

theorem cls_ill {s : LS} {c : Char} : Cls s c (illTok s c) :=
  Or.inl ⟨_, rfl, notMulti (by simp [newSingleCharToken]) (by simp [newSingleCharToken])
    (by simp [newSingleCharToken])⟩

theorem cls_hex {s : LS} {c : Char} : Cls s c (hexTok s) :=
  Or.inl ⟨_, rfl, notMulti (by simp) (by simp) (by simp)⟩

theorem cls_zero {s : LS} {c : Char} : Cls s c (zeroTok s) :=
  Or.inl ⟨_, rfl, notMulti (by simp) (by simp) (by simp)⟩

theorem cls_num {s : LS} {c : Char} : Cls s c (numTok s) :=
  Or.inl ⟨_, rfl, notMulti (by simp) (by simp) (by simp)⟩

theorem cls_neg {s : LS} {c : Char} : Cls s c (negTok s) :=
  Or.inl ⟨_, rfl, notMulti (by simp) (by simp) (by simp)⟩

theorem tokenAt_class (s : LS) (c : Char) : Cls s c (tokenAt s c) := by
  unfold tokenAt
  refine cls_ite (fun _ => cls_one _ (by decide)) (fun _ => ?_)
  refine cls_ite (fun _ => cls_ite (fun _ => cls_two _ (by decide)) (fun _ => cls_one _ (by decide)))
    (fun _ => ?_)
  refine cls_ite (fun _ => cls_ite (fun _ => cls_two _ (by decide)) (fun _ => cls_one _ (by decide)))
    (fun _ => ?_)
  refine cls_ite (fun _ => cls_ite (fun _ => cls_two _ (by decide)) (fun _ => cls_one _ (by decide)))
    (fun _ => ?_)
  refine cls_ite (fun _ => cls_ite (fun _ => cls_two _ (by decide)) (fun _ => cls_one _ (by decide)))
    (fun _ => ?_)
  refine cls_ite (fun _ => cls_ite (fun _ => cls_two _ (by decide)) (fun _ => cls_one _ (by decide)))
    (fun _ => ?_)
  refine cls_ite (fun _ => cls_ite (fun _ => cls_two _ (by decide)) (fun _ => cls_one _ (by decide)))
    (fun _ => ?_)
  refine cls_ite (fun _ => cls_one _ (by decide)) (fun _ => ?_)
  refine cls_ite (fun _ => cls_one _ (by decide)) (fun _ => ?_)
  refine cls_ite (fun _ => cls_one _ (by decide)) (fun _ => ?_)
  refine cls_ite (fun _ => cls_one _ (by decide)) (fun _ => ?_)
  refine cls_ite (fun _ => cls_one _ (by decide)) (fun _ => ?_)
  refine cls_ite (fun _ => cls_one _ (by decide)) (fun _ => ?_)
  refine cls_ite (fun h => Or.inr (Or.inl ⟨eq_of_beq h, rfl⟩)) (fun _ => ?_)
  refine cls_ite (fun h => Or.inr (Or.inr (Or.inl ⟨eq_of_beq h, rfl⟩))) (fun _ => ?_)
  refine cls_ite (fun _ => cls_one _ (by decide)) (fun _ => ?_)
  refine cls_ite (fun _ => cls_one _ (by decide)) (fun _ => ?_)
  refine cls_ite (fun _ => cls_ite (fun _ => cls_hex) (fun _ => cls_zero)) (fun _ => ?_)
  refine cls_ite (fun h => Or.inr (Or.inr (Or.inr (Or.inl ⟨eq_of_beq h, rfl⟩)))) (fun hnul => ?_)
  refine cls_ite (fun h => Or.inr (Or.inr (Or.inr (Or.inr ⟨h, by simpa using hnul, rfl⟩))))
    (fun _ => ?_)
  exact cls_ite (fun _ => cls_ite (fun _ => cls_neg) (fun _ => cls_num)) (fun _ => cls_ill)

/-! ### The branches -/

theorem startsAt_pos {pre : List Char} {c : Char} {r : List Char} {t : Tok}
    (hs : StartsAt pre (c :: r) t) (hc : c ≠ NUL) : start t = posOf pre := by
  obtain ⟨hl, h⟩ := hs
  simp only [hc, if_false] at h
  simp only [start, posOf, hl, h.1]

theorem sorted_single (t : Tok) : Sorted [t] := by simp [Sorted]

theorem bounds_of_start {pre m : List Char} {t : Tok} (h1 : start t = posOf pre)
    (h2 : le2 (start t) (stop t)) : TokBounds pre (pre ++ m) t :=
  ⟨by rw [h1]; exact le2_refl _, by rw [h1]; exact posOf_mono _ _, h2⟩

theorem singleLine_order {rest : List Char} {t : Tok} (h : SingleLine rest t) :
    le2 (start t) (stop t) := by
  obtain ⟨lexeme, after, _, _, g1, g2, _⟩ := h
  right
  simp only [start, stop, g1, g2]
  exact ⟨trivial, Nat.le_add_right _ _⟩

theorem simple_call {pre : List Char} {c : Char} {r : List Char} {p : Pos}
    (T : Truthful pre (c :: r) p) (hS : Simple (tokenAt ⟨c :: r, p⟩ c)) :
    CallOK pre (c :: r) (tokenAt ⟨c :: r, p⟩ c) := by
  obtain ⟨t, ht, hnm⟩ := hS
  obtain ⟨t', ts, e, hs, hm, _, ⟨mid, e2, T2⟩⟩ := tokenAt_ok T
  rw [ht] at e
  have et : t = t' := by injection e
  subst et
  have hnul : c ≠ NUL := by
    intro hc
    obtain ⟨_, h⟩ := hs
    simp only [hc, if_true] at h
    exact hnm (Or.inr (Or.inr h.1))
  have hsl : SingleLine (c :: r) t := hm.resolve_left hnm
  refine ⟨mid, e2, T2, ?_, by rw [ht]; exact sorted_single _⟩
  intro x hx
  rw [ht] at hx
  simp only [List.mem_singleton] at hx
  subst hx
  exact bounds_of_start (startsAt_pos hs hnul) (singleLine_order hsl)

theorem str_call {pre : List Char} {r : List Char} {p : Pos} (T : Truthful pre ('"' :: r) p) :
    CallOK pre ('"' :: r) (strTok ⟨'"' :: r, p⟩) := by
  obtain ⟨mid, e2, T2⟩ := readStringToken_steps (s := ⟨'"' :: r, p⟩) T
  obtain ⟨h1, h2⟩ := readStringToken_order (s := ⟨'"' :: r, p⟩) T rfl
  refine ⟨mid, e2, T2, ?_, sorted_single _⟩
  intro x hx
  simp only [strTok, List.mem_singleton] at hx
  subst hx
  exact bounds_of_start h1 h2

theorem raw_call {pre : List Char} {r : List Char} {p : Pos} (T : Truthful pre ('`' :: r) p) :
    CallOK pre ('`' :: r) (rawTok ⟨'`' :: r, p⟩) := by
  obtain ⟨t, ts, e, hs, _, _, ⟨mid, e2, T2⟩⟩ := rawTok_ok T
  have hshape : ∃ t0, (rawTok ⟨'`' :: r, p⟩).1 = [t0] ∧
      t0.endLine = (rawTok ⟨'`' :: r, p⟩).2.1.p.line ∧ t0.endChar = (rawTok ⟨'`' :: r, p⟩).2.1.p.col :=
    ⟨_, rfl, rfl, rfl⟩
  obtain ⟨t0, ht0, g1, g2⟩ := hshape
  rw [ht0] at e
  have et : t0 = t := by injection e
  subst et
  have h1 := startsAt_pos hs (by decide)
  refine ⟨mid, e2, T2, ?_, by rw [ht0]; exact sorted_single _⟩
  intro x hx
  rw [ht0] at hx
  simp only [List.mem_singleton] at hx
  subst hx
  refine bounds_of_start h1 ?_
  rw [h1]
  refine le2_trans (posOf_mono pre mid) (Or.inr ?_)
  simp only [stop, g1, g2, posOf, T2.line, T2.col]
  exact ⟨trivial, Nat.le_add_right _ _⟩

theorem nul_call {pre : List Char} {r : List Char} {p : Pos} (T : Truthful pre (NUL :: r) p) :
    CallOK pre (NUL :: r) (nulTok ⟨NUL :: r, p⟩) := by
  have hc := T.col
  simp only [nextSize, NUL_size] at hc
  have hp : posOf (pre ++ [NUL]) = (lineOf pre, colOf pre + 1) := by
    simp only [posOf, lineOf_snoc pre NUL (by decide),
      colOf_append pre [NUL] (by decide), bytesOf_cons, bytesOf_nil, NUL_size]
  refine ⟨[NUL], rfl, truthful_adv T, ?_, sorted_single _⟩
  intro x hx
  simp only [nulTok, List.mem_singleton] at hx
  subst hx
  have hst : start (eofToken p) = (lineOf pre, colOf pre + 1) := by
    simp only [start, eofToken, T.line, hc]
  refine ⟨?_, ?_, le2_refl _⟩
  · rw [hst]; exact Or.inr ⟨rfl, Nat.le_add_right _ _⟩
  · rw [hst, hp]; exact le2_refl _

theorem eof_call {pre : List Char} {p : Pos} (T : Truthful pre [] p) :
    CallOK pre [] ([eofToken p], readChar ⟨[], p⟩, true) := by
  have hc := T.col
  simp only [nextSize, Nat.add_zero] at hc
  refine ⟨[], rfl, by simpa [readChar] using truthful_advEOF T, ?_, sorted_single _⟩
  intro x hx
  simp only [List.mem_singleton] at hx
  subst hx
  have hst : start (eofToken p) = posOf pre := by simp only [start, eofToken, T.line, hc, posOf]
  exact bounds_of_start hst (le2_refl _)

theorem ident_call {pre : List Char} {c : Char} {r : List Char} {p : Pos}
    (T : Truthful pre (c :: r) p) (hl : isLetter c = true) (hnul : c ≠ NUL) :
    CallOK pre (c :: r) (identTok ⟨c :: r, p⟩ c) := by
  have T1 := truthful_adv T
  obtain ⟨e, T2, hall, _⟩ := readIdentRest_spec _ r _ T1
  generalize hp1 : adv c r p = p1 at e T2 hall
  have e' : c :: r = (c :: (readIdentRest r p1).1) ++ (readIdentRest r p1).2.inp := by
    simpa using e
  have hcnl : c ≠ '\n' := by
    intro e
    subst e
    rw [isLetter_nl] at hl
    exact absurd hl (by decide)
  have hnl : ∀ d ∈ c :: (readIdentRest r p1).1, d ≠ '\n' := by
    intro d hd
    rcases List.mem_cons.1 hd with rfl | hd
    · exact hcnl
    · intro e
      subst e
      have := hall _ hd
      rw [isLetter_nl, isDigit_nl] at this
      exact absurd this (by decide)
  have T2' : Truthful (pre ++ c :: (readIdentRest r p1).1) (readIdentRest r p1).2.inp
      (readIdentRest r p1).2.p := by simpa using T2
  have key : ∀ (ty : TT) (m : List Char), TokBounds pre (pre ++ m)
      { type := ty, lit := String.ofList (c :: (readIdentRest r p1).1), line := p.line,
        startChar := p.prevCol, startUtf8 := p.prevUcol,
        endLine := (readIdentRest r p1).2.p.line, endChar := (readIdentRest r p1).2.p.prevCol,
        endUtf8 := (readIdentRest r p1).2.p.prevUcol } := fun ty m =>
    bounds_of_start (by simp only [start, posOf, T.line, T.prevCol])
      (singleLine_order (lexTok_ok _ e' rfl hnul T2' hnl T.line T.prevCol (T.prevUcolN (by simp))
        rfl rfl rfl rfl).2)
  simp only [identTok, readChar, hp1]
  split
  · next hq =>
    obtain ⟨mid2, e2, T3⟩ := readStringToken_steps (s := (readIdentRest r p1).2) T2'
    obtain ⟨g1, g2⟩ := readStringToken_order (s := (readIdentRest r p1).2) T2' hq
    refine ⟨c :: (readIdentRest r p1).1 ++ mid2, ?_, by simpa using T3, ?_, ?_⟩
    · show c :: r = c :: (readIdentRest r p1).1 ++ mid2 ++ (readStringToken (readIdentRest r p1).2).2.inp
      rw [List.append_assoc, ← e2]
      exact e'
    · intro x hx
      simp only [List.mem_cons, List.not_mem_nil, or_false] at hx
      rcases hx with rfl | rfl
      · exact key _ _
      · refine ⟨by rw [g1]; exact posOf_mono _ _, ?_, g2⟩
        rw [g1]
        have : pre ++ (c :: (readIdentRest r p1).1 ++ mid2) =
            pre ++ c :: (readIdentRest r p1).1 ++ mid2 := by simp
        rw [this]
        exact posOf_mono _ _
    · simp only [Sorted, List.pairwise_cons, List.mem_singleton, forall_eq, List.not_mem_nil,
        false_imp_iff, implies_true, List.Pairwise.nil, and_true]
      rw [g1]
      show le2 (p.line, p.prevCol) _
      rw [T.line, T.prevCol]
      exact posOf_mono _ _
  · refine ⟨c :: (readIdentRest r p1).1, e', T2', ?_, sorted_single _⟩
    intro x hx
    simp only [List.mem_singleton] at hx
    subst hx
    exact key _ _

/-! ### One call, then all calls -/

theorem tokenAt_call {pre : List Char} {c : Char} {r : List Char} {p : Pos}
    (T : Truthful pre (c :: r) p) : CallOK pre (c :: r) (tokenAt ⟨c :: r, p⟩ c) := by
  rcases tokenAt_class ⟨c :: r, p⟩ c with h | ⟨hc, h⟩ | ⟨hc, h⟩ | ⟨hc, h⟩ | ⟨hl, hnul, h⟩
  · exact simple_call T h
  · subst hc; rw [h]; exact str_call T
  · subst hc; rw [h]; exact raw_call T
  · subst hc; rw [h]; exact nul_call T
  · rw [h]; exact ident_call T hl hnul

theorem callOK_shift {pre skipped rest : List Char} {out : List Tok × LS × Bool}
    (h : CallOK (pre ++ skipped) rest out) : CallOK pre (skipped ++ rest) out := by
  obtain ⟨consumed, e, T, hb, hs⟩ := h
  refine ⟨skipped ++ consumed, by rw [e]; simp, by simpa using T, ?_, hs⟩
  intro t ht
  obtain ⟨b1, b2, b3⟩ := hb t ht
  exact ⟨le2_trans (posOf_mono _ _) b1, by simpa using b2, b3⟩

/-- Every `nextToken` call from a truthful state satisfies `CallOK`. -/
theorem nextToken_call {pre : List Char} {s : LS} (h : Truthful pre s.inp s.p) :
    CallOK pre s.inp (nextToken s) := by
  obtain ⟨skipped, e, T⟩ := skipAll_steps h
  rw [nextToken_eq, e]
  apply callOK_shift
  generalize skipAll s = sk at T
  obtain ⟨inp, p⟩ := sk
  cases inp with
  | nil => exact eof_call T
  | cons c r => exact tokenAt_call T

/-- All tokens of the loop started in a truthful state at prefix `pre`: they lie at or after
`posOf pre`, start no later than they end, and are sorted by start position. -/
theorem lexLoop_sorted (n : Nat) {pre : List Char} {s : LS} (h : Truthful pre s.inp s.p) :
    (∀ t ∈ lexLoop n s, le2 (posOf pre) (start t) ∧ le2 (start t) (stop t)) ∧ Sorted (lexLoop n s) := by
  induction n generalizing pre s with
  | zero => exact ⟨by simp [lexLoop], by simp [lexLoop, Sorted]⟩
  | succ n ih =>
    obtain ⟨consumed, _, T, hb, hs⟩ := nextToken_call h
    have hhere : ∀ t ∈ (nextToken s).1, le2 (posOf pre) (start t) ∧ le2 (start t) (stop t) :=
      fun t ht => ⟨(hb t ht).1, (hb t ht).2.2⟩
    simp only [lexLoop]
    split
    · exact ⟨hhere, hs⟩
    · obtain ⟨ih1, ih2⟩ := ih T
      constructor
      · intro t ht
        rcases List.mem_append.1 ht with ht | ht
        · exact hhere t ht
        · exact ⟨le2_trans (posOf_mono _ _) (ih1 t ht).1, (ih1 t ht).2⟩
      · refine List.pairwise_append.2 ⟨hs, ih2, ?_⟩
        intro a ha b hb'
        exact le2_trans (hb a ha).2.1 (ih1 b hb').1

theorem lexAll_sorted (src : List Char) :
    (∀ t ∈ lexAll src, le2 (start t) (stop t)) ∧ Sorted (lexAll src) := by
  obtain ⟨h1, h2⟩ := lexLoop_sorted (src.length + 2) (truthful_init src)
  exact ⟨fun t ht => (h1 t ht).2, h2⟩

end Pory.LexMono
