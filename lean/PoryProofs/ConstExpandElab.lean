import PoryProofs.ConstExpand
/-
Helpers for C13c, part 2: the mutual induction over the reference elaboration
(`StmtG.elabS / elabL / elabElifs / elabElse / elabCases / elabPCases`): elaborating with the constants
`render wt` and elaborating the hand expansion with no constants give the same error, or the same counters,
the same implicit data and statements that agree up to `eraseL` (`vw`).
-/
namespace Pory.C13c
open Pory Pory.Parser Pory.C02P Pory.C10b Pory.C10c Pory.StmtG Pory.C13b Pory.TopParse
open Pory.C14b (swVal)
open Pory.C11b (operandName badPosMsg Form printAuto autoLeafT leftSideMsg)

/-- The view of an elaboration result: the tree component through `f`. -/
def vw {α β} (f : α → β) : Except PFail (α × ImpData × Nat × Nat) → Except PFail (β × ImpData × Nat × Nat)
  | .error e => .error e
  | .ok (a, m, i, j) => .ok (f a, m, i, j)

theorem vw_inv {α β} {f : α → β} {r r' : Except PFail (α × ImpData × Nat × Nat)} (h : vw f r = vw f r') :
    (∃ e, r = .error e ∧ r' = .error e) ∨
    (∃ a a' m i j, r = .ok (a, m, i, j) ∧ r' = .ok (a', m, i, j) ∧ f a = f a') := by
  rcases r with e | ⟨a, m, i, j⟩ <;> rcases r' with e' | ⟨a', m', i', j'⟩
  · simp only [vw, Except.error.injEq] at h
    exact Or.inl ⟨e, rfl, by rw [h]⟩
  · simp [vw] at h
  · simp [vw] at h
  · simp only [vw, Except.ok.injEq, Prod.mk.injEq] at h
    obtain ⟨h1, h2, h3, h4⟩ := h
    subst h2 h3 h4
    exact Or.inr ⟨a, a', m, i, j, rfl, rfl, h1⟩

abbrev PTable := List (String × List Stmt × ImpData)

def vwT : Except PFail (PTable × Nat × Nat) → Except PFail (PTable × Nat × Nat)
  | .error e => .error e
  | .ok (T, i, j) => .ok (eraseTable T, i, j)

theorem vwT_inv {r r' : Except PFail (PTable × Nat × Nat)} (h : vwT r = vwT r') :
    (∃ e, r = .error e ∧ r' = .error e) ∨
    (∃ T T' i j, r = .ok (T, i, j) ∧ r' = .ok (T', i, j) ∧ eraseTable T = eraseTable T') := by
  rcases r with e | ⟨T, i, j⟩ <;> rcases r' with e' | ⟨T', i', j'⟩
  · simp only [vwT, Except.error.injEq] at h
    exact Or.inl ⟨e, rfl, by rw [h]⟩
  · simp [vwT] at h
  · simp [vwT] at h
  · simp only [vwT, Except.ok.injEq, Prod.mk.injEq] at h
    obtain ⟨h1, h2, h3⟩ := h
    subst h2 h3
    exact Or.inr ⟨T, T', i, j, rfl, rfl, h1⟩

theorem eraseS_ite (t : Tok) (c : BoolExpr) (b : List Stmt) (es : List (BoolExpr × List Stmt))
    (e : Option (List Stmt)) :
    eraseS (.ite t c b es e) = .ite t c (eraseL b) (eraseElifs es) (eraseElse e) := by
  cases e <;> simp [eraseS, eraseElse]

theorem lookup_eraseTable (T : PTable) (k : String) :
    (eraseTable T).lookup k = (T.lookup k).map fun r => (eraseL r.1, r.2) := by
  induction T with
  | nil => rfl
  | cons e r ih =>
    obtain ⟨n, a, m⟩ := e
    simp only [eraseTable, List.map_cons, List.lookup] at ih ⊢
    cases k == n
    · exact ih
    · rfl

theorem selectCase_eraseTable (env : Env) (T : PTable) (v : String) :
    selectCase env (eraseTable T) v = (selectCase env T v).map fun r => (eraseL r.1, r.2) := by
  unfold selectCase
  rw [lookup_eraseTable, lookup_eraseTable]
  cases T.lookup v <;> rfl

theorem expandL_isEmpty (wt : WTable) (b : List SStmt) : (expandL wt b).isEmpty = b.isEmpty := by
  cases b <;> simp [expandL]

theorem expandCases_isEmpty (wt : WTable) (cs : List SCase) : (expandCases wt cs).isEmpty = cs.isEmpty := by
  cases cs with
  | nil => simp [expandCases]
  | cons c r => cases c <;> simp [expandCases]

theorem expandPCases_isEmpty (wt : WTable) (cs : List SPCase) : (expandPCases wt cs).isEmpty = cs.isEmpty := by
  cases cs with
  | nil => simp [expandPCases]
  | cons c r => cases c <;> simp [expandPCases]

section
set_option linter.unusedSectionVars false
variable (env : Env) (sn : String) (wt : WTable) (hne : NonEmptyWords wt)
include hne

mutual
theorem elabS_expand : (x : SStmt) → (B C : List Nat) → (nx : Bool) → (sid cid : Nat) →
    vw eraseL (elabS env sn (sub wt) B C nx x sid cid) =
      vw eraseL (elabS env sn (substC []) B C nx (expandS wt x) sid cid)
  | .cmd name lp a0 more rp, B, C, nx, sid, cid => by
    simp only [expandS, elabS, renderArgs_expand hne]
  | .cmdI name lp a0 more rp, B, C, nx, sid, cid => by
    simp only [expandS, elabS, renderArgsE_expand hne, impArgs_expand']
  | .cmdE name lp rp, B, C, nx, sid, cid => rfl
  | .cmd0 name, B, C, nx, sid, cid => rfl
  | .label name colon, B, C, nx, sid, cid => rfl
  | .labelS name lp sc rp colon, B, C, nx, sid, cid => rfl
  | .ite ifTok lp c rp lb body rb elifs els, B, C, nx, sid, cid => by
    simp only [expandS, elabS, elabCond_expand hne]
    cases elabCond env (sub wt) c cid with
    | error e => rfl
    | ok p =>
      obtain ⟨t, cid0⟩ := p
      rcases vw_inv (elabL_expand body B C true sid cid0) with ⟨e, h1, h2⟩ | ⟨b, b', m1, sid1, cid1, h1, h2, hb⟩
      · simp only [h1, h2]
      · simp only [h1, h2]
        rcases vw_inv (elabElifs_expand elifs B C sid1 cid1) with
          ⟨e, h3, h4⟩ | ⟨es, es', m2, sid2, cid2, h3, h4, hes⟩
        · simp only [h3, h4]
        · rcases vw_inv (elabElse_expand els B C sid2 cid2) with
            ⟨e, h5, h6⟩ | ⟨el, el', m3, sid3, cid3, h5, h6, hel⟩
          · simp only [h3, h4, h5, h6]
          · simp only [h3, h4, h5, h6, vw, eraseL, eraseS_ite, hb, hes, hel]
  | .while_ w lp c rp lb body rb, B, C, nx, sid, cid => by
    simp only [expandS, elabS, elabCond_expand hne]
    cases elabCond env (sub wt) c cid with
    | error e => rfl
    | ok p =>
      obtain ⟨t, cid0⟩ := p
      rcases vw_inv (elabL_expand body (sid :: B) (sid :: C) true (sid + 1) cid0) with
        ⟨e, h1, h2⟩ | ⟨b, b', m1, sid1, cid1, h1, h2, hb⟩
      · simp only [h1, h2]
      · simp only [h1, h2, vw, eraseL, eraseS, hb]
  | .whileInf w lb body rb, B, C, nx, sid, cid => by
    simp only [expandS, elabS]
    rcases vw_inv (elabL_expand body (sid :: B) (sid :: C) true (sid + 1) cid) with
      ⟨e, h1, h2⟩ | ⟨b, b', m1, sid1, cid1, h1, h2, hb⟩
    · simp only [h1, h2]
    · simp only [h1, h2, vw, eraseL, eraseS, hb]
  | .doWhile d lb body rb w lp c rp, B, C, nx, sid, cid => by
    simp only [expandS, elabS, elabCond_expand hne]
    rcases vw_inv (elabL_expand body (sid :: B) (sid :: C) true (sid + 1) cid) with
      ⟨e, h1, h2⟩ | ⟨b, b', m1, sid1, cid1, h1, h2, hb⟩
    · simp only [h1, h2]
    · simp only [h1, h2]
      cases elabCond env (sub wt) c cid1 with
      | error e => rfl
      | ok p =>
        obtain ⟨t, cid2⟩ := p
        simp only [vw, eraseL, eraseS, hb]
  | .brk t, B, C, nx, sid, cid => rfl
  | .cont t, B, C, nx, sid, cid => rfl
  | .switch_ sw lp v lp2 ops rp2 rp lb cases rb, B, C, nx, sid, cid => by
    simp only [expandS, elabS]
    rcases vw_inv (elabCases_expand cases (sid :: B) C [] false (sid + 1) cid) with
      ⟨e, h1, h2⟩ | ⟨cs, cs', m1, sid1, cid1, h1, h2, hcs⟩
    · simp only [h1, h2]
    · simp only [h1, h2, isEmpty_of_eraseCases hcs]
      split
      · rfl
      · simp only [vw, eraseL, eraseS, hcs, operandOf_expand hne]
  | .switchA sw lp name lp2 a0 more rp2 rp lb cases rb, B, C, nx, sid, cid => by
    simp only [expandS, elabS, expandMore_length, ← renderArgs_expand hne]
    cases env.autoVars.lookup name.lit with
    | none => rfl
    | some av =>
      simp only []
      cases autoPosBad av (more.length + 1) with
      | some pos => rfl
      | none =>
        simp only []
        rcases vw_inv (elabCases_expand cases (sid :: B) C [] false (sid + 1) (cid + 1)) with
          ⟨e, h1, h2⟩ | ⟨cs, cs', m1, sid1, cid1, h1, h2, hcs⟩
        · simp only [h1, h2]
        · simp only [h1, h2, isEmpty_of_eraseCases hcs]
          split
          · rfl
          · simp only [vw, eraseL, eraseS, hcs, cmdNode]
  | .pory ps lp x rp lb cases rb, B, C, nx, sid, cid => by
    simp only [expandS, elabS]
    split
    · rfl
    · split
      · rfl
      · rcases vwT_inv (elabPCases_expand cases B C [] [] rfl sid cid) with
          ⟨e, h1, h2⟩ | ⟨T, T', sid1, cid1, h1, h2, hT⟩
        · simp only [h1, h2]
        · simp only [h1, h2]
          have hsel : (selectCase env T (swVal env x.lit)).map (fun r => (eraseL r.1, r.2)) =
              (selectCase env T' (swVal env x.lit)).map (fun r => (eraseL r.1, r.2)) := by
            rw [← selectCase_eraseTable, ← selectCase_eraseTable, hT]
          cases h3 : selectCase env T (swVal env x.lit) with
          | none =>
            cases h4 : selectCase env T' (swVal env x.lit) with
            | none => rfl
            | some r' => rw [h3, h4] at hsel; cases hsel
          | some r =>
            cases h4 : selectCase env T' (swVal env x.lit) with
            | none => rw [h3, h4] at hsel; cases hsel
            | some r' =>
              rw [h3, h4] at hsel
              simp only [Option.map_some, Option.some.injEq, Prod.mk.injEq] at hsel
              simp only [vw, hsel.1, hsel.2]
theorem elabL_expand : (b : List SStmt) → (B C : List Nat) → (last : Bool) → (sid cid : Nat) →
    vw eraseL (elabL env sn (sub wt) B C last b sid cid) =
      vw eraseL (elabL env sn (substC []) B C last (expandL wt b) sid cid)
  | [], B, C, last, sid, cid => rfl
  | x :: r, B, C, last, sid, cid => by
    simp only [expandL, elabL, expandL_isEmpty]
    rcases vw_inv (elabS_expand x B C (r.isEmpty && last) sid cid) with
      ⟨e, h1, h2⟩ | ⟨a, a', m1, sid1, cid1, h1, h2, ha⟩
    · simp only [h1, h2]
    · simp only [h1, h2]
      rcases vw_inv (elabL_expand r B C last sid1 cid1) with
        ⟨e, h3, h4⟩ | ⟨b, b', m2, sid2, cid2, h3, h4, hb⟩
      · simp only [h3, h4]
      · simp only [h3, h4, vw, eraseL_append, ha, hb]
theorem elabElifs_expand : (es : List SElif) → (B C : List Nat) → (sid cid : Nat) →
    vw eraseElifs (elabElifs env sn (sub wt) B C es sid cid) =
      vw eraseElifs (elabElifs env sn (substC []) B C (expandElifs wt es) sid cid)
  | [], B, C, sid, cid => rfl
  | .mk e lp c rp lb body rb :: r, B, C, sid, cid => by
    simp only [expandElifs, elabElifs, elabCond_expand hne]
    cases elabCond env (sub wt) c cid with
    | error e => rfl
    | ok p =>
      obtain ⟨t, cid0⟩ := p
      rcases vw_inv (elabL_expand body B C true sid cid0) with ⟨e, h1, h2⟩ | ⟨b, b', m1, sid1, cid1, h1, h2, hb⟩
      · simp only [h1, h2]
      · simp only [h1, h2]
        rcases vw_inv (elabElifs_expand r B C sid1 cid1) with
          ⟨e, h3, h4⟩ | ⟨es, es', m2, sid2, cid2, h3, h4, hes⟩
        · simp only [h3, h4]
        · simp only [h3, h4, vw, eraseElifs, hb, hes]
theorem elabElse_expand : (e : SElse) → (B C : List Nat) → (sid cid : Nat) →
    vw eraseElse (elabElse env sn (sub wt) B C e sid cid) =
      vw eraseElse (elabElse env sn (substC []) B C (expandElse wt e) sid cid)
  | .none, B, C, sid, cid => rfl
  | .some e lb body rb, B, C, sid, cid => by
    simp only [expandElse, elabElse]
    rcases vw_inv (elabL_expand body B C true sid cid) with ⟨e, h1, h2⟩ | ⟨b, b', m1, sid1, cid1, h1, h2, hb⟩
    · simp only [h1, h2]
    · simp only [h1, h2, vw, eraseElse, hb]
theorem elabCases_expand : (cs : List SCase) → (B C : List Nat) → (seen : List String) → (hd : Bool) →
    (sid cid : Nat) →
    vw eraseCases (elabCases env sn (sub wt) B C cs seen hd sid cid) =
      vw eraseCases (elabCases env sn (substC []) B C (expandCases wt cs) seen hd sid cid)
  | [], B, C, seen, hd, sid, cid => rfl
  | .case c vs colon body :: r, B, C, seen, hd, sid, cid => by
    simp only [expandCases, elabCases, caseValue_expand hne, expandCases_isEmpty]
    split
    · rfl
    · rcases vw_inv (elabL_expand body B C r.isEmpty sid cid) with
        ⟨e, h1, h2⟩ | ⟨b, b', m1, sid1, cid1, h1, h2, hb⟩
      · simp only [h1, h2]
      · simp only [h1, h2]
        rcases vw_inv (elabCases_expand r B C (caseValue (sub wt) vs :: seen) hd sid1 cid1) with
          ⟨e, h3, h4⟩ | ⟨cs, cs', m2, sid2, cid2, h3, h4, hcs⟩
        · simp only [h3, h4]
        · simp only [h3, h4, vw, eraseCases, hb, hcs, caseTok_expand hne]
  | .dflt d colon body :: r, B, C, seen, hd, sid, cid => by
    simp only [expandCases, elabCases, expandCases_isEmpty]
    split
    · rfl
    · rcases vw_inv (elabL_expand body B C r.isEmpty sid cid) with
        ⟨e, h1, h2⟩ | ⟨b, b', m1, sid1, cid1, h1, h2, hb⟩
      · simp only [h1, h2]
      · simp only [h1, h2]
        rcases vw_inv (elabCases_expand r B C seen true sid1 cid1) with
          ⟨e, h3, h4⟩ | ⟨cs, cs', m2, sid2, cid2, h3, h4, hcs⟩
        · simp only [h3, h4]
        · simp only [h3, h4, vw, eraseCases, hb, hcs]
theorem elabPCases_expand : (cs : List SPCase) → (B C : List Nat) → (acc acc' : PTable) →
    eraseTable acc = eraseTable acc' → (sid cid : Nat) →
    vwT (elabPCases env sn (sub wt) B C cs acc sid cid) =
      vwT (elabPCases env sn (substC []) B C (expandPCases wt cs) acc' sid cid)
  | [], B, C, acc, acc', hacc, sid, cid => by
    simp only [expandPCases, elabPCases, vwT, hacc]
  | .colon key c x :: r, B, C, acc, acc', hacc, sid, cid => by
    simp only [expandPCases, elabPCases, expandPCases_isEmpty]
    rcases vw_inv (elabS_expand x B C r.isEmpty sid cid) with
      ⟨e, h1, h2⟩ | ⟨a, a', m1, sid1, cid1, h1, h2, ha⟩
    · simp only [h1, h2, vwT]
    · simp only [h1, h2]
      exact elabPCases_expand r B C _ _ (by simp only [eraseTable, List.map_cons, ha] at hacc ⊢; rw [hacc]) sid1 cid1
  | .brace key lb body rb :: r, B, C, acc, acc', hacc, sid, cid => by
    simp only [expandPCases, elabPCases]
    rcases vw_inv (elabL_expand body B C true sid cid) with
      ⟨e, h1, h2⟩ | ⟨a, a', m1, sid1, cid1, h1, h2, ha⟩
    · simp only [h1, h2, vwT]
    · simp only [h1, h2]
      exact elabPCases_expand r B C _ _ (by simp only [eraseTable, List.map_cons, ha] at hacc ⊢; rw [hacc]) sid1 cid1
end

end

end Pory.C13c
