import PoryProofs.Properties.C04c
/-
Helpers for property C15c (whole-output form of C15: which label lines are exported `::`, which are
local `:`), emitter side.  The census `C04c.programLabelDefs o p : List (String × Bool)` pairs every
label line of the output with its exported flag (`C04c.labels_of_program`); here the flags inside it are
computed, at the level of membership:

§1  `userLabelDefsOf s` — the label statements of a script as they sit in its chunk table, WITH their
    `(global)` flag (`C04c.userLabelsOf s` is its first projection);
    `mem_scriptDefs_iff` — for a script that can be laid out (`scriptChunks` and `chunkOrder` succeed, which
    acceptance by `emitScript` implies: `accepted_chunks`), an entry `(n, g)` of its census is
    the entry label with flag `scope == GLOBAL`, a label statement with its own flag, or a registered
    sub-label `<script>_<d>` with flag `false`.
§2  `mem_scriptsDefs_iff`, `mem_tablesDefs_iff`, `mem_topDefs_iff`, `mem_programLabelDefs_iff` — the same
    through inline scripts, tables, top-level statements and the whole program (no acceptance needed:
    these only unfold the census).
§3  `mem_scriptsOf_iff` — the scripts of a program are its top-level scripts and the inline scripts of
    its `mapscripts` statements (`inlineScriptsOf`).
-/
namespace Pory.C15c
open Pory Pory.Emit Pory.RenderSim Pory.C04c

/-! ### 1. one script -/

/-- The label statements of a script as they sit in its chunk table (table order), each with its
`(global)` flag. -/
def userLabelDefsOf (s : Script) : List (String × Bool) :=
  match scriptChunks s.body with
  | .error _ => []
  | .ok G => G.flatMap fun c => stmtLabels c.statements

theorem userLabelsOf_eq (s : Script) : userLabelsOf s = (userLabelDefsOf s).map (·.1) := by
  unfold userLabelsOf userLabelDefsOf
  cases scriptChunks s.body with
  | error e => rfl
  | ok G => simp only []; rw [List.map_flatMap]

theorem chunkLabel_zero (name : String) : chunkLabel name 0 = name := rfl

theorem chunkLabel_pos (name : String) {d : Nat} (h : d ≠ 0) : chunkLabel name d = jumpLabel name d := by
  have : (d == 0) = false := by simpa using h
  simp [chunkLabel, jumpLabel, this]

/-- The census entries of chunk `id`: its own label (entry label with the script's flag; a registered
sub-label with `false`) and its label statements. -/
theorem mem_chunkDefs_iff (name : String) (isGlobal : Bool) (G : List Chunk) (J : List Nat) (id : Nat)
    (n : String) (g : Bool) :
    (n, g) ∈ chunkDefs name isGlobal G J id ↔
      (id = 0 ∧ n = name ∧ g = isGlobal) ∨ (id ≠ 0 ∧ id ∈ J ∧ n = jumpLabel name id ∧ g = false) ∨
      (n, g) ∈ stmtLabels (chunkOf G id).statements := by
  unfold chunkDefs
  rw [List.mem_append]
  by_cases h0 : id = 0
  · subst h0
    simp [chunkLabel_zero]
  · have hb : (id == 0) = false := by simpa using h0
    by_cases hj : id ∈ J
    · simp [h0, hb, hj, chunkLabel_pos name h0]
    · simp [h0, hb, hj]

/-- A script accepted by `emitScript` has a chunk table and a layout order. -/
theorem accepted_chunks (o : Opts) (patches : List ((Nat × Nat) × String)) (tl : List String)
    (s : Script) (l : List Line) (h : emitScript o patches tl s = .ok l) :
    ∃ G order, scriptChunks s.body = .ok G ∧ C05.chunkOrder o G = .ok order := by
  rw [C05.emitScript_eq] at h
  cases hc : scriptChunks s.body with
  | error e => rw [hc] at h; cases h
  | ok G =>
    rw [hc] at h
    simp only at h
    obtain ⟨order, ho, _, _⟩ := renderChunks_ok o patches s.name G (s.scope == .GLOBAL) tl l h
    exact ⟨G, order, rfl, ho⟩

/-- **The census of one script, with flags.**  For a script with a chunk table and a layout order: `(n, g)`
is in its census iff it is the entry label with the flag of the script's scope, a label statement (of the
chunk table) with its own flag, or a registered generated sub-label with flag `false`. -/
theorem mem_scriptDefs_iff (o : Opts) (patches : List ((Nat × Nat) × String)) (s : Script)
    (G : List Chunk) (order : List Nat) (hc : scriptChunks s.body = .ok G)
    (ho : C05.chunkOrder o G = .ok order) (n : String) (g : Bool) :
    (n, g) ∈ scriptDefs o patches s ↔
      (n = s.name ∧ g = (s.scope == .GLOBAL)) ∨ (n, g) ∈ userLabelDefsOf s ∨
      (g = false ∧ n ∈ subLabelsOf o patches s) := by
  obtain ⟨hperm, hhead, hnd⟩ := C05.script_order_perm o s G order hc ho
  obtain ⟨hidn, _⟩ := C05.scriptChunks_ids s.body G hc
  have h0 : 0 ∈ order := by
    cases order with
    | nil => cases hhead
    | cons x r => simp only [List.head?_cons, Option.some.injEq] at hhead; subst hhead; simp
  unfold scriptDefs userLabelDefsOf subLabelsOf
  simp only [hc, ho]
  rw [List.mem_flatMap]
  constructor
  · rintro ⟨id, hid, hm⟩
    rcases (mem_chunkDefs_iff _ _ _ _ _ _ _).1 hm with ⟨_, hn, hg⟩ | ⟨hne, hj, hn, hg⟩ | hm
    · exact .inl ⟨hn, hg⟩
    · refine .inr (.inr ⟨hg, ?_⟩)
      rw [hn]
      refine List.mem_map.2 ⟨id, List.mem_filter.2 ⟨hid, ?_⟩, rfl⟩
      simp [hne, hj]
    · obtain ⟨c, hcG, hcid⟩ := List.mem_map.1 (hperm.mem_iff.1 hid)
      refine .inr (.inl (List.mem_flatMap.2 ⟨c, hcG, ?_⟩))
      rw [← hcid, chunkOf_self G hidn c hcG] at hm
      exact hm
  · rintro (⟨hn, hg⟩ | hm | ⟨hg, hm⟩)
    · exact ⟨0, h0, (mem_chunkDefs_iff _ _ _ _ _ _ _).2 (.inl ⟨rfl, hn, hg⟩)⟩
    · obtain ⟨c, hcG, hm⟩ := List.mem_flatMap.1 hm
      refine ⟨c.id, hperm.mem_iff.2 (List.mem_map.2 ⟨c, hcG, rfl⟩), ?_⟩
      refine (mem_chunkDefs_iff _ _ _ _ _ _ _).2 (.inr (.inr ?_))
      rw [chunkOf_self G hidn c hcG]
      exact hm
    · obtain ⟨d, hd, rfl⟩ := List.mem_map.1 hm
      obtain ⟨hdo, hdf⟩ := List.mem_filter.1 hd
      simp only [Bool.and_eq_true, bne_iff_ne, ne_eq, List.contains_eq_mem, decide_eq_true_eq] at hdf
      exact ⟨d, hdo, (mem_chunkDefs_iff _ _ _ _ _ _ _).2 (.inr (.inl ⟨hdf.1, hdf.2, rfl, hg⟩))⟩

/-- Without any acceptance hypothesis the left-to-right half still holds (a script that cannot be laid
out has an empty census). -/
theorem mem_scriptDefs_cases (o : Opts) (patches : List ((Nat × Nat) × String)) (s : Script)
    (n : String) (g : Bool) (h : (n, g) ∈ scriptDefs o patches s) :
    (n = s.name ∧ g = (s.scope == .GLOBAL)) ∨ (n, g) ∈ userLabelDefsOf s ∨
      (g = false ∧ n ∈ subLabelsOf o patches s) := by
  cases hc : scriptChunks s.body with
  | error e => unfold scriptDefs at h; simp only [hc] at h; cases h
  | ok G =>
    cases ho : C05.chunkOrder o G with
    | error e => unfold scriptDefs at h; simp only [hc, ho] at h; cases h
    | ok order => exact (mem_scriptDefs_iff o patches s G order hc ho n g).1 h

/-! ### 2. inline scripts, tables, top-level statements, the program -/

theorem mem_scriptsDefs_iff (o : Opts) (patches : List ((Nat × Nat) × String)) (x : String × Bool) :
    ∀ ss : List (Option Script),
      x ∈ scriptsDefs o patches ss ↔ ∃ s ∈ optScripts ss, x ∈ scriptDefs o patches s := by
  intro ss
  induction ss with
  | nil => simp [scriptsDefs, optScripts]
  | cons a r ih =>
    cases a with
    | none => simpa [scriptsDefs, optScripts] using ih
    | some sc =>
      simp only [scriptsDefs, optScripts, List.filterMap_cons, id, List.mem_append, List.mem_cons,
        exists_eq_or_imp] at ih ⊢
      rw [ih]

theorem mem_tablesDefs_iff (o : Opts) (patches : List ((Nat × Nat) × String)) (x : String × Bool) :
    ∀ ts : List TableMapScript,
      x ∈ tablesDefs o patches ts ↔
        ∃ t ∈ ts, x = (t.name, false) ∨
          ∃ s ∈ optScripts (t.entries.map (·.script)), x ∈ scriptDefs o patches s := by
  intro ts
  induction ts with
  | nil => simp [tablesDefs]
  | cons t r ih =>
    simp only [tablesDefs, List.mem_cons, List.mem_append, mem_scriptsDefs_iff, ih, exists_eq_or_imp]
    constructor
    · rintro (h | h | h)
      · exact .inl (.inl h)
      · exact .inl (.inr h)
      · exact .inr h
    · rintro ((h | h) | h)
      · exact .inl h
      · exact .inr (.inl h)
      · exact .inr (.inr h)

/-- The census entries of a top-level statement that are not entries of one of its scripts: the name of a
movement / mart / mapscripts statement with the flag of its scope, and the table names with `false`. -/
def topHeadDefs : Top → List (String × Bool)
  | .movement m => [(m.name, m.scope == .GLOBAL)]
  | .mart _ name _ _ scope => [(name, scope == .GLOBAL)]
  | .mapscripts m => (m.name, m.scope == .GLOBAL) :: m.tables.map fun t => (t.name, false)
  | _ => []

theorem mem_topDefs_iff (o : Opts) (patches : List ((Nat × Nat) × String)) (t : Top) (x : String × Bool) :
    x ∈ topDefs o patches t ↔ x ∈ topHeadDefs t ∨ ∃ s ∈ topScripts t, x ∈ scriptDefs o patches s := by
  cases t with
  | script s => simp [topDefs, topHeadDefs, topScripts]
  | raw _ _ _ => simp [topDefs, topHeadDefs, topScripts]
  | text _ => simp [topDefs, topHeadDefs, topScripts]
  | movement m => simp [topDefs, topHeadDefs, topScripts]
  | mart _ name _ _ scope => simp [topDefs, topHeadDefs, topScripts]
  | mapscripts m =>
    simp only [topDefs, mapScriptsDefs, topHeadDefs, topScripts, List.mem_cons, List.mem_append,
      mem_scriptsDefs_iff, mem_tablesDefs_iff, List.mem_map, List.mem_flatMap]
    constructor
    · rintro (h | ⟨s, hs, hx⟩ | ⟨t, ht, h | ⟨s, hs, hx⟩⟩)
      · exact .inl (.inl h)
      · exact .inr ⟨s, .inl hs, hx⟩
      · exact .inl (.inr ⟨t, ht, h.symm⟩)
      · exact .inr ⟨s, .inr ⟨t, ht, hs⟩, hx⟩
    · rintro ((h | ⟨t, ht, h⟩) | ⟨s, hs | ⟨t, ht, hs⟩, hx⟩)
      · exact .inl h
      · exact .inr (.inr ⟨t, ht, .inl h.symm⟩)
      · exact .inr (.inl ⟨s, hs, hx⟩)
      · exact .inr (.inr ⟨t, ht, .inr ⟨s, hs, hx⟩⟩)

/-- **Membership in the census of a program**: an entry comes from the head of a top-level statement, from
a script (top-level or inline), or from a text. -/
theorem mem_programLabelDefs_iff (o : Opts) (p : Program) (x : String × Bool) :
    x ∈ programLabelDefs o p ↔
      (∃ t ∈ p.tops, x ∈ topHeadDefs t) ∨ (∃ s ∈ scriptsOf p, x ∈ scriptDefs o p.patches s) ∨
      (∃ t ∈ p.texts, x = (t.name, t.isGlobal)) := by
  unfold programLabelDefs scriptsOf
  simp only [List.mem_append, List.mem_flatMap, List.mem_map, mem_topDefs_iff]
  constructor
  · rintro (⟨t, ht, h | ⟨s, hs, hx⟩⟩ | ⟨t, ht, h⟩)
    · exact .inl ⟨t, ht, h⟩
    · exact .inr (.inl ⟨s, ⟨t, ht, hs⟩, hx⟩)
    · exact .inr (.inr ⟨t, ht, h.symm⟩)
  · rintro (⟨t, ht, h⟩ | ⟨s, ⟨t, ht, hs⟩, hx⟩ | ⟨t, ht, h⟩)
    · exact .inl ⟨t, ht, .inl h⟩
    · exact .inl ⟨t, ht, .inr ⟨s, hs, hx⟩⟩
    · exact .inr ⟨t, ht, h.symm⟩

/-! ### 3. the scripts of a program -/

/-- The inline scripts of a `mapscripts` statement: those of its entries, then those of its table rows. -/
def inlineScripts (m : MapScripts) : List Script :=
  optScripts (m.mapScripts.map (·.script)) ++ m.tables.flatMap fun t => optScripts (t.entries.map (·.script))

theorem mem_inlineScripts_iff (m : MapScripts) (s : Script) :
    s ∈ inlineScripts m ↔
      (∃ ms ∈ m.mapScripts, ms.script = some s) ∨
      (∃ t ∈ m.tables, ∃ e ∈ t.entries, e.script = some s) := by
  unfold inlineScripts
  simp only [List.mem_append, List.mem_flatMap, mem_optScripts, List.mem_map]

/-- All inline scripts of a program. -/
def inlineScriptsOf (p : Program) : List Script :=
  p.tops.flatMap fun t => match t with | .mapscripts m => inlineScripts m | _ => []

theorem mem_inlineScriptsOf_iff (p : Program) (s : Script) :
    s ∈ inlineScriptsOf p ↔ ∃ m, Top.mapscripts m ∈ p.tops ∧ s ∈ inlineScripts m := by
  unfold inlineScriptsOf
  rw [List.mem_flatMap]
  constructor
  · rintro ⟨t, ht, hs⟩
    cases t with
    | mapscripts m => exact ⟨m, ht, hs⟩
    | script _ => cases hs
    | raw _ _ _ => cases hs
    | text _ => cases hs
    | movement _ => cases hs
    | mart _ _ _ _ _ => cases hs
  · rintro ⟨m, hm, hs⟩
    exact ⟨_, hm, hs⟩

/-- The scripts of a program: top-level `script` statements and inline scripts of `mapscripts`. -/
theorem mem_scriptsOf_iff (p : Program) (s : Script) :
    s ∈ scriptsOf p ↔ Top.script s ∈ p.tops ∨ s ∈ inlineScriptsOf p := by
  rw [mem_inlineScriptsOf_iff]
  unfold scriptsOf
  rw [List.mem_flatMap]
  constructor
  · rintro ⟨t, ht, hs⟩
    cases t with
    | script s' =>
      simp only [topScripts, List.mem_singleton] at hs
      subst hs
      exact .inl ht
    | mapscripts m => exact .inr ⟨m, ht, hs⟩
    | raw _ _ _ => simp [topScripts] at hs
    | text _ => simp [topScripts] at hs
    | movement _ => simp [topScripts] at hs
    | mart _ _ _ _ _ => simp [topScripts] at hs
  · rintro (h | ⟨m, hm, hs⟩)
    · exact ⟨_, h, by simp [topScripts]⟩
    · exact ⟨_, hm, hs⟩

end Pory.C15c
