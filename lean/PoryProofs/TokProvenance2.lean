import PoryProofs.TokProvenance
/-
Token provenance in the parser (C16, parser side), part 2: commands, conditions, labels and the
token-collecting loops.
-/
namespace Pory.Parser
open Pory

theorem prov_parseListValue (I : List Tok) (env : Env) (kind : ListKind) (am : Bool) (n : Nat) (acc : List Tok) :
    Prov I (parseListValue env kind am n acc) (fun r => AllPos I acc → AllPos I r) :=
  (prov_listBlock I env n).1 kind am acc

theorem prov_parseMovesOperator (I : List Tok) (env : Env) (n : Nat) :
    Prov I (parseMovesOperator env n) (fun r => AllPos I r) := by
  intro s hi
  obtain ⟨hp, hs⟩ := hi
  have hf := hp.facts
  have hs' := iff_true_intro hs
  unfold parseMovesOperator
  pvc [(prov_parseListValue I _ _ _ _ _).wp_iff, hf, hs']
  all_goals pfin

theorem prov_cmdArgsLoop (I : List Tok) (env : Env) (sn : String) (id : Nat) (tok : Tok) :
    ∀ (n : Nat) (a : CmdAcc), Prov I (cmdArgsLoop env sn id tok n a)
      (fun r => Pos I tok → ImpOK I a.imp → ImpOK I r.imp) := by
  intro n
  induction n with
  | zero => intro a s hi; rw [cmdArgsLoop]; wpsimp
  | succ n ih =>
    intro a s hi
    obtain ⟨hp, hs⟩ := hi
    have hf := hp.facts
    have hs' := iff_true_intro hs
    rw [cmdArgsLoop]
    pvc [(ih _).wp_iff, (prov_parseFormatStringOperator I _ _).wp_iff, (prov_parseMovesOperator I _ _).wp_iff,
      hf, hs']
    all_goals pfin

theorem prov_parseCommandStatement (I : List Tok) (env : Env) (sn : String) (n : Nat) :
    Prov I (parseCommandStatement env sn n) (fun r => Pos I r.1.tok ∧ ImpOK I r.2) := by
  intro s hi
  obtain ⟨hp, hs⟩ := hi
  have hf := hp.facts
  have hs' := iff_true_intro hs
  unfold parseCommandStatement
  pvc [(prov_cmdArgsLoop I _ _ _ _ _ _).wp_iff, wp_bumpCmdId, hf, hs']
  all_goals pfin

theorem prov_expectPeekVarOrAutoVar (I : List Tok) (env : Env) (sn : String) (n : Nat) :
    Prov I (expectPeekVarOrAutoVar env sn n)
      (fun r => ∀ x, r = some x → Pos I x.2.1.tok ∧ ImpOK I x.2.2) := by
  intro s hi
  obtain ⟨hp, hs⟩ := hi
  have hf := hp.facts
  have hs' := iff_true_intro hs
  unfold expectPeekVarOrAutoVar
  pvc [(prov_parseCommandStatement I _ _ _).wp_iff, hf, hs']
  all_goals pfin

theorem prov_peekTokenIsAutoVar (I : List Tok) (env : Env) : Prov I (peekTokenIsAutoVar env) (fun _ => True) := by
  intro s hi
  obtain ⟨hp, hs⟩ := hi
  have hf := hp.facts
  have hs' := iff_true_intro hs
  unfold peekTokenIsAutoVar
  pvc [hf, hs']
  all_goals pfin

theorem prov_collectUntil (I : List Tok) (stop : Tok → Bool) (onEOF : PFail) :
    ∀ (n : Nat) (parts : List String), Prov I (collectUntil stop onEOF n parts) (fun _ => True) := by
  intro n
  induction n with
  | zero => intro parts s hi; rw [collectUntil]; wpsimp
  | succ n ih =>
    intro parts s hi
    obtain ⟨hp, hs⟩ := hi
    have hf := hp.facts
    have hs' := iff_true_intro hs
    rw [collectUntil]
    pvc [(ih _).wp_iff, hf, hs']
    all_goals pfin

theorem prov_valueLoop (I : List Tok) (vt : Tok) :
    ∀ (n k : Nat) (parts : List String), Prov I (valueLoop vt n k parts) (fun _ => True) := by
  intro n
  induction n with
  | zero => intro k parts s hi; rw [valueLoop]; wpsimp
  | succ n ih =>
    intro k parts s hi
    obtain ⟨hp, hs⟩ := hi
    have hf := hp.facts
    have hs' := iff_true_intro hs
    rw [valueLoop]
    pvc [(ih _ _).wp_iff, hf, hs']
    all_goals pfin

theorem prov_collectUntilRange (I : List Tok) (st : Tok) :
    ∀ (n : Nat) (parts : List String),
      Prov I (parseConditionVarOperator.collectUntilRange st n parts) (fun _ => True) := by
  intro n
  induction n with
  | zero => intro parts s hi; rw [parseConditionVarOperator.collectUntilRange]; wpsimp
  | succ n ih =>
    intro parts s hi
    obtain ⟨hp, hs⟩ := hi
    have hf := hp.facts
    have hs' := iff_true_intro hs
    rw [parseConditionVarOperator.collectUntilRange]
    pvc [(ih _).wp_iff, hf, hs']
    all_goals pfin

theorem prov_parseConditionVarOperator (I : List Tok) (e : OpExpr) (n : Nat) :
    Prov I (parseConditionVarOperator e n) (fun r => Pos I e.operand → Pos I r.operand) := by
  intro s hi
  obtain ⟨hp, hs⟩ := hi
  have hf := hp.facts
  have hs' := iff_true_intro hs
  unfold parseConditionVarOperator
  pvc [(prov_valueLoop I _ _ _ _).wp_iff, (prov_collectUntilRange I _ _ _).wp_iff, hf, hs']
  all_goals pfin

theorem prov_parseConditionFlagLikeOperator (I : List Tok) (e : OpExpr) (nm : String) :
    Prov I (parseConditionFlagLikeOperator e nm) (fun r => Pos I e.operand → Pos I r.operand) := by
  intro s hi
  obtain ⟨hp, hs⟩ := hi
  have hf := hp.facts
  have hs' := iff_true_intro hs
  unfold parseConditionFlagLikeOperator
  pvc [hf, hs']
  all_goals pfin

theorem prov_parseLeafBooleanExpression (I : List Tok) (env : Env) (sn : String) (n : Nat) :
    Prov I (parseLeafBooleanExpression env sn n) (fun r => Pos I r.1.operand ∧ ImpOK I r.2) := by
  intro s hi
  obtain ⟨hp, hs⟩ := hi
  have hf := hp.facts
  have hs' := iff_true_intro hs
  unfold parseLeafBooleanExpression
  pvc [(prov_peekTokenIsAutoVar I _).wp_iff, (prov_collectUntil I _ _ _ _).wp_iff,
    (prov_expectPeekVarOrAutoVar I _ _ _).wp_iff, (prov_parseConditionVarOperator I _ _).wp_iff,
    (prov_parseConditionFlagLikeOperator I _ _).wp_iff, hf, hs']
  all_goals pfin

/-! ### boolean expressions -/

/-- Operand tokens of all leaves of a condition stand at input positions. -/
def CondOK (I : List Tok) (c : BoolExpr) : Prop := AllPos I (C16nd.condToks c)

theorem CondOK_leaf (I : List Tok) (e : OpExpr) : CondOK I (.leaf e) ↔ Pos I e.operand := by
  simp only [CondOK, C16nd.condToks, AllPos_cons, AllPos_nil, and_true]
theorem CondOK_bin (I : List Tok) (l r : BoolExpr) (op : TT) :
    CondOK I (.bin l op r) ↔ CondOK I l ∧ CondOK I r := by
  simp only [CondOK, C16nd.condToks, AllPos_append]

theorem prov_boolBlock (I : List Tok) (env : Env) (sn : String) : ∀ n : Nat,
    (∀ single negated, Prov I (parseBooleanExpression env sn single negated n)
      (fun r => CondOK I r.1 ∧ ImpOK I r.2)) ∧
    (∀ left single negated, Prov I (parseRightSideExpression env sn left single negated n)
      (fun r => CondOK I left → CondOK I r.1 ∧ ImpOK I r.2)) := by
  intro n
  induction n with
  | zero =>
    refine ⟨?_, ?_⟩
    · intro a b s hi; rw [parseBooleanExpression]; wpsimp
    · intro l a b s hi; rw [parseRightSideExpression]; wpsimp
  | succ n ih =>
    obtain ⟨ih1, ih2⟩ := ih
    refine ⟨?_, ?_⟩
    · intro a b s hi
      obtain ⟨hp, hs⟩ := hi
      have hf := hp.facts
      have hs' := iff_true_intro hs
      rw [parseBooleanExpression]
      pvc [(ih1 _ _).wp_iff, (ih2 _ _ _).wp_iff, (prov_parseLeafBooleanExpression I _ _ _).wp_iff,
        CondOK_leaf, CondOK_bin, hf, hs']
      all_goals pfin
    · intro l a b s hi
      obtain ⟨hp, hs⟩ := hi
      have hf := hp.facts
      have hs' := iff_true_intro hs
      rw [parseRightSideExpression]
      pvc [(ih1 _ _).wp_iff, (ih2 _ _ _).wp_iff, CondOK_leaf, CondOK_bin, hf, hs']
      all_goals pfin

theorem prov_parseBooleanExpression (I : List Tok) (env : Env) (sn : String) (single negated : Bool) (n : Nat) :
    Prov I (parseBooleanExpression env sn single negated n) (fun r => CondOK I r.1 ∧ ImpOK I r.2) :=
  (prov_boolBlock I env sn n).1 single negated

/-! ### labels and the remaining loops -/

theorem prov_tryParseLabelStatement (I : List Tok) :
    Prov I tryParseLabelStatement (fun r => ∀ st, r = some st → ∃ t nm g, st = Stmt.label t nm g ∧ Pos I t) := by
  intro s hi
  obtain ⟨hp, hs⟩ := hi
  have hf := hp.facts
  have hs' := iff_true_intro hs
  unfold tryParseLabelStatement
  pvc [hf, hs']
  all_goals pfin

theorem prov_switchOperandLoop (I : List Tok) (ot : Tok) :
    ∀ (n : Nat) (parts : List String),
      Prov I (parseSwitchStatement.switchOperandLoop ot n parts) (fun _ => True) := by
  intro n
  induction n with
  | zero => intro parts s hi; rw [parseSwitchStatement.switchOperandLoop]; wpsimp
  | succ n ih =>
    intro parts s hi
    obtain ⟨hp, hs⟩ := hi
    have hf := hp.facts
    have hs' := iff_true_intro hs
    rw [parseSwitchStatement.switchOperandLoop]
    pvc [(ih _).wp_iff, hf, hs']
    all_goals pfin

theorem prov_tableCollect (I : List Tok) (stop : Tok → Bool) (onEOF : PFail) :
    ∀ (n : Nat) (acc : String), Prov I (tableCollect stop onEOF n acc) (fun _ => True) := by
  intro n
  induction n with
  | zero => intro acc s hi; rw [tableCollect]; wpsimp
  | succ n ih =>
    intro acc s hi
    obtain ⟨hp, hs⟩ := hi
    have hf := hp.facts
    have hs' := iff_true_intro hs
    rw [tableCollect]
    pvc [(ih _).wp_iff, hf, hs']
    all_goals pfin

theorem prov_constLoop (I : List Tok) : ∀ (n : Nat) (acc : String), Prov I (constLoop n acc) (fun _ => True) := by
  intro n
  induction n with
  | zero => intro acc s hi; rw [constLoop]; wpsimp
  | succ n ih =>
    intro acc s hi
    obtain ⟨hp, hs⟩ := hi
    have hf := hp.facts
    have hs' := iff_true_intro hs
    rw [constLoop]
    pvc [(ih _).wp_iff, hf, hs']
    all_goals pfin

theorem prov_mapM_tryReplace (I : List Tok) : ∀ (l : List Tok),
    Prov I (l.mapM fun t => tryReplaceWithConstant t.lit) (fun r => r.length = l.length) := by
  intro l
  induction l with
  | nil => intro s hi; simp only [List.mapM_nil]; wpsimp; exact ⟨hi, rfl⟩
  | cons x r ih =>
    intro s hi
    obtain ⟨hp, hs⟩ := hi
    have hf := hp.facts
    have hs' := iff_true_intro hs
    simp only [List.mapM_cons]
    pvc [ih.wp_iff, hf, hs']
    all_goals pfin

end Pory.Parser
