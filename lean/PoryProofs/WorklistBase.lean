import PorySpec.Impl
/-
Worklist proof, part 1: basic facts used by `PoryProofs/Worklist.lean`.

* `findChunk` / `List.lookup` lemmas;
* `scanSimple_spec`: what the scanning loop of `processChunk` reports;
* `impl_of_prefix`: the straight-line prefix of a chunk;
* scope ids bound in a statement list (`bindersL`), `ScopeIdsDistinct`;
* `Grows s s' nw`: a builder (`splitBool`, `createIf`, …) only appends the chunks `nw`, with
  fresh, pairwise distinct ids, to the queue and bumps the counter;
* `IsHelperIn`, `Realizes`.
-/
namespace Pory.Emit
open Pory Pory.Sem

/-! ### `findChunk` -/

theorem findChunk_cons_self (c : Chunk) (l : List Chunk) : findChunk (c :: l) c.id = some c := by
  simp [findChunk]

theorem findChunk_cons_ne (c : Chunk) (l : List Chunk) (k : Nat) (h : c.id ≠ k) :
    findChunk (c :: l) k = findChunk l k := by
  simp [findChunk, h]

theorem findChunk_filter_ne (l : List Chunk) (k j : Nat) (h : k ≠ j) :
    findChunk (l.filter (·.id != j)) k = findChunk l k := by
  induction l with
  | nil => rfl
  | cons a r ih =>
    by_cases ha : a.id = j
    · have : (a.id != j) = false := by simp [ha]
      rw [List.filter_cons, this]
      simp only [Bool.false_eq_true, if_false]
      rw [ih, findChunk_cons_ne _ _ _ (by omega)]
    · have : (a.id != j) = true := by simp [ha]
      rw [List.filter_cons, this]
      simp only [if_true]
      by_cases hk : a.id = k
      · subst hk; rw [findChunk_cons_self, findChunk_cons_self]
      · rw [findChunk_cons_ne _ _ _ hk, findChunk_cons_ne _ _ _ hk, ih]

theorem findChunk_some_id {l : List Chunk} {k : Nat} {ch : Chunk} (h : findChunk l k = some ch) :
    ch.id = k := by
  have := List.find?_some h
  simpa using this

theorem findChunk_mem_ids {l : List Chunk} {k : Nat} {ch : Chunk} (h : findChunk l k = some ch) :
    k ∈ l.map (·.id) := by
  have h1 := List.mem_of_find?_eq_some h
  have h2 := findChunk_some_id h
  exact List.mem_map.2 ⟨ch, h1, h2⟩

theorem filter_ne_of_not_mem (l : List Chunk) (j : Nat) (h : j ∉ l.map (·.id)) :
    l.filter (·.id != j) = l := by
  rw [List.filter_eq_self]
  intro a ha
  have : a.id ≠ j := fun e => h (List.mem_map.2 ⟨a, ha, e⟩)
  simp [this]

/-! ### `List.lookup` on `Nat` keys -/

theorem lookup_cons_ne {α} (k k' : Nat) (v : α) (l : List (Nat × α)) (h : k ≠ k') :
    ((k', v) :: l).lookup k = l.lookup k := by
  have : (k == k') = false := by simp [h]
  simp [List.lookup, this]

theorem lookup_cons_self {α} (k : Nat) (v : α) (l : List (Nat × α)) :
    ((k, v) :: l).lookup k = some v := by
  simp [List.lookup]

theorem lookup_none_of_not_mem {α} (k : Nat) (l : List (Nat × α)) (h : k ∉ l.map (·.1)) :
    l.lookup k = none := by
  induction l with
  | nil => rfl
  | cons a r ih =>
    obtain ⟨k', v⟩ := a
    simp only [List.map_cons, List.mem_cons, not_or] at h
    rw [lookup_cons_ne _ _ _ _ h.1]; exact ih h.2

theorem mem_keys_of_lookup {α} {k : Nat} {l : List (Nat × α)} {v : α} (h : l.lookup k = some v) :
    k ∈ l.map (·.1) := by
  induction l with
  | nil => simp [List.lookup] at h
  | cons a r ih =>
    obtain ⟨k', v'⟩ := a
    by_cases hk : k = k'
    · simp [hk]
    · rw [lookup_cons_ne _ _ _ _ hk] at h; simp [ih h]

theorem lookup_isSome_of_mem {α} {k : Nat} {l : List (Nat × α)} (h : k ∈ l.map (·.1)) :
    ∃ v, l.lookup k = some v := by
  induction l with
  | nil => simp at h
  | cons a r ih =>
    obtain ⟨k', v'⟩ := a
    by_cases hk : k = k'
    · subst hk; exact ⟨v', lookup_cons_self _ _ _⟩
    · rw [lookup_cons_ne _ _ _ _ hk]
      simp only [List.map_cons, List.mem_cons] at h
      rcases h with h | h
      · exact absurd h hk
      · exact ih h

theorem lookup_append_of_not_mem {α} (k : Nat) (a b : List (Nat × α)) (h : k ∉ a.map (·.1)) :
    (a ++ b).lookup k = b.lookup k := by
  induction a with
  | nil => rfl
  | cons x r ih =>
    obtain ⟨k', v⟩ := x
    simp only [List.map_cons, List.mem_cons, not_or] at h
    rw [List.cons_append, lookup_cons_ne _ _ _ _ h.1]; exact ih h.2

theorem lookup_append_of_some {α} (a b : List (Nat × α)) (k : Nat) (v : α) (h : a.lookup k = some v) :
    (a ++ b).lookup k = some v := by
  induction a with
  | nil => simp [List.lookup] at h
  | cons z r ih =>
    obtain ⟨k', v'⟩ := z
    by_cases hk : k = k'
    · subst hk; rw [lookup_cons_self] at h; rw [List.cons_append, lookup_cons_self]; exact h
    · rw [List.cons_append, lookup_cons_ne _ _ _ _ hk]; rw [lookup_cons_ne _ _ _ _ hk] at h; exact ih h

theorem lookup_of_mem_nodup {α} {k : Nat} {v : α} {l : List (Nat × α)} (hn : (l.map (·.1)).Nodup)
    (hm : (k, v) ∈ l) : l.lookup k = some v := by
  induction l with
  | nil => simp at hm
  | cons a r ih =>
    obtain ⟨k', v'⟩ := a
    simp only [List.map_cons, List.nodup_cons] at hn
    simp only [List.mem_cons, Prod.mk.injEq] at hm
    rcases hm with ⟨rfl, rfl⟩ | hm
    · exact lookup_cons_self _ _ _
    · have : k ≠ k' := by
        intro h; subst h; exact hn.1 (List.mem_map.2 ⟨(k, v), hm, rfl⟩)
      rw [lookup_cons_ne _ _ _ _ this]; exact ih hn.2 hm

/-! ### the scanning loop -/

/-- a command or a label -/
def IsSimple : Stmt → Prop
  | .cmd _ => True
  | .label .. => True
  | _ => False

theorem scanSimple_spec : ∀ (ss : List Stmt) (i0 len : Nat), len = i0 + ss.length →
    ∀ i fin, scanSimple ss i0 len = (i, fin) →
    ∃ pre rest, ss = pre ++ rest ∧ (∀ x ∈ pre, IsSimple x) ∧ i = i0 + pre.length ∧
      ((fin = none ∧ (rest = [] ∨ ∃ x r, rest = x :: r ∧ ¬ IsSimple x)) ∨
       (∃ c, fin = some (c.name == "end") ∧ rest = [.cmd c] ∧ (c.name = "end" ∨ c.name = "return"))) := by
  intro ss
  induction ss with
  | nil =>
    intro i0 len _ i fin h
    simp only [scanSimple, Prod.mk.injEq] at h
    exact ⟨[], [], rfl, by simp, by simp [h.1], .inl ⟨h.2.symm, .inl rfl⟩⟩
  | cons s r ih =>
    intro i0 len hlen i fin h
    have step : ∀ (hs : IsSimple s), scanSimple r (i0 + 1) len = (i, fin) →
        ∃ pre rest, s :: r = pre ++ rest ∧ (∀ x ∈ pre, IsSimple x) ∧ i = i0 + pre.length ∧
          ((fin = none ∧ (rest = [] ∨ ∃ x r, rest = x :: r ∧ ¬ IsSimple x)) ∨
           (∃ c, fin = some (c.name == "end") ∧ rest = [.cmd c] ∧ (c.name = "end" ∨ c.name = "return"))) := by
      intro hs h'
      obtain ⟨pre, rest, e1, e2, e3, e4⟩ := ih (i0 + 1) len (by simp at hlen; omega) i fin h'
      refine ⟨s :: pre, rest, by simp [e1], ?_, by simp [e3]; omega, e4⟩
      intro x hx
      simp only [List.mem_cons] at hx
      rcases hx with rfl | hx
      · exact hs
      · exact e2 x hx
    have stop : ¬ IsSimple s → (i, fin) = (i0, none) →
        ∃ pre rest, s :: r = pre ++ rest ∧ (∀ x ∈ pre, IsSimple x) ∧ i = i0 + pre.length ∧
          ((fin = none ∧ (rest = [] ∨ ∃ x r, rest = x :: r ∧ ¬ IsSimple x)) ∨
           (∃ c, fin = some (c.name == "end") ∧ rest = [.cmd c] ∧ (c.name = "end" ∨ c.name = "return"))) := by
      intro hs h'
      simp only [Prod.mk.injEq] at h'
      exact ⟨[], s :: r, rfl, by simp, by simp [h'.1], .inl ⟨h'.2, .inr ⟨s, r, rfl, hs⟩⟩⟩
    cases s with
    | cmd c =>
      rw [scanSimple] at h
      split at h
      · rename_i hc
        simp only [Bool.and_eq_true, beq_iff_eq, Bool.or_eq_true] at hc
        simp only [Prod.mk.injEq] at h
        have hr : r = [] := by
          have : r.length = 0 := by simp at hlen; omega
          exact List.eq_nil_of_length_eq_zero this
        subst hr
        exact ⟨[], [.cmd c], rfl, by simp, by simp [h.1], .inr ⟨c, h.2.symm, rfl, hc.2⟩⟩
      · exact step trivial h
    | label t n g => rw [scanSimple] at h; exact step trivial h
    | ite => simp only [scanSimple] at h; exact stop (by simp [IsSimple]) h.symm
    | while_ => simp only [scanSimple] at h; exact stop (by simp [IsSimple]) h.symm
    | doWhile => simp only [scanSimple] at h; exact stop (by simp [IsSimple]) h.symm
    | brk => simp only [scanSimple] at h; exact stop (by simp [IsSimple]) h.symm
    | cont => simp only [scanSimple] at h; exact stop (by simp [IsSimple]) h.symm
    | switch_ => simp only [scanSimple] at h; exact stop (by simp [IsSimple]) h.symm

/-- a chunk whose statements start with `pre1 ++ pre2` (all of `pre2` simple), implementing `rest`
after them, implements `pre2 ++ rest` from offset `|pre1|` -/
theorem impl_of_prefix {G : List Chunk} {cx : Ctx} {k : Nat} {ch : Chunk} {rest : List Stmt}
    {ret : Option Nat} (hG : findChunk G k = some ch) :
    ∀ (pre2 pre1 : List Stmt), (∀ x ∈ pre2, IsSimple x) → ch.statements = pre1 ++ pre2 →
      Impl G cx k (pre1.length + pre2.length) rest ret →
      Impl G cx k pre1.length (pre2 ++ rest) ret := by
  intro pre2
  induction pre2 with
  | nil => intro pre1 _ _ h; simpa using h
  | cons s r ih =>
    intro pre1 hsim hs h
    have hs' : ch.statements = (pre1 ++ [s]) ++ r := by simp [hs]
    have := ih (pre1 ++ [s]) (fun x hx => hsim x (by simp [hx])) hs'
      (by simpa [Nat.add_assoc, Nat.add_comm 1] using h)
    have hget : ch.statements[pre1.length]? = some s := by simp [hs]
    have hss := hsim s (by simp)
    cases s with
    | cmd c => exact .cmd hG hget (by simpa using this)
    | label t n g => exact .label hG hget (by simpa using this)
    | _ => simp [IsSimple] at hss

/-- the head chunk's own `Impl`, from the `Impl` of what follows its straight-line prefix -/
theorem impl_head {G : List Chunk} {cx : Ctx} {k : Nat} {ch : Chunk} {pre rst : List Stmt}
    {ret : Option Nat} (hG : findChunk G k = some ch) (hs : ch.statements = pre)
    (hsim : ∀ x ∈ pre, IsSimple x)
    (h : Impl G cx k pre.length rst ret) : Impl G cx k 0 (pre ++ rst) ret := by
  have := impl_of_prefix (cx := cx) (rest := rst) (ret := ret) hG pre [] hsim (by simpa using hs)
    (by simpa using h)
  simpa using this

/-! ### scope ids bound in a statement list -/
mutual
def binders : Stmt → List Nat
  | .cmd _ => []
  | .label .. => []
  | .ite _ _ b es e => bindersL b ++ bindersE es ++ (match e with | some l => bindersL l | none => [])
  | .while_ _ sid _ b => sid :: bindersL b
  | .doWhile _ sid _ b => sid :: bindersL b
  | .brk .. => []
  | .cont .. => []
  | .switch_ _ sid _ cs => sid :: bindersC cs
def bindersL : List Stmt → List Nat
  | [] => []
  | s :: r => binders s ++ bindersL r
def bindersE : List (BoolExpr × List Stmt) → List Nat
  | [] => []
  | (_, b) :: r => bindersL b ++ bindersE r
def bindersC : List SwitchCase → List Nat
  | [] => []
  | (_, _, b) :: r => bindersL b ++ bindersC r
end

theorem binders_ite (tok : Tok) (c : BoolExpr) (b : List Stmt) (es : List (BoolExpr × List Stmt))
    (e : Option (List Stmt)) : binders (.ite tok c b es e) =
      bindersL b ++ bindersE es ++ (match e with | some l => bindersL l | none => []) := by
  cases e <;> rfl
theorem binders_while (tok : Tok) (sid : Nat) (c : Option BoolExpr) (b : List Stmt) :
    binders (.while_ tok sid c b) = sid :: bindersL b := rfl
theorem binders_doWhile (tok : Tok) (sid : Nat) (c : BoolExpr) (b : List Stmt) :
    binders (.doWhile tok sid c b) = sid :: bindersL b := rfl
theorem binders_switch (tok : Tok) (sid : Nat) (o : Tok) (cs : List SwitchCase) :
    binders (.switch_ tok sid o cs) = sid :: bindersC cs := rfl
theorem binders_brk (tok : Tok) (sid : Nat) : binders (.brk tok sid) = [] := rfl
theorem binders_cont (tok : Tok) (sid : Nat) : binders (.cont tok sid) = [] := rfl
theorem bindersL_cons (s : Stmt) (r : List Stmt) : bindersL (s :: r) = binders s ++ bindersL r := rfl
theorem bindersL_nil : bindersL [] = [] := rfl
theorem bindersE_cons (c : BoolExpr) (b : List Stmt) (r : List (BoolExpr × List Stmt)) :
    bindersE ((c, b) :: r) = bindersL b ++ bindersE r := rfl
theorem bindersC_cons (v : Tok) (d : Bool) (b : List Stmt) (r : List SwitchCase) :
    bindersC ((v, d, b) :: r) = bindersL b ++ bindersC r := rfl

/-- the scope ids of all `while` / `do…while` / `switch` statements are pairwise distinct -/
def ScopeIdsDistinct (body : List Stmt) : Prop := (bindersL body).Nodup

theorem bindersL_append (a b : List Stmt) : bindersL (a ++ b) = bindersL a ++ bindersL b := by
  induction a with
  | nil => simp [bindersL]
  | cons s r ih => simp [bindersL, ih]

theorem binders_simple {s : Stmt} (h : IsSimple s) : binders s = [] := by
  cases s <;> simp [IsSimple] at h <;> simp [binders]

theorem bindersL_simple (pre : List Stmt) (h : ∀ x ∈ pre, IsSimple x) : bindersL pre = [] := by
  induction pre with
  | nil => simp [bindersL]
  | cons s r ih =>
    simp [bindersL, binders_simple (h s (by simp)), ih (fun x hx => h x (by simp [hx]))]

/-! ### the blocks directly inside a compound statement, and the scopes it opens -/

def subBlocks : Stmt → List (List Stmt)
  | .ite _ _ b es e => b :: (es.map (·.2) ++ (match e with | some l => [l] | none => []))
  | .while_ _ _ _ b => [b]
  | .doWhile _ _ _ b => [b]
  | .switch_ _ _ _ cs => cs.map (·.2.2)
  | _ => []

/-- scope ids a statement opens for `break` -/
def scopeB : Stmt → List Nat
  | .while_ _ sid _ _ => [sid]
  | .doWhile _ sid _ _ => [sid]
  | .switch_ _ sid _ _ => [sid]
  | _ => []

/-- scope ids a statement opens for `continue` -/
def scopeC : Stmt → List Nat
  | .while_ _ sid _ _ => [sid]
  | .doWhile _ sid _ _ => [sid]
  | _ => []

/-! ### at most one `default` per switch -/
mutual
def OneDefault : Stmt → Prop
  | .cmd _ => True
  | .label .. => True
  | .ite _ _ b es e => OneDefaultL b ∧ OneDefaultE es ∧ (match e with | some l => OneDefaultL l | none => True)
  | .while_ _ _ _ b => OneDefaultL b
  | .doWhile _ _ _ b => OneDefaultL b
  | .brk .. => True
  | .cont .. => True
  | .switch_ _ _ _ cs => (cs.filter (·.2.1)).length ≤ 1 ∧ OneDefaultC cs
def OneDefaultL : List Stmt → Prop
  | [] => True
  | s :: r => OneDefault s ∧ OneDefaultL r
def OneDefaultE : List (BoolExpr × List Stmt) → Prop
  | [] => True
  | (_, b) :: r => OneDefaultL b ∧ OneDefaultE r
def OneDefaultC : List SwitchCase → Prop
  | [] => True
  | (_, _, b) :: r => OneDefaultL b ∧ OneDefaultC r
end

theorem od_ite (tok : Tok) (c : BoolExpr) (b : List Stmt) (es : List (BoolExpr × List Stmt))
    (e : Option (List Stmt)) : OneDefault (.ite tok c b es e) ↔
      (OneDefaultL b ∧ OneDefaultE es ∧ (match e with | some l => OneDefaultL l | none => True)) := by
  cases e <;> exact Iff.rfl
theorem od_while (tok : Tok) (sid : Nat) (c : Option BoolExpr) (b : List Stmt) :
    OneDefault (.while_ tok sid c b) ↔ OneDefaultL b := Iff.rfl
theorem od_doWhile (tok : Tok) (sid : Nat) (c : BoolExpr) (b : List Stmt) :
    OneDefault (.doWhile tok sid c b) ↔ OneDefaultL b := Iff.rfl
theorem od_switch (tok : Tok) (sid : Nat) (o : Tok) (cs : List SwitchCase) :
    OneDefault (.switch_ tok sid o cs) ↔ ((cs.filter (·.2.1)).length ≤ 1 ∧ OneDefaultC cs) := Iff.rfl
theorem odL_cons (s : Stmt) (r : List Stmt) : OneDefaultL (s :: r) ↔ (OneDefault s ∧ OneDefaultL r) := Iff.rfl
theorem odL_nil : OneDefaultL [] := trivial
theorem odE_cons (c : BoolExpr) (b : List Stmt) (r : List (BoolExpr × List Stmt)) :
    OneDefaultE ((c, b) :: r) ↔ (OneDefaultL b ∧ OneDefaultE r) := Iff.rfl
theorem odC_cons (v : Tok) (d : Bool) (b : List Stmt) (r : List SwitchCase) :
    OneDefaultC ((v, d, b) :: r) ↔ (OneDefaultL b ∧ OneDefaultC r) := Iff.rfl

theorem OneDefaultL_append (a b : List Stmt) : OneDefaultL (a ++ b) ↔ OneDefaultL a ∧ OneDefaultL b := by
  induction a with
  | nil => simp [OneDefaultL]
  | cons s r ih => simp [OneDefaultL, ih, and_assoc]

/-! ### helper chunks, `Realizes` -/

def IsHelperIn (G : List Chunk) (q : Chunk) : Prop :=
  ∃ ch, findChunk G q.id = some ch ∧ ch.statements = [] ∧ ch.branch = q.branch

/-- what the final graph owes a queued chunk -/
def Realizes (G : List Chunk) (cx : Ctx) (p : Chunk) : Prop :=
  match p.branch with
  | .none => OneDefaultL p.statements → Impl G cx p.id 0 p.statements p.returnID
  | _ => IsHelperIn G p

theorem realizes_code {G : List Chunk} {cx : Ctx} {p : Chunk} (h : p.branch = .none) :
    Realizes G cx p ↔ (OneDefaultL p.statements → Impl G cx p.id 0 p.statements p.returnID) := by
  unfold Realizes; rw [h]

theorem realizes_helper {G : List Chunk} {cx : Ctx} {q : Chunk} (h : q.branch ≠ .none) :
    Realizes G cx q ↔ IsHelperIn G q := by
  unfold Realizes
  cases hb : q.branch <;> simp_all

def qbinders (q : List Chunk) : List Nat := q.flatMap (fun p => bindersL p.statements)

theorem qbinders_append (a b : List Chunk) : qbinders (a ++ b) = qbinders a ++ qbinders b := by
  simp [qbinders, List.flatMap_append]

theorem qbinders_cons (a : Chunk) (b : List Chunk) :
    qbinders (a :: b) = bindersL a.statements ++ qbinders b := by
  simp [qbinders, List.flatMap_cons]

theorem qbinders_nil : qbinders [] = [] := rfl

theorem qbinders_helpers (hs : List Chunk) (h : ∀ q ∈ hs, q.statements = []) : qbinders hs = [] := by
  induction hs with
  | nil => rfl
  | cons a r ih =>
    have ha := h a (by simp)
    have := ih (fun q hq => h q (by simp [hq]))
    rw [qbinders_cons, ha, this]; rfl

/-! ### builders only append fresh chunks -/

structure Grows (s s' : WS) (nw : List Chunk) : Prop where
  counter_le : s.counter ≤ s'.counter
  queue_eq : s'.queue = s.queue ++ nw
  final_eq : s'.final = s.final
  brk_eq : s'.brk = s.brk
  cont_eq : s'.cont = s.cont
  ids : ∀ q ∈ nw, s.counter < q.id ∧ q.id ≤ s'.counter
  nodup : (nw.map (·.id)).Nodup

theorem Grows.refl (s : WS) : Grows s s [] :=
  ⟨Nat.le_refl _, by simp, rfl, rfl, rfl, by simp, by simp⟩

theorem Grows.trans {a b c : WS} {x y : List Chunk} (h1 : Grows a b x) (h2 : Grows b c y) :
    Grows a c (x ++ y) := by
  refine ⟨Nat.le_trans h1.counter_le h2.counter_le, by rw [h2.queue_eq, h1.queue_eq, List.append_assoc],
    h2.final_eq.trans h1.final_eq, h2.brk_eq.trans h1.brk_eq, h2.cont_eq.trans h1.cont_eq, ?_, ?_⟩
  · intro q hq
    have := h1.counter_le; have := h2.counter_le
    rcases List.mem_append.1 hq with hq | hq
    · have := h1.ids q hq; omega
    · have := h2.ids q hq; omega
  · rw [List.map_append, List.nodup_append]
    refine ⟨h1.nodup, h2.nodup, ?_⟩
    intro i hi j hj
    obtain ⟨q1, hq1, rfl⟩ := List.mem_map.1 hi
    obtain ⟨q2, hq2, rfl⟩ := List.mem_map.1 hj
    have := h1.ids q1 hq1; have := h2.ids q2 hq2; omega

/-- reserve the next id without queueing anything -/
theorem Grows.reserve (s : WS) : Grows s { s with counter := s.counter + 1 } [] :=
  ⟨by simp, by simp, rfl, rfl, rfl, by simp, by simp⟩

/-- allocate the next id and queue a chunk with it -/
theorem Grows.allocPush (s : WS) (c : Chunk) (hc : c.id = s.counter + 1) :
    Grows s { s with counter := s.counter + 1, queue := s.queue ++ [c] } [c] :=
  ⟨by simp, rfl, rfl, rfl, rfl, by simp [hc], by simp⟩

/-- queue a chunk whose id was reserved before the chunks `nw` were created -/
theorem Grows.pushReserved {s s' : WS} {nw : List Chunk} (h : Grows s s' nw) (c : Chunk)
    (h1 : s.counter < c.id) (h2 : c.id ≤ s'.counter) (h3 : c.id ∉ nw.map (·.id)) :
    Grows s { s' with queue := s'.queue ++ [c] } (nw ++ [c]) := by
  refine ⟨h.counter_le, by simp [h.queue_eq], h.final_eq, h.brk_eq, h.cont_eq, ?_, ?_⟩
  · intro q hq
    rcases List.mem_append.1 hq with hq | hq
    · exact h.ids q hq
    · simp only [List.mem_singleton] at hq; subst hq; exact ⟨h1, h2⟩
  · rw [List.map_append, List.nodup_append]
    refine ⟨h.nodup, by simp, ?_⟩
    intro i hi j hj
    simp only [List.map_cons, List.map_nil, List.mem_singleton] at hj
    subst hj
    intro e; subst e; exact h3 hi

end Pory.Emit
