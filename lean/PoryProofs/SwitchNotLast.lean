import PoryProofs.RenderSim
/-
`RenderSim.SwitchNotLast` for the *optimised* chunk order, from two facts about the chunk table
that the emitter's id allocation guarantees (not proved here from the worklist):
for every `switch_` chunk `s` without default and without return chunk there is a chunk `d` with
a larger id (its first case body) that is nobody's `tailId`.

Idea: `optimizeLoop` appends either the tail of the last chunk or the *smallest* unvisited id
(`scan_spec`: the scan index never skips an unvisited id).  So `d` cannot be visited before `s`:
not as a tail (hypothesis) and not by the scan (`s < d` would be picked first).  Hence when `s` is
appended `d` is still unvisited, and something is appended after `s`.
(`switchNotLast_sorted` in `RenderSim.lean` is the analogue for the unoptimised order.)
-/
namespace Pory.RenderSim
open Pory Pory.Emit

theorem scan_spec (u : List Nat) (total : Nat) : ∀ (n i j i' : Nat),
    scanUnvisited u total n i = (some j, i') →
    j ∈ u ∧ i' = j ∧ ∀ y, i ≤ y → y < j → y ∉ u := by
  intro n
  induction n with
  | zero => intro i j i' h; simp [scanUnvisited] at h
  | succ n ih =>
    intro i j i' h
    rw [scanUnvisited] at h
    split at h
    · split at h
      · rename_i hc
        simp only [Prod.mk.injEq, Option.some.injEq] at h
        obtain ⟨rfl, rfl⟩ := h
        exact ⟨by simpa using hc, rfl, fun y h1 h2 => by omega⟩
      · rename_i hc
        obtain ⟨h1, h2, h3⟩ := ih _ _ _ h
        refine ⟨h1, h2, ?_⟩
        intro y hy1 hy2
        by_cases hyi : y = i
        · subst hyi; simpa using hc
        · exact h3 y (by omega) hy2
    · simp at h

/-- Loop invariant of `optimizeLoop` for a fixed pair `s < d`. -/
structure Inv2 (ids : List Nat) (s d : Nat) (order unv : List Nat) (i : Nat) : Prop where
  perm : (order ++ unv).Perm ids
  low : ∀ x < i, x ∉ unv
  key : d ∈ unv ∨ (s ∈ order ∧ order.getLast? ≠ some s)

theorem Inv2.step {ids : List Nat} {s d : Nat} {order unv : List Nat} {i i' x : Nat}
    (hnd : ids.Nodup) (hsd : s < d) (h : Inv2 ids s d order unv i) (hx : x ∈ unv)
    (hi' : ∀ y < i', y ∉ unv.erase x) (hxd : x = d → s ∈ order) :
    Inv2 ids s d (order ++ [x]) (unv.erase x) i' := by
  have hnd' : (order ++ unv).Nodup := h.perm.nodup_iff.2 hnd
  have hdisj : ∀ a ∈ order, ∀ b ∈ unv, a ≠ b := (List.nodup_append.1 hnd').2.2
  refine ⟨?_, hi', ?_⟩
  · rw [List.append_assoc]
    refine List.Perm.trans ?_ h.perm
    exact List.Perm.append_left order (List.perm_cons_erase hx).symm
  · by_cases hxd' : x = d
    · right
      have hs := hxd hxd'
      refine ⟨by simp [hs], ?_⟩
      simp only [List.getLast?_append, List.getLast?_singleton, Option.some_or]
      intro e
      injection e with e
      omega
    · rcases h.key with hk | ⟨hk1, hk2⟩
      · left
        exact (List.mem_erase_of_ne (fun e => hxd' e.symm)).2 hk
      · right
        refine ⟨by simp [hk1], ?_⟩
        simp only [List.getLast?_append, List.getLast?_singleton, Option.some_or]
        intro e
        injection e with e
        exact hdisj s hk1 x hx e.symm

theorem optimizeLoop_inv2 (chunks : List Chunk) (ids : List Nat) (hnd : ids.Nodup) (s d : Nat)
    (hsd : s < d) (hs : s ∈ ids) (htail : ∀ c ∈ chunks, tailId c ≠ some d) :
    ∀ (n : Nat) (order unv : List Nat) (i : Nat) (res : List Nat), Inv2 ids s d order unv i →
      optimizeLoop chunks ids.length n order unv i = .ok res → res.getLast? ≠ some s := by
  intro n
  induction n with
  | zero => intro order unv i res _ h; rw [optimizeLoop] at h; cases h
  | succ n ih =>
    intro order unv i res hinv h
    have hpick : optimizeLoop.pick chunks ids.length n order unv i = .ok res →
        res.getLast? ≠ some s := by
      intro h
      rw [optimizeLoop.pick] at h
      split at h
      · rename_i j i' hsc
        obtain ⟨hj, rfl, hlow⟩ := scan_spec _ _ _ _ _ _ hsc
        refine ih _ _ _ _ (hinv.step hnd hsd hj ?_ ?_) h
        · intro y hy hmem
          have hmem' := List.mem_of_mem_erase hmem
          by_cases hyi : y < i
          · exact hinv.low y hyi hmem'
          · exact hlow y (by omega) hy hmem'
        · intro e
          subst e
          have hsu : s ∉ unv := by
            by_cases hsi : s < i
            · exact hinv.low s hsi
            · exact hlow s (by omega) hsd
          have := hinv.perm.mem_iff.2 hs
          rcases List.mem_append.1 this with h1 | h1
          · exact h1
          · exact absurd h1 hsu
      · cases h
    rw [optimizeLoop] at h
    split at h
    · split at h
      · cases h
      · split at h
        · cases h
        · rename_i last _ cur hcur
          simp only at h
          split at h
          · rename_i nx hnx
            split at h
            · rename_i hc
              have hcur' : cur ∈ chunks := List.mem_of_find?_eq_some hcur
              refine ih _ _ _ _ (hinv.step hnd hsd (by simpa using hc) ?_ ?_) h
              · intro y hy hmem
                exact hinv.low y hy (List.mem_of_mem_erase hmem)
              · intro e
                subst e
                exact absurd hnx (htail cur hcur')
            · exact hpick h
          · exact hpick h
    · rename_i hlen
      injection h with h
      subst h
      have hl := hinv.perm.length_eq
      rw [List.length_append] at hl
      have : unv = [] := List.eq_nil_of_length_eq_zero (by omega)
      subst this
      rcases hinv.key with hk | hk
      · cases hk
      · exact hk.2

/-- In the optimised order a `switch` chunk without default and return chunk is not last, if
some chunk with a larger id is nobody's tail (for emitter-built tables: its first case body). -/
theorem switchNotLast_optimized (G : List Chunk) (order : List Nat)
    (hnd : (G.map (·.id)).Nodup) (h0 : 0 ∈ G.map (·.id)) (ho : optimizeChunkOrder G = .ok order)
    (h : ∀ c ∈ G, ∀ op cases, c.branch = .switch_ op cases none none →
      ∃ d ∈ G.map (·.id), c.id < d ∧ ∀ c' ∈ G, tailId c' ≠ some d) :
    SwitchNotLast G order := by
  intro c hc op cases hb
  obtain ⟨d, hd, hlt, htail⟩ := h c hc op cases hb
  unfold optimizeChunkOrder at ho
  split at ho
  · rename_i he
    cases G with
    | nil => cases hc
    | cons _ _ => simp at he
  · simp only at ho
    have hl : G.length = (G.map (·.id)).length := by simp
    rw [hl] at ho
    have hcid : c.id ∈ G.map (·.id) := List.mem_map.2 ⟨c, hc, rfl⟩
    refine optimizeLoop_inv2 G (G.map (·.id)) hnd c.id d hlt hcid htail _ _ _ _ _ ⟨?_, ?_, ?_⟩ ho
    · exact (List.perm_cons_erase h0).symm
    · intro x hx
      have : x = 0 := by omega
      subst this
      exact fun hm => (List.Nodup.mem_erase_iff hnd).1 hm |>.1 rfl
    · left
      exact (List.mem_erase_of_ne (by omega)).2 hd

/-- Non-vacuity: `demoSw` (a `switch` without default / return chunk followed by its body). -/
example : SwitchNotLast demoSw [0, 1, 2] :=
  switchNotLast_optimized demoSw [0, 1, 2] (by decide) (by decide)
    (by simp [optimizeChunkOrder, demoSw, optimizeLoop, optimizeLoop.pick, scanUnvisited, findChunk, tailId])
    (by
      intro c hc op cases hb
      simp [demoSw] at hc
      rcases hc with rfl | rfl | rfl <;> simp at hb ⊢
      refine ⟨2, by simp [demoSw], by decide, ?_⟩
      intro c' hc'
      simp [demoSw] at hc'
      rcases hc' with rfl | rfl | rfl <;> simp [tailId])

end Pory.RenderSim
