import PoryProofs.LexMono
import PoryProofs.LexEof
import PoryModel.EmitRender
/-
A `RAWSTRING` token of the lexer output does not have more lines than the source has from its
start line on:  `t.line + (number of newlines in t.lit) ≤ lineOf src`  (`lexAll_raw_lines`), hence
`t.line + (splitLines t.lit.toList).length ≤ lineOf src + 1` (`lexAll_raw_splitLines`) — the fact
about the lexer needed by C16c (`marker_lines_in_input`): the emitter writes the marker
`vtok.line + i` for the `i`-th line of a raw block.

Proof: one `nextToken` call from a truthful state at the split `pre | inp` only produces a
`RAWSTRING` token in the back-quote branch (`tokenAt_class`), where the literal is the trimmed body
between the back-quotes, a piece of `inp`; the lift to `lexAll` is the induction of `lexLoop_sorted`.
-/
namespace Pory.LexRaw
open Pory Pory.Lexer Pory.LexPos Pory.LexMono

/-- The property of one token, relative to the whole source. -/
def RawFit (whole : List Char) (t : Tok) : Prop :=
  t.type = .RAWSTRING → t.line + t.lit.toList.count '\n' ≤ lineOf whole

theorem trimRightSpace_count (cs : List Char) (c : Char) : (trimRightSpace cs).count c ≤ cs.count c := by
  unfold trimRightSpace
  rw [List.count_reverse]
  exact Nat.le_trans (List.Sublist.count_le c (List.dropWhile_sublist _)) (by rw [List.count_reverse]; exact Nat.le_refl _)

theorem raw_fit {pre r : List Char} {p : Pos} (T : Truthful pre ('`' :: r) p) :
    ∀ t ∈ (rawTok ⟨'`' :: r, p⟩).1, RawFit (pre ++ '`' :: r) t := by
  have T1 : Truthful (pre ++ ['`']) r (adv '`' r p) := truthful_adv T
  obtain ⟨e, _, _, _⟩ := rawBody_spec (pre ++ ['`']) r (adv '`' r p) T1
  intro t ht _
  have hshape : t.line = p.line ∧ t.lit = String.ofList (trimRightSpace (rawBody r (adv '`' r p)).1) := by
    simp only [rawTok, readChar, List.mem_singleton] at ht
    subst ht
    exact ⟨rfl, rfl⟩
  rw [hshape.1, hshape.2, T.line, String.toList_ofList]
  have hc := trimRightSpace_count (rawBody r (adv '`' r p)).1 '\n'
  have hw : lineOf (pre ++ '`' :: r) =
      1 + pre.count '\n' + ((rawBody r (adv '`' r p)).1.count '\n' + (rawBody r (adv '`' r p)).2.inp.count '\n') := by
    conv => lhs; rw [e]
    simp [lineOf, List.count_append]
    omega
  rw [hw]
  simp only [lineOf]
  omega

theorem lookup_mem' {l : List (String × TT)} {k : String} {v : TT} (h : l.lookup k = some v) : (k, v) ∈ l := by
  induction l with
  | nil => simp at h
  | cons x r ih =>
    obtain ⟨a, b⟩ := x
    simp only [List.lookup_cons] at h
    by_cases hk : k == a
    · simp only [hk] at h
      have : k = a := by simpa using hk
      simp only [Option.some.injEq] at h
      subst h; subst this; exact List.mem_cons_self
    · simp only [hk] at h
      exact List.mem_cons_of_mem _ (ih h)

theorem getIdentType_ne_raw (l : String) : getIdentType l ≠ .RAWSTRING := by
  unfold getIdentType
  cases h : Facts.keywords.lookup l with
  | none => simp
  | some t =>
    have hall : ∀ e ∈ Facts.keywords, e.2 ≠ TT.RAWSTRING := by decide
    exact hall _ (lookup_mem' h)

theorem readStringToken_type (s : LS) : (readStringToken s).1.type = .STRING := by
  unfold readStringToken
  rfl

theorem fit_of_ne {whole : List Char} {t : Tok} (h : t.type ≠ .RAWSTRING) : RawFit whole t :=
  fun hty => absurd hty h

theorem tokenAt_fit {pre : List Char} {c : Char} {r : List Char} {p : Pos} (T : Truthful pre (c :: r) p) :
    ∀ t ∈ (tokenAt ⟨c :: r, p⟩ c).1, RawFit (pre ++ c :: r) t := by
  rcases tokenAt_class ⟨c :: r, p⟩ c with ⟨t0, ht0, hnm⟩ | ⟨_, h⟩ | ⟨hc, h⟩ | ⟨_, h⟩ | ⟨_, _, h⟩
  · intro t ht
    rw [ht0, List.mem_singleton] at ht
    subst ht
    exact fit_of_ne fun hty => hnm (Or.inr (Or.inl hty))
  · intro t ht
    rw [h] at ht
    simp only [strTok, List.mem_singleton] at ht
    subst ht
    exact fit_of_ne (by rw [readStringToken_type]; decide)
  · subst hc
    rw [h]
    exact raw_fit T
  · intro t ht
    rw [h] at ht
    simp only [nulTok, List.mem_singleton] at ht
    subst ht
    exact fit_of_ne (by simp [eofToken])
  · intro t ht
    rw [h] at ht
    simp only [identTok] at ht
    split at ht
    · simp only [List.mem_cons, List.not_mem_nil, or_false] at ht
      rcases ht with rfl | rfl
      · exact fit_of_ne (by simp)
      · exact fit_of_ne (by rw [readStringToken_type]; decide)
    · simp only [List.mem_singleton] at ht
      subst ht
      exact fit_of_ne (getIdentType_ne_raw _)

/-- One `nextToken` call from a truthful state at the split `pre | s.inp`. -/
theorem nextToken_fit {pre : List Char} {s : LS} (h : Truthful pre s.inp s.p) :
    ∀ t ∈ (nextToken s).1, RawFit (pre ++ s.inp) t := by
  obtain ⟨skipped, e, T⟩ := skipAll_steps h
  rw [nextToken_eq]
  generalize skipAll s = sk at T e
  obtain ⟨inp, p⟩ := sk
  cases inp with
  | nil =>
    intro t ht
    simp only [List.mem_singleton] at ht
    subst ht
    exact fit_of_ne (by simp [eofToken])
  | cons c r =>
    intro t ht
    have := tokenAt_fit T t ht
    rw [e]
    simpa using this

theorem lexLoop_fit (n : Nat) {pre : List Char} {s : LS} (h : Truthful pre s.inp s.p) :
    ∀ t ∈ lexLoop n s, RawFit (pre ++ s.inp) t := by
  induction n generalizing pre s with
  | zero => simp [lexLoop]
  | succ n ih =>
    obtain ⟨consumed, e, T, _, _⟩ := nextToken_call h
    have hhere := nextToken_fit h
    simp only [lexLoop]
    split
    · exact hhere
    · intro t ht
      rcases List.mem_append.1 ht with ht | ht
      · exact hhere t ht
      · have := ih T t ht
        rw [e]
        simpa using this

/-- **Raw string tokens fit into the source.** -/
theorem lexAll_raw_lines (src : List Char) (t : Tok) (ht : t ∈ lexAll src) (hty : t.type = .RAWSTRING) :
    t.line + t.lit.toList.count '\n' ≤ lineOf src := by
  have := lexLoop_fit (src.length + 2) (truthful_init src) t ht hty
  simpa [initLS] using this

theorem splitLines_length (l : List Char) : (Emit.splitLines l).length = 1 + l.count '\n' := by
  induction l with
  | nil => rfl
  | cons c r ih =>
    rw [Emit.splitLines]
    split
    · rename_i h; rw [h] at ih; simp at ih; omega
    · rename_i a b h
      rw [h] at ih
      by_cases hc : c = '\n'
      · subst hc
        simp at ih ⊢
        omega
      · have : (c == '\n') = false := by simpa using hc
        simp [this, hc] at ih ⊢
        omega

/-- The form used by C16c. -/
theorem lexAll_raw_splitLines (src : List Char) (t : Tok) (ht : t ∈ lexAll src) (hty : t.type = .RAWSTRING) :
    t.line + (Emit.splitLines t.lit.toList).length ≤ lineOf src + 1 := by
  have := lexAll_raw_lines src t ht hty
  rw [splitLines_length]
  omega

/-- Non-vacuity: a raw string spanning lines 1–2 of a 3-line source. -/
example : ∃ t ∈ lexAll "`a\nb`\n".toList, t.type = .RAWSTRING ∧ t.line = 1 ∧
    (Emit.splitLines t.lit.toList).length = 2 ∧ lineOf "`a\nb`\n".toList = 3 := by decide +kernel

end Pory.LexRaw
