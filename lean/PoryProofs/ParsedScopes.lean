import PoryProofs.Properties.C04c
/-
Helpers for property C15c, parser side: the scopes stored in the top-level statements of EVERY parsed
program (any token list, any fuel).

* `scope_result` : `parseScopeModifier d` returns `d`, GLOBAL or LOCAL.
* `TopScopes t` : the scope of a script / mapscripts / movement / mart statement is GLOBAL or LOCAL
  (`Binary`), and every inline script of a `mapscripts` statement (directly under a map-script type or in a
  table row) is LOCAL (`C15b.MsLocal`, `C15b.TblLocal`).
* `sc_script`, `sc_mapscripts`, `sc_movement`, `sc_mart`, `sc_topLevel`, `sc_topLoop`, `sc_program` : the
  invariant through the top-level parser (pattern of `ParserBoolOps.bo_program_spec`).
* `program_scopes : parseTokens env toks = .ok p → ∀ t ∈ p.tops, TopScopes t`.
-/
namespace Pory.C15c
open Pory Pory.Parser Pory.C15b

/-- A scope that is one of the two scope keywords. -/
def Binary (sc : TT) : Prop := sc = .GLOBAL ∨ sc = .LOCAL

theorem Binary.flag_false {sc : TT} (h : Binary sc) : (sc == .GLOBAL) = false ↔ sc = .LOCAL := by
  rcases h with rfl | rfl <;> decide

/-- `parseScopeModifier d` returns the default or one of the two keywords. -/
theorem scope_result (d : TT) (s : PState) :
    wp (parseScopeModifier d) s (fun r _ => r = d ∨ r = .GLOBAL ∨ r = .LOCAL) := by
  unfold parseScopeModifier
  wpsimp
  have key : ∀ (l : List Tok) (e : Tok), l.getD 1 e = l.tail.headD e := by
    intro l e
    match l with
    | [] => rfl
    | [_] => rfl
    | _ :: _ :: _ => rfl
  split
  · exact .inl trivial
  · split
    · trivial
    · next h =>
      split
      · trivial
      · right
        rw [key] at h
        generalize (s.toks.tail.tail.headD s.eof).type = t at h ⊢
        cases t <;> simp_all

theorem binary_of_result {d r : TT} (hd : Binary d) (h : r = d ∨ r = .GLOBAL ∨ r = .LOCAL) : Binary r := by
  rcases h with rfl | h | h
  · exact hd
  · exact .inl h
  · exact .inr h

theorem binary_script : Binary (defaultScopeOf "parseScriptStatement") := by unfold Binary; decide
theorem binary_mapscripts : Binary (defaultScopeOf "parseMapscriptsStatement") := by unfold Binary; decide
theorem binary_movement : Binary (defaultScopeOf "parseMovementStatement") := by unfold Binary; decide
theorem binary_mart : Binary (defaultScopeOf "parseMartStatement") := by unfold Binary; decide
theorem binary_text : Binary (defaultScopeOf "parseTextStatement") := by unfold Binary; decide

/-- What the parser guarantees about the scopes of one top-level statement. -/
def TopScopes : Top → Prop
  | .script scr => Binary scr.scope
  | .mapscripts m => Binary m.scope ∧ MsLocal m.mapScripts ∧ TblLocal m.tables
  | .movement m => Binary m.scope
  | .mart _ _ _ _ sc => Binary sc
  | .text _ => True
  | .raw _ _ _ => True

theorem sc_script (env : Env) (fuel : Nat) (s : PState) :
    wp (parseScriptStatement env fuel) s (fun r _ => Binary r.1.scope) := by
  unfold parseScriptStatement
  swp [wp_spec (scope_result _ _), wp_spec (wp_true (parseBlockStatement _ _ _ _ _ _) _)]
  intro a s1 _ h
  have hb := binary_of_result binary_script h
  vc

theorem sc_mapscripts (env : Env) (fuel : Nat) (s : PState) :
    wp (parseMapscriptsStatement env fuel) s
      (fun r _ => Binary r.1.scope ∧ MsLocal r.1.mapScripts ∧ TblLocal r.1.tables) := by
  unfold parseMapscriptsStatement
  swp [wp_spec (scope_result _ _),
    wp_spec (mapscript_inline_scripts_local _ _ _ [] [] _ _ (fun _ h => absurd h List.not_mem_nil)
      (fun _ h => absurd h List.not_mem_nil))]
  intro a s1 _ h
  have hb := binary_of_result binary_mapscripts h
  vc
  all_goals (intros; exact ⟨hb, by assumption⟩)

theorem sc_movement (env : Env) (n : Nat) (s : PState) :
    wp (parseMovementStatement env n) s (fun r _ => TopScopes r) := by
  unfold parseMovementStatement
  swp [wp_spec (scope_result _ _), (frame_parseListValue _ _ _ _ _).wp_iff]
  intro a s1 _ h
  have hb := binary_of_result binary_movement h
  vc
  all_goals (intros; exact hb)

theorem sc_mart (env : Env) (n : Nat) (s : PState) :
    wp (parseMartStatement env n) s (fun r _ => TopScopes r) := by
  unfold parseMartStatement
  swp [wp_spec (scope_result _ _), (frame_parseListValue _ _ _ _ _).wp_iff,
    (frame_mapM_tryReplace _).wp_iff]
  intro a s1 _ h
  have hb := binary_of_result binary_mart h
  vc
  all_goals (intros; exact hb)

theorem sc_raw (s : PState) : wp parseRawStatement s (fun r _ => TopScopes r) := by
  unfold parseRawStatement
  swp
  vc
  all_goals (intros; trivial)

theorem sc_text (env : Env) (n : Nat) (s : PState) :
    wp (parseTextStatement env n) s (fun r _ => TopScopes r) := by
  unfold parseTextStatement
  swp [(frame_parseScopeModifier _).wp_iff, (frame_parsePoryswitchTextStatement _ _).wp_iff,
    (frame_parseTextValue _ _).wp_iff, wp_modify]
  vc
  all_goals (intros; trivial)

theorem sc_topLevel (env : Env) (fuel : Nat) (s : PState) :
    wp (parseTopLevelStatement env fuel) s (fun r _ => ∀ t, r = some t → TopScopes t) := by
  unfold parseTopLevelStatement
  swp
  split
  · swp [wp_spec (sc_script _ _ _)]
    intro a s1 _ h
    refine wp_mono (wp_true _ _) ?_
    intro u s2 _
    try swp
    intro t ht; cases ht
    exact h
  · swp [wp_spec (sc_raw s)]
    intro a s' _ h t ht; cases ht; exact h
  · swp [wp_spec (sc_text env fuel s)]
    intro a s' _ h t ht; cases ht; exact h
  · swp [wp_spec (sc_movement env fuel s)]
    intro a s' _ h t ht; cases ht; exact h
  · swp [wp_spec (sc_mart env fuel s)]
    intro a s' _ h t ht; cases ht; exact h
  · swp [wp_spec (sc_mapscripts _ _ _)]
    intro a s1 _ h
    refine wp_mono (wp_true _ _) ?_
    intro u s2 _
    try swp
    intro t ht; cases ht
    exact h
  · swp
    intro a s1 _ t ht
    cases ht
  · swp

theorem sc_topLoop (env : Env) (fuel : Nat) : ∀ (n : Nat) (acc : List Top) (s : PState),
    (∀ t ∈ acc, TopScopes t) → wp (topLoop env fuel n acc) s (fun r _ => ∀ t ∈ r, TopScopes t) := by
  intro n
  induction n with
  | zero => intro acc s _; rw [topLoop]; swp
  | succ n ih =>
    intro acc s hacc
    rw [topLoop]
    swp [wp_spec (sc_topLevel _ _ _)]
    split
    · exact hacc
    · intro a s' _ h
      apply ih
      intro t ht
      cases a with
      | none => exact hacc t ht
      | some x =>
        rcases List.mem_append.1 ht with ht | ht
        · exact hacc t ht
        · rw [List.mem_singleton] at ht; subst ht
          exact h _ rfl

/-- `ParseProgram`: the result is the parsed statements followed by the hoisted movements; the parsed
statements satisfy `TopScopes`. -/
theorem sc_program (env : Env) (fuel : Nat) (s : PState) :
    wp (parseProgramM env fuel) s (fun r s' =>
      ∃ tops, r.tops = tops ++ s'.inlineMovements.map Top.movement ∧ ∀ t ∈ tops, TopScopes t) := by
  unfold parseProgramM
  swp [wp_spec (sc_topLoop _ _ _ [] _ (fun _ h => absurd h List.not_mem_nil))]
  intro tops s' _ hw
  repeat' (first | trivial | (intros; split))
  all_goals first | swp | skip
  all_goals first | exact ⟨tops, rfl, hw⟩ | skip

/-- **Scopes of a parsed program.**  `p.tops` is the list `tops` of parsed statements followed by the hoisted
movements, `p.texts` the hoisted texts followed by the `text` statements of `tops` (`C06c.parsed_program_shape`),
and every statement of `tops` satisfies `TopScopes`. -/
theorem parsed_shape_scopes (env : Env) (toks : List Tok) (p : Program) (h : parseTokens env toks = .ok p) :
    ∃ tops, p.texts = HoistModel.hoistedTexts (C06c.inlineTextsOf env toks) ++ C06c.textsOf tops ∧
      p.tops = tops ++ (HoistModel.hoistedMoves (C06c.inlineMovesOf env toks)).map Top.movement ∧
      ∀ t ∈ tops, TopScopes t := by
  obtain ⟨s', hr⟩ := C06c.parseTokens_run env toks p h
  obtain ⟨hm, tops, h1, h2, _⟩ :=
    C06c.parseProgram_model env (C06c.fuelOf toks) (C06c.initState toks) (HoistModel.model_init _ _) rfl p s' hr
  obtain ⟨tops', h2', hsc⟩ := sc_program env _ _ p s' hr
  have : tops' = tops := List.append_cancel_right (h2'.symm.trans h2)
  subst this
  refine ⟨tops', ?_, ?_, hsc⟩
  · rw [h1, HoistModel.model_inlineTexts hm]; rfl
  · rw [h2, HoistModel.model_inlineMovements hm]; rfl

/-- Every top-level statement of a parsed program — hoisted movements included — satisfies `TopScopes`. -/
theorem program_scopes (env : Env) (toks : List Tok) (p : Program) (h : parseTokens env toks = .ok p) :
    ∀ t ∈ p.tops, TopScopes t := by
  obtain ⟨tops, _, h2, hsc⟩ := parsed_shape_scopes env toks p h
  intro t ht
  rw [h2] at ht
  rcases List.mem_append.1 ht with ht | ht
  · exact hsc t ht
  · obtain ⟨m, hm, rfl⟩ := List.mem_map.1 ht
    exact .inr (HoistModel.hoistedMoves_local _ m hm)

#print axioms program_scopes

end Pory.C15c
