import PoryProofs.SwitchParse
/-
Helpers for C08b (parser side of C08): the entry loop of a `mapscripts` statement
(`parseMapScriptEntries`) and the row loop of a table entry (`parseTableEntries`, `tableCollect`).
Property theorems: PoryProofs/Properties/C08b.lean.

* run form (`rsimp`, equational, errors included): `tcollect_run` / `tcollect_inv` / `tcollect_eof`
  (the token-collecting loops of a table row);
* reference syntax of a table row `Row` (plain `cond… , value… : Name` / inline `cond… , value… { body }`)
  and of an entry `Entry` (plain `TYPE : Name`, inline `TYPE { body }`, table `TYPE [ rows ]`);
* one iteration of each loop: `trow_plain`, `trow_inline`, `trow_done`, converse `trow_inv`;
  `ment_plain`, `ment_inline`, `ment_table`, `ment_done`, converse `ment_inv`;
* the loops as traces: `RowIter` / `Iter` (exact fuel), `rows_run_of_iter` / `run_of_iter` (loop along a trace
  = loop from the end of the trace, errors included), `rows_iter_of_ok` / `iter_of_ok` (every successful run
  is a trace).
The bodies of inline scripts are abstract: whatever `parseBlockStatement` parses; the only facts used about
it are that it keeps the constants (ParserConsts.lean), the end-of-input token (`sdecAll`, ParserFuel4.lean)
and stops on a `}` (`block_ends_rbrace`).
-/
namespace Pory.MapScriptsParse
open Pory Pory.Parser Pory.C02P Pory.TopParse Pory.SwitchParse

/-! ### `tableCollect` -/

/-- The value a collecting loop accumulates from the tokens `vs`: the constant-substituted literals, joined
by the string builder of the Go code (`sbAdd`: a single space before every part but the first non-empty
prefix).  Equal to `joinSp` of the substituted literals when none of them is empty (`collVal_eq_joinSp`). -/
def collVal (K : List (String × String)) (vs : List Tok) : String := constAcc K vs ""

theorem collVal_eq_joinSp (K : List (String × String)) (vs : List Tok)
    (h : ∀ v ∈ vs, substC K v.lit ≠ "") : collVal K vs = joinSp (vs.map fun v => substC K v.lit) :=
  foldl_sbAdd _ (by simpa using h)

theorem collVal_nil (K : List (String × String)) : collVal K [] = "" := rfl

theorem constAcc_cons (K : List (String × String)) (v : Tok) (vs : List Tok) (acc : String) :
    constAcc K (v :: vs) acc = constAcc K vs (sbAdd acc (substC K v.lit)) := by
  simp [constAcc]

/-- `tableCollect` up to the first token satisfying `stop`, on a known token list. -/
theorem tcollect_run (stop : Tok → Bool) (onEOF : PFail) (s : PState) (d : Tok) (rest : List Tok)
    (hd : stop d = true) (hdE : d.type ≠ .EOF) :
    ∀ (vs : List Tok) (n : Nat) (acc : String),
      (∀ v ∈ vs, stop v = false) → (∀ v ∈ vs.tail, v.type ≠ .EOF) → vs.length < n →
      (tableCollect stop onEOF n acc).run (st s (vs ++ d :: rest)) =
        .ok (constAcc s.constants vs acc, st s (d :: rest)) := by
  intro vs
  induction vs with
  | nil =>
    intro n acc _ _ hn
    obtain ⟨n, rfl⟩ : ∃ k, n = k + 1 := ⟨n - 1, by simp at hn; omega⟩
    rw [tableCollect]
    rsimp [hd]
    rfl
  | cons v vs ih =>
    intro n acc h1 h2 hn
    obtain ⟨n, rfl⟩ : ∃ k, n = k + 1 := ⟨n - 1, by simp at hn; omega⟩
    rw [tableCollect]
    have hv : stop v = false := h1 v (by simp)
    have hnext : (((vs ++ d :: rest).headD s.eof).type == TT.EOF) = false := by
      cases vs with
      | nil => simpa using hdE
      | cons w ws => simpa using h2 w (by simp)
    have := ih n (sbAdd acc (substC s.constants v.lit)) (fun x hx => h1 x (by simp [hx]))
      (fun x hx => h2 x (by simp only [List.tail_cons]; exact List.mem_of_mem_tail hx))
      (by simp at hn; omega)
    rsimp [hv, hnext, this, constAcc_cons]

/-- Converse of `tcollect_run`: a successful `tableCollect` has read exactly the tokens before the first
token satisfying `stop`. -/
theorem tcollect_inv (stop : Tok → Bool) (onEOF : PFail) (hstopE : ∀ t : Tok, t.type = .EOF → stop t = false) :
    ∀ (n : Nat) (acc : String) (s : PState) (r : String) (s' : PState),
      s.eof.type = .EOF →
      (tableCollect stop onEOF n acc).run s = .ok (r, s') →
      ∃ vs d rest, s.toks = vs ++ d :: rest ∧ (∀ v ∈ vs, stop v = false) ∧ stop d = true ∧
        (∀ v ∈ vs.tail, v.type ≠ .EOF) ∧ vs.length < n ∧
        r = constAcc s.constants vs acc ∧ s' = st s (d :: rest) := by
  intro n
  induction n with
  | zero =>
    intro acc s r s' _ h
    rw [tableCollect] at h
    rsimp at h
    cases h
  | succ n ih =>
    intro acc s r s' he h
    rw [tableCollect] at h
    rsimp at h
    by_cases hc : stop (s.toks.headD s.eof) = true
    · rsimp [hc] at h
      have h := ok_inj h
      cases htk : s.toks with
      | nil => rw [htk] at hc; simp [hstopE _ he] at hc
      | cons c tl =>
        rw [htk] at hc
        refine ⟨[], c, tl, rfl, by simp, by simpa using hc, by simp, by simp, ?_, ?_⟩
        · simp [← (Prod.mk.inj h).1, constAcc]
        · rw [← (Prod.mk.inj h).2, ← htk]; rfl
    · have hc' : stop (s.toks.headD s.eof) = false := by simpa using hc
      rsimp [hc'] at h
      by_cases hn : ((s.toks.tail.headD s.eof).type == TT.EOF) = true
      · rsimp [hn] at h
        cases h
      · rsimp [hn] at h
        obtain ⟨vs, d, rest, h1, h2, h3, h4, h5, h6, h7⟩ := ih _ _ _ _ (by exact he) h
        cases htk : s.toks with
        | nil => rw [htk] at h1; simp at h1
        | cons c tl =>
          rw [htk] at hc' h1 hn
          simp only [st_toks, List.tail_cons] at h1
          simp only [List.tail_cons] at hn
          refine ⟨c :: vs, d, rest, by rw [h1]; rfl, ?_, h3, ?_, by simp; omega, ?_, ?_⟩
          · intro v hv
            rcases List.mem_cons.1 hv with rfl | hv
            · simpa using hc'
            · exact h2 v hv
          · intro v hv
            simp only [List.tail_cons] at hv
            cases vs with
            | nil => simp at hv
            | cons w ws =>
              rcases List.mem_cons.1 hv with rfl | hv
              · rw [h1] at hn; simpa using hn
              · exact h4 v (by simpa using hv)
          · rw [h6, constAcc_cons]; simp [htk]
          · rw [h7]; rfl

/-- `tableCollect` running into the end of input: after at least one collected token the next token is the
end of input (an `EOF` token, or the token list is exhausted) — the loop fails with `onEOF`. -/
theorem tcollect_eof (stop : Tok → Bool) (onEOF : PFail) (s : PState) (rest : List Tok)
    (hrest : (rest.headD s.eof).type = .EOF) :
    ∀ (vs : List Tok) (n : Nat) (acc : String), vs ≠ [] →
      (∀ v ∈ vs, stop v = false) → (∀ v ∈ vs.tail, v.type ≠ .EOF) → vs.length ≤ n →
      (tableCollect stop onEOF n acc).run (st s (vs ++ rest)) = .error onEOF := by
  intro vs
  induction vs with
  | nil => intro n acc h; exact absurd rfl h
  | cons v vs ih =>
    intro n acc _ h1 h2 hn
    obtain ⟨n, rfl⟩ : ∃ k, n = k + 1 := ⟨n - 1, by simp at hn; omega⟩
    rw [tableCollect]
    have hv : stop v = false := h1 v (by simp)
    cases vs with
    | nil =>
      rsimp [hv, beq_true_of_eq hrest]
    | cons w ws =>
      have hnext : (w.type == TT.EOF) = false := by
        simpa using h2 w (by simp)
      have := ih n (sbAdd acc (substC s.constants v.lit)) (by simp) (fun x hx => h1 x (by simp [hx]))
        (fun x hx => h2 x (by simp only [List.tail_cons]; exact List.mem_of_mem_tail hx))
        (by simp at hn ⊢; omega)
      simp only [List.cons_append] at this
      rsimp [hv, hnext, this]

/-! ### the inline bodies -/

/-- A block that parses stops on its closing `}`. -/
theorem block_ends_rbrace (env : Env) (sn : String) (tok : Tok) :
    ∀ (n : Nat) (acc : List Stmt) (imp : ImpData) (s : PState) (r : List Stmt × ImpData) (s' : PState),
      (parseBlockStatement env sn tok n acc imp).run s = .ok (r, s') →
      (s'.toks.headD s'.eof).type = .RBRACE := by
  intro n
  induction n with
  | zero =>
    intro acc imp s r s' h
    rw [parseBlockStatement] at h
    cases h
  | succ n ih =>
    intro acc imp s r s' h
    rw [parseBlockStatement] at h
    rsimp at h
    by_cases hc : ((s.toks.headD s.eof).type == TT.RBRACE) = true
    · rsimp [hc] at h
      have h := ok_inj h
      rw [← (Prod.mk.inj h).2]
      exact beq_iff_eq.mp hc
    · rsimp [hc] at h
      by_cases hE : ((s.toks.headD s.eof).type == TT.EOF) = true
      · rsimp [hE] at h
        cases h
      · rsimp [hE] at h
        cases hs : (parseStatement env sn n).run s with
        | error e => rw [hs] at h; rsimp at h; cases h
        | ok x =>
          obtain ⟨⟨stmts, simp'⟩, s1⟩ := x
          rw [hs] at h
          rsimp at h
          exact ih _ _ _ _ _ h

theorem block_keeps {env : Env} {sn : String} {tok : Tok} {n : Nat} {s s1 : PState}
    {r : List Stmt × ImpData}
    (h : (parseBlockStatement env sn tok n [] {}).run s = .ok (r, s1)) :
    s1.constants = s.constants ∧ s1.eof = s.eof ∧ (s1.toks.headD s1.eof).type = .RBRACE :=
  ⟨kc_parseBlockStatement env sn tok n [] {} s r s1 h,
   ((sdecAll n).block env sn tok [] {} s r s1 h).1,
   block_ends_rbrace env sn tok n [] {} s r s1 h⟩

/-! ### reference syntax of a table row -/

/-- Name of the inline script of row `i` of the table for map-script type `ty` in `mapscripts ms`. -/
def rowName (ms ty : String) (i : Nat) : String := s!"{ms}_{ty}_{i}"
/-- Name of the inline script / of the table for map-script type `ty` in `mapscripts ms`. -/
def entryName (ms ty : String) : String := s!"{ms}_{ty}"

/-- A row of a map-script table as the loop meets it:
`plain`: `c₁ … cₖ , v₁ … vₗ : Name`;  `inline`: `c₁ … cₖ , v₁ … vₗ { body }` together with what
`parseBlockStatement` returned for the body (statements, implicit data) — the body is abstract. -/
inductive Row
  | plain (cs : List Tok) (comma : Tok) (vs : List Tok) (colon name : Tok)
  | inline (cs : List Tok) (comma : Tok) (vs : List Tok) (lb : Tok) (body : List Stmt) (imp : ImpData)

/-- Token types of `c₁ … cₖ , v₁ … vₗ`: the condition tokens are exactly the tokens before the first `,`,
the value tokens those after it before the first `:` / `{`; the first token is not `]`; no end of input
inside; neither collected string is empty (`K` is the table of constants). -/
def HdWF (K : List (String × String)) (cs : List Tok) (comma : Tok) (vs : List Tok) : Prop :=
  (cs.headD comma).type ≠ .RBRACKET ∧ (∀ v ∈ cs, v.type ≠ .COMMA) ∧ (∀ v ∈ cs.tail, v.type ≠ .EOF) ∧
  comma.type = .COMMA ∧ (∀ v ∈ vs, v.type ≠ .COLON ∧ v.type ≠ .LBRACE) ∧ (∀ v ∈ vs.tail, v.type ≠ .EOF) ∧
  collVal K cs ≠ "" ∧ collVal K vs ≠ ""

namespace Row

/-- The tokens of the row up to and including the label name / the `{`. -/
def toks : Row → List Tok
  | .plain cs comma vs colon name => cs ++ comma :: (vs ++ [colon, name])
  | .inline cs comma vs lb _ _ => cs ++ comma :: (vs ++ [lb])

def WF (K : List (String × String)) : Row → Prop
  | .plain cs comma vs colon name => HdWF K cs comma vs ∧ colon.type = .COLON ∧ name.type = .IDENT
  | .inline cs comma vs lb _ _ => HdWF K cs comma vs ∧ lb.type = .LBRACE

/-- Fuel the two token-collecting loops of the row need. -/
def need : Row → Nat
  | .plain cs _ vs _ _ => max cs.length vs.length + 1
  | .inline cs _ vs _ _ _ => max cs.length vs.length + 1

def isInline : Row → Bool
  | .plain .. => false
  | .inline .. => true

/-- The condition token stored in the table entry: the first token of the row carrying the collected
condition string. -/
def condTok (K : List (String × String)) : Row → Tok
  | .plain cs comma _ _ _ => { cs.headD comma with lit := collVal K cs }
  | .inline cs comma _ _ _ _ => { cs.headD comma with lit := collVal K cs }

/-- The comparison value stored in the table entry. -/
def cmpVal (K : List (String × String)) : Row → String
  | .plain _ _ vs _ _ => collVal K vs
  | .inline _ _ vs _ _ _ => collVal K vs

/-- The label of the row: the written name, or `<ms>_<TYPE>_<i>` for an inline row in position `i`. -/
def label (ms ty : String) (i : Nat) : Row → String
  | .plain _ _ _ _ name => name.lit
  | .inline .. => rowName ms ty i

/-- The inline script of the row, if any. -/
def script (ms ty : String) (i : Nat) : Row → Option Script
  | .plain .. => none
  | .inline _ _ _ _ body _ => some { tok := {}, name := rowName ms ty i, body := body, scope := .LOCAL }

/-- The table entry built from the row met in position `i` (counting all rows, from 0). -/
def entry (K : List (String × String)) (ms ty : String) (i : Nat) (r : Row) : TableEntry :=
  { condition := r.condTok K, comparison := r.cmpVal K, name := r.label ms ty i, script := r.script ms ty i }

/-- Implicit data contributed by the row. -/
def impOf : Row → ImpData
  | .plain .. => {}
  | .inline _ _ _ _ _ imp => imp

end Row

/-- The table entries of consecutive rows, the first one in position `i`. -/
def rowEntries (K : List (String × String)) (ms ty : String) : Nat → List Row → List TableEntry
  | _, [] => []
  | i, r :: rs => r.entry K ms ty i :: rowEntries K ms ty (i + 1) rs

/-- The implicit data collected, after the rows. -/
def rowsImp : ImpData → List Row → ImpData
  | imp, [] => imp
  | imp, .plain .. :: rs => rowsImp imp rs
  | imp, .inline _ _ _ _ _ bimp :: rs => rowsImp (imp.add bimp) rs

theorem isEmpty_false_of_ne {a : String} (h : a ≠ "") : a.isEmpty = false := by
  cases h' : a.isEmpty with
  | false => rfl
  | true => exact absurd (String.isEmpty_iff.mp h') h

/-- What the row loop does once the two strings of a row have been collected and the current token is the
`:` / `{` that ended the second one. -/
def rowTail (env : Env) (ms ty : String) (n i : Nat) (acc : List TableEntry) (imp : ImpData)
    (startToken : Tok) (cv cmp : String) (c : Tok) : PM (List TableEntry × ImpData) := do
  let conditionToken := { startToken with lit := cv }
  if c.type == .COLON then
    if !(← expectPeek .IDENT) then
      let pk ← peek
      fail (newParseError pk s!"expected map script label after ':', but got '{pk.lit}' instead")
    let e : TableEntry := { condition := conditionToken, comparison := cmp,
                            name := (← cur).lit, script := none }
    nextToken
    parseTableEntries env ms ty n (i + 1) (acc ++ [e]) imp
  else
    let braceToken := c
    nextToken
    let scriptName := s!"{ms}_{ty}_{i}"
    let (body, bimp) ← parseBlockStatement env scriptName braceToken n [] {}
    let e : TableEntry := { condition := conditionToken, comparison := cmp,
                            name := scriptName,
                            script := some { tok := {}, name := scriptName, body := body, scope := .LOCAL } }
    nextToken
    parseTableEntries env ms ty n (i + 1) (acc ++ [e]) (imp.add bimp)

section
variable (env : Env) (ms ty : String)

/-- The row loop on `c₁ … cₖ , v₁ … vₗ d` (`d` a `:` or `{`): both strings are collected. -/
theorem trow_head (n i : Nat) (acc : List TableEntry) (imp : ImpData) (s : PState)
    (cs : List Tok) (comma : Tok) (vs : List Tok) (d : Tok) (rest : List Tok)
    (hwf : HdWF s.constants cs comma vs) (hd : d.type = .COLON ∨ d.type = .LBRACE)
    (hn1 : cs.length < n) (hn2 : vs.length < n) :
    (parseTableEntries env ms ty (n + 1) i acc imp).run (st s (cs ++ comma :: (vs ++ d :: rest))) =
      (rowTail env ms ty n i acc imp (cs.headD comma) (collVal s.constants cs) (collVal s.constants vs) d).run
        (st s (d :: rest)) := by
  obtain ⟨h0, h1, h2, h3, h4, h5, h6, h7⟩ := hwf
  rw [parseTableEntries]
  have hstop2 : (d.type == TT.COLON || d.type == TT.LBRACE) = true := by
    rcases hd with hd | hd <;> simp [hd]
  have hdE : d.type ≠ .EOF := by rcases hd with hd | hd <;> rw [hd] <;> decide
  have c1 := tcollect_run (fun t => t.type == .COMMA)
    (newParseError (cs.headD comma) "missing ',' to specify map script table entry comparison value")
    s comma (vs ++ d :: rest) (beq_true_of_eq h3) (by rw [h3]; decide) cs n ""
    (fun v hv => SwitchParse.beq_false_of_ne (h1 v hv)) h2 hn1
  have c2 : ∀ onEOF, (tableCollect (fun t => t.type == .COLON || t.type == .LBRACE) onEOF n "").run
      (st s (vs ++ d :: rest)) = .ok (constAcc s.constants vs "", st s (d :: rest)) :=
    fun onEOF => tcollect_run (fun t => t.type == .COLON || t.type == .LBRACE) onEOF
      s d rest hstop2 hdE vs n ""
      (fun v hv => by simp [SwitchParse.beq_false_of_ne (h4 v hv).1, SwitchParse.beq_false_of_ne (h4 v hv).2]) h5 hn2
  simp only [collVal] at h6 h7 ⊢
  rsimp [headD_append_cons, SwitchParse.beq_false_of_ne h0, c1, c2, isEmpty_false_of_ne h6,
    isEmpty_false_of_ne h7]
  rfl

/-- What the row loop does once the body of an inline row has been parsed. -/
def afterRowBody (n i : Nat) (acc : List TableEntry) (imp : ImpData) (condTok : Tok) (cmp : String)
    (r : Except PFail ((List Stmt × ImpData) × PState)) :
    Except PFail ((List TableEntry × ImpData) × PState) :=
  match r with
  | .ok ((body, bimp), s1) =>
    (parseTableEntries env ms ty n (i + 1)
      (acc ++ [{ condition := condTok, comparison := cmp, name := rowName ms ty i,
                 script := some { tok := {}, name := rowName ms ty i, body := body, scope := .LOCAL } }])
      (imp.add bimp)).run (st s1 s1.toks.tail)
  | .error e => .error e

/-- One iteration of the row loop on a plain row. -/
theorem trow_plain (n i : Nat) (acc : List TableEntry) (imp : ImpData) (s : PState)
    (cs : List Tok) (comma : Tok) (vs : List Tok) (colon name : Tok) (rest : List Tok)
    (hwf : (Row.plain cs comma vs colon name).WF s.constants) (hn1 : cs.length < n) (hn2 : vs.length < n) :
    (parseTableEntries env ms ty (n + 1) i acc imp).run (st s (cs ++ comma :: (vs ++ colon :: name :: rest))) =
      (parseTableEntries env ms ty n (i + 1)
        (acc ++ [(Row.plain cs comma vs colon name).entry s.constants ms ty i]) imp).run (st s rest) := by
  obtain ⟨hwf, hc, hname⟩ := hwf
  rw [trow_head env ms ty n i acc imp s cs comma vs colon (name :: rest) hwf (Or.inl hc) hn1 hn2, rowTail]
  rsimp [beq_true_of_eq hc, beq_true_of_eq hname]
  rfl

/-- One iteration of the row loop on an inline row: the body is handed to `parseBlockStatement` under the
name `<ms>_<TYPE>_<i>`. -/
theorem trow_inline (n i : Nat) (acc : List TableEntry) (imp : ImpData) (s : PState)
    (cs : List Tok) (comma : Tok) (vs : List Tok) (lb : Tok) (rest : List Tok)
    (hwf : HdWF s.constants cs comma vs) (hlb : lb.type = .LBRACE) (hn1 : cs.length < n) (hn2 : vs.length < n) :
    (parseTableEntries env ms ty (n + 1) i acc imp).run (st s (cs ++ comma :: (vs ++ lb :: rest))) =
      afterRowBody env ms ty n i acc imp { cs.headD comma with lit := collVal s.constants cs }
        (collVal s.constants vs)
        ((parseBlockStatement env (rowName ms ty i) lb n [] {}).run (st s rest)) := by
  rw [trow_head env ms ty n i acc imp s cs comma vs lb rest hwf (Or.inr hlb) hn1 hn2, rowTail]
  have : (lb.type == TT.COLON) = false := by rw [hlb]; decide
  rsimp [this]
  cases hb : (parseBlockStatement env (rowName ms ty i) lb n [] {}).run (st s rest) with
  | error e =>
    simp only [rowName] at hb
    simp only [afterRowBody, hb]
    rfl
  | ok r =>
    obtain ⟨⟨body, bimp⟩, s1⟩ := r
    simp only [rowName] at hb
    simp only [afterRowBody, hb]
    rsimp
    rfl

/-- The row loop ends at `]`. -/
theorem trow_done (n i : Nat) (acc : List TableEntry) (imp : ImpData) (s : PState)
    (h : (s.toks.headD s.eof).type = .RBRACKET) :
    (parseTableEntries env ms ty (n + 1) i acc imp).run s = .ok ((acc, imp), s) := by
  rw [parseTableEntries]
  rsimp [beq_true_of_eq h]

end

section
variable (env : Env) (ms ty : String)

theorem eof_not_comma (t : Tok) (h : t.type = .EOF) : (fun t : Tok => t.type == TT.COMMA) t = false := by
  simp [h]
theorem eof_not_delim (t : Tok) (h : t.type = .EOF) :
    (fun t : Tok => t.type == TT.COLON || t.type == TT.LBRACE) t = false := by
  simp [h]

/-- Converse of `trow_plain` / `trow_inline` / `trow_done`: every successful iteration of the row loop is one
of them. -/
theorem trow_inv (n i : Nat) (acc : List TableEntry) (imp : ImpData) (s : PState) (he : s.eof.type = .EOF)
    (res : List TableEntry × ImpData) (s' : PState)
    (hr : (parseTableEntries env ms ty (n + 1) i acc imp).run s = .ok (res, s')) :
    ((s.toks.headD s.eof).type = .RBRACKET ∧ res = (acc, imp) ∧ s' = s) ∨
    (∃ cs comma vs colon name rest, s.toks = cs ++ comma :: (vs ++ colon :: name :: rest) ∧
      (Row.plain cs comma vs colon name).WF s.constants ∧ cs.length < n ∧ vs.length < n ∧
      (parseTableEntries env ms ty n (i + 1)
        (acc ++ [(Row.plain cs comma vs colon name).entry s.constants ms ty i]) imp).run (st s rest) =
          .ok (res, s')) ∨
    (∃ cs comma vs lb rest, s.toks = cs ++ comma :: (vs ++ lb :: rest) ∧
      HdWF s.constants cs comma vs ∧ lb.type = .LBRACE ∧ cs.length < n ∧ vs.length < n ∧
      afterRowBody env ms ty n i acc imp { cs.headD comma with lit := collVal s.constants cs }
        (collVal s.constants vs)
        ((parseBlockStatement env (rowName ms ty i) lb n [] {}).run (st s rest)) = .ok (res, s')) := by
  by_cases h1 : (s.toks.headD s.eof).type = .RBRACKET
  · left
    rw [trow_done _ _ _ _ _ _ _ _ h1] at hr
    have := ok_inj hr
    exact ⟨h1, (Prod.mk.inj this).1.symm, (Prod.mk.inj this).2.symm⟩
  right
  have hr0 := hr
  rw [parseTableEntries] at hr
  rsimp [SwitchParse.beq_false_of_ne h1] at hr
  cases hcol1 : (tableCollect (fun t => t.type == TT.COMMA)
      (newParseError (s.toks.headD s.eof) "missing ',' to specify map script table entry comparison value")
      n "").run s with
  | error e => rw [hcol1] at hr; rsimp at hr; cases hr
  | ok r1 =>
    obtain ⟨cv, s1⟩ := r1
    obtain ⟨cs, comma, X, e1, a1, a2, a3, a4, rfl, rfl⟩ :=
      tcollect_inv _ _ eof_not_comma _ _ _ _ _ he hcol1
    rw [hcol1] at hr
    rsimp at hr
    by_cases hemp : (constAcc s.constants cs "").isEmpty = true
    · rsimp [hemp] at hr; cases hr
    have hemp' : (constAcc s.constants cs "").isEmpty = false := by simpa using hemp
    rsimp [hemp'] at hr
    cases hcol2 : (tableCollect (fun t => t.type == TT.COLON || t.type == TT.LBRACE)
        (newRangeParseError (s.toks.headD s.eof) (X.headD s.eof)
          "missing ':' or '{' to specify map script table entry") n "").run (st s X) with
    | error e => rw [hcol2] at hr; rsimp at hr; cases hr
    | ok r2 =>
      obtain ⟨cmp, s2⟩ := r2
      obtain ⟨vs, d, rest, e2, b1, b2, b3, b4, rfl, rfl⟩ :=
        tcollect_inv _ _ eof_not_delim _ _ _ _ _ (by exact he) hcol2
      simp only [st_toks] at e2
      subst e2
      rw [hcol2] at hr
      rsimp at hr
      by_cases hemp2 : (constAcc s.constants vs "").isEmpty = true
      · rsimp [hemp2] at hr; cases hr
      clear hr hcol1 hcol2
      have hwf : HdWF s.constants cs comma vs := by
        refine ⟨?_, fun v hv => by simpa using a1 v hv, a3, by simpa using a2, ?_, b3, ?_, ?_⟩
        · rw [e1, headD_append_cons] at h1; exact h1
        · intro v hv; simpa using b1 v hv
        · intro h; rw [collVal] at h; rw [h] at hemp; exact hemp rfl
        · intro h; rw [collVal] at h; rw [h] at hemp2; exact hemp2 rfl
      have hd : d.type = .COLON ∨ d.type = .LBRACE := by simpa using b2
      have hs := st_eq_of_toks e1
      by_cases hdc : d.type = .COLON
      · left
        have key : ∃ name rest', rest = name :: rest' ∧ name.type = .IDENT := by
          rw [hs, trow_head env ms ty n i acc imp s cs comma vs d rest hwf hd a4 b4, rowTail] at hr0
          cases rest with
          | nil =>
            rsimp [beq_true_of_eq hdc, List.getD_cons_succ, List.getD_nil,
              show (s.eof.type == TT.IDENT) = false by rw [he]; decide] at hr0
            cases hr0
          | cons name rest' =>
            by_cases hname : name.type = .IDENT
            · exact ⟨name, rest', rfl, hname⟩
            · rsimp [beq_true_of_eq hdc, SwitchParse.beq_false_of_ne hname] at hr0
              cases hr0
        obtain ⟨name, rest', rfl, hname⟩ := key
        have hwf' : (Row.plain cs comma vs d name).WF s.constants := ⟨hwf, hdc, hname⟩
        rw [hs, trow_plain env ms ty n i acc imp s cs comma vs d name rest' hwf' a4 b4] at hr0
        exact ⟨cs, comma, vs, d, name, rest', e1, hwf', a4, b4, hr0⟩
      · right
        have hlb : d.type = .LBRACE := by rcases hd with h | h; exact absurd h hdc; exact h
        rw [hs, trow_inline env ms ty n i acc imp s cs comma vs d rest hwf hlb a4 b4] at hr0
        exact ⟨cs, comma, vs, d, rest, e1, hwf, hlb, a4, b4, hr0⟩

end

/-! ### the row loop as a trace -/

/-- The part of an iteration that follows the tokens of the row: nothing for a plain row; for an inline row
the body is parsed by `parseBlockStatement` under the name `<ms>_<TYPE>_<i>` (with the fuel the loop gives
it) and the `}` it stops on is skipped. -/
def Row.After (env : Env) (ms ty : String) (n i : Nat) : Row → PState → PState → Prop
  | .plain .., s0, s1 => s1 = s0
  | .inline _ _ _ lb body imp, s0, s1 => ∃ sb,
      (parseBlockStatement env (rowName ms ty i) lb n [] {}).run s0 = .ok ((body, imp), sb) ∧
      s1 = st sb sb.toks.tail

/-- `RowIter K n i s rows m s'`: started with fuel `n` in state `s` with `i` rows already read, the row loop
meets the rows `rows` one after the other and is then in state `s'` with fuel `m`.  `K` is the table of
constants (unchanged by the loop). -/
inductive RowIter (env : Env) (ms ty : String) (K : List (String × String)) :
    Nat → Nat → PState → List Row → Nat → PState → Prop
  | nil (n i : Nat) (s : PState) : RowIter env ms ty K n i s [] n s
  | cons {n i : Nat} {s : PState} {r : Row} {rest : List Tok} {s1 : PState} {rows : List Row} {m : Nat}
      {s2 : PState} :
      s.constants = K → s.toks = r.toks ++ rest → r.WF K → r.need ≤ n →
      r.After env ms ty n i (st s rest) s1 →
      RowIter env ms ty K n (i + 1) s1 rows m s2 → RowIter env ms ty K (n + 1) i s (r :: rows) m s2

theorem Row.After.keeps {env : Env} {ms ty : String} {n i : Nat} {r : Row} {s0 s1 : PState}
    (h : r.After env ms ty n i s0 s1) : s1.constants = s0.constants ∧ s1.eof = s0.eof := by
  cases r with
  | plain => cases h; exact ⟨rfl, rfl⟩
  | inline cs comma vs lb body imp =>
    obtain ⟨sb, hb, rfl⟩ := h
    have := block_keeps hb
    exact ⟨this.1, this.2.1⟩

theorem RowIter.keeps {env : Env} {ms ty : String} {K : List (String × String)} {n i m : Nat}
    {s s' : PState} {rows : List Row} (h : RowIter env ms ty K n i s rows m s') :
    s'.constants = s.constants ∧ s'.eof = s.eof := by
  induction h with
  | nil => exact ⟨rfl, rfl⟩
  | cons _ _ _ _ ha _ ih =>
    have := ha.keeps
    simp only [st_constants, st_eof] at this
    exact ⟨ih.1.trans this.1, ih.2.trans this.2⟩

theorem RowIter.fuel {env : Env} {ms ty : String} {K : List (String × String)} {n i m : Nat}
    {s s' : PState} {rows : List Row} (h : RowIter env ms ty K n i s rows m s') : n = m + rows.length := by
  induction h with
  | nil => simp
  | cons _ _ _ _ _ _ ih => simp [ih]; omega

theorem rowEntries_length (K : List (String × String)) (ms ty : String) (rows : List Row) :
    ∀ i, (rowEntries K ms ty i rows).length = rows.length := by
  induction rows with
  | nil => intro i; rfl
  | cons r rs ih => intro i; simp [rowEntries, ih]

/-- The `k`-th entry is built from the `k`-th row, numbered `i + k`. -/
theorem rowEntries_getElem? (K : List (String × String)) (ms ty : String) (rows : List Row) :
    ∀ (i k : Nat), (rowEntries K ms ty i rows)[k]? = rows[k]?.map (Row.entry K ms ty (i + k)) := by
  induction rows with
  | nil => intro i k; simp [rowEntries]
  | cons r rs ih =>
    intro i k
    cases k with
    | zero => simp [rowEntries]
    | succ k =>
      simp only [rowEntries, List.getElem?_cons_succ, ih]
      rw [show i + 1 + k = i + (k + 1) by omega]

theorem rowEntries_append (K : List (String × String)) (ms ty : String) (a b : List Row) :
    ∀ i, rowEntries K ms ty i (a ++ b) = rowEntries K ms ty i a ++ rowEntries K ms ty (i + a.length) b := by
  induction a with
  | nil => intro i; simp [rowEntries]
  | cons r rs ih =>
    intro i
    simp only [List.cons_append, rowEntries, ih, List.length_cons, List.cons.injEq, true_and]
    rw [show i + 1 + rs.length = i + (rs.length + 1) by omega]

theorem need_lt {cs vs : List Tok} {n : Nat} (h : max cs.length vs.length + 1 ≤ n) :
    cs.length < n ∧ vs.length < n := by
  constructor <;> omega

/-- **The row loop along a trace.**  Running the loop from the start of the trace equals running it from the
end of the trace with the accumulators the rows produce: no fuel slack, errors included. -/
theorem rows_run_of_iter {env : Env} {ms ty : String} {K : List (String × String)} {n i m : Nat}
    {s s' : PState} {rows : List Row} (h : RowIter env ms ty K n i s rows m s') :
    ∀ (acc : List TableEntry) (imp : ImpData),
      (parseTableEntries env ms ty n i acc imp).run s =
        (parseTableEntries env ms ty m (i + rows.length) (acc ++ rowEntries K ms ty i rows)
          (rowsImp imp rows)).run s' := by
  induction h with
  | nil => intro acc imp; simp [rowEntries, rowsImp]
  | @cons n i s r rest s1 rows m s2 hK htk hwf hn ha _ ih =>
    intro acc imp
    subst hK
    have hlen : i + (r :: rows).length = i + 1 + rows.length := by simp; omega
    rw [hlen]
    cases r with
    | plain cs comma vs colon name =>
      have htk' : s.toks = cs ++ comma :: (vs ++ colon :: name :: rest) := by
        simpa [Row.toks] using htk
      obtain ⟨hn1, hn2⟩ := need_lt hn
      cases ha
      rw [st_eq_of_toks htk', trow_plain env ms ty n i acc imp s cs comma vs colon name rest hwf hn1 hn2, ih]
      simp [rowEntries, rowsImp]
    | inline cs comma vs lb body bimp =>
      have htk' : s.toks = cs ++ comma :: (vs ++ lb :: rest) := by
        simpa [Row.toks] using htk
      obtain ⟨hn1, hn2⟩ := need_lt hn
      obtain ⟨sb, hb, rfl⟩ := ha
      rw [st_eq_of_toks htk', trow_inline env ms ty n i acc imp s cs comma vs lb rest hwf.1 hwf.2 hn1 hn2]
      simp only [hb, afterRowBody]
      rw [ih]
      simp [rowEntries, rowsImp, Row.entry, Row.condTok, Row.cmpVal, Row.label, Row.script]

/-- **Every successful run of the row loop is a trace** ending at `]`; the result is read off the trace. -/
theorem rows_iter_of_ok (env : Env) (ms ty : String) :
    ∀ (n i : Nat) (acc : List TableEntry) (imp : ImpData) (s : PState)
      (res : List TableEntry × ImpData) (s' : PState), s.eof.type = .EOF →
      (parseTableEntries env ms ty n i acc imp).run s = .ok (res, s') →
      ∃ (rows : List Row) (m : Nat), RowIter env ms ty s.constants n i s rows (m + 1) s' ∧
        (s'.toks.headD s'.eof).type = .RBRACKET ∧
        res = (acc ++ rowEntries s.constants ms ty i rows, rowsImp imp rows) := by
  intro n
  induction n with
  | zero =>
    intro i acc imp s res s' _ hr
    rw [parseTableEntries] at hr
    cases hr
  | succ n ih =>
    intro i acc imp s res s' he hr
    rcases trow_inv env ms ty n i acc imp s he res s' hr with ⟨h1, rfl, rfl⟩ |
      ⟨cs, comma, vs, colon, name, rest, htk, hwf, hn1, hn2, hrest⟩ |
      ⟨cs, comma, vs, lb, rest, htk, hwf, hlb, hn1, hn2, hab⟩
    · exact ⟨[], n, RowIter.nil _ _ _, h1, by simp [rowEntries, rowsImp]⟩
    · obtain ⟨rows, m, hit, hend, hres⟩ := ih _ _ _ (st s rest) res s' (by exact he) hrest
      simp only [st_constants] at hit hres
      refine ⟨.plain cs comma vs colon name :: rows, m,
        RowIter.cons (rest := rest) rfl (by simp [Row.toks, htk]) hwf (by simp only [Row.need]; omega) rfl hit,
        hend, ?_⟩
      rw [hres]
      simp [rowEntries, rowsImp]
    · cases hb : (parseBlockStatement env (rowName ms ty i) lb n [] {}).run (st s rest) with
      | error e => rw [hb] at hab; cases hab
      | ok r =>
        obtain ⟨⟨body, bimp⟩, sb⟩ := r
        rw [hb] at hab
        simp only [afterRowBody] at hab
        have hk := block_keeps hb
        simp only [st_constants, st_eof] at hk
        obtain ⟨rows, m, hit, hend, hres⟩ := ih _ _ _ (st sb sb.toks.tail) res s' (by rw [st_eof, hk.2.1]; exact he) hab
        simp only [st_constants, hk.1] at hit hres
        refine ⟨.inline cs comma vs lb body bimp :: rows, m,
          RowIter.cons (rest := rest) rfl (by simp [Row.toks, htk]) ⟨hwf, hlb⟩ (by simp only [Row.need]; omega)
            ⟨sb, hb, rfl⟩ hit, hend, ?_⟩
        rw [hres]
        simp [rowEntries, rowsImp, Row.entry, Row.condTok, Row.cmpVal, Row.label, Row.script]

/-! ### reference syntax of an entry of a `mapscripts` statement -/

/-- An entry as the loop meets it: `plain`: `TYPE : Name`; `inline`: `TYPE { body }` with what
`parseBlockStatement` returned for the body; `table`: `TYPE [ rows ]` with the rows met by the row loop. -/
inductive Entry
  | plain (ty colon name : Tok)
  | inline (ty lb : Tok) (body : List Stmt) (imp : ImpData)
  | table (ty lbr : Tok) (rows : List Row)

namespace Entry

/-- The tokens of the entry up to and including the label name / the `{` / the `[`. -/
def toks : Entry → List Tok
  | .plain ty colon name => [ty, colon, name]
  | .inline ty lb _ _ => [ty, lb]
  | .table ty lbr _ => [ty, lbr]

def WF : Entry → Prop
  | .plain ty colon name => ty.type = .IDENT ∧ colon.type = .COLON ∧ name.type = .IDENT
  | .inline ty lb _ _ => ty.type = .IDENT ∧ lb.type = .LBRACE
  | .table ty lbr _ => ty.type = .IDENT ∧ lbr.type = .LBRACKET

/-- The map-script type token. -/
def ty : Entry → Tok
  | .plain ty _ _ => ty
  | .inline ty _ _ _ => ty
  | .table ty _ _ => ty

def isTable : Entry → Bool
  | .plain .. => false
  | .inline .. => false
  | .table .. => true

/-- The label the header refers to: the written name, or `<ms>_<TYPE>` for an inline script / a table. -/
def label (ms : String) : Entry → String
  | .plain _ _ name => name.lit
  | .inline ty _ _ _ => entryName ms ty.lit
  | .table ty _ _ => entryName ms ty.lit

/-- The `MapScript` a plain / inline entry contributes. -/
def mapScript (ms : String) : Entry → Option MapScript
  | .plain ty _ name => some { type := ty, name := name.lit, script := none }
  | .inline ty _ body _ =>
    some { type := ty, name := entryName ms ty.lit,
           script := some { tok := {}, name := entryName ms ty.lit, body := body, scope := .LOCAL } }
  | .table .. => none

/-- The `TableMapScript` a table entry contributes. -/
def tableOf (K : List (String × String)) (ms : String) : Entry → Option TableMapScript
  | .plain .. => none
  | .inline .. => none
  | .table ty _ rows => some { type := ty, name := entryName ms ty.lit, entries := rowEntries K ms ty.lit 0 rows }

/-- Implicit data contributed by the entry. -/
def impOf : Entry → ImpData
  | .plain .. => {}
  | .inline _ _ _ imp => imp
  | .table _ _ rows => rowsImp {} rows

end Entry

/-- The map scripts (plain and inline entries) of a list of entries, in order. -/
def mapScriptsOf (ms : String) (es : List Entry) : List MapScript := es.filterMap (Entry.mapScript ms)
/-- The tables of a list of entries, in order. -/
def tablesOf (K : List (String × String)) (ms : String) (es : List Entry) : List TableMapScript :=
  es.filterMap (Entry.tableOf K ms)
/-- The implicit data collected, after the entries. -/
def impAfter : ImpData → List Entry → ImpData
  | imp, [] => imp
  | imp, .plain .. :: es => impAfter imp es
  | imp, .inline _ _ _ bimp :: es => impAfter (imp.add bimp) es
  | imp, .table _ _ rows :: es => impAfter (imp.add (rowsImp {} rows)) es

theorem impData_add_empty (a : ImpData) : a.add {} = a := by
  cases a; simp [ImpData.add]

/-- `impAfter` adds the implicit data of the entries, in order. -/
theorem impAfter_eq_foldl (es : List Entry) : ∀ imp, impAfter imp es = es.foldl (fun a e => a.add e.impOf) imp := by
  induction es with
  | nil => intro imp; rfl
  | cons e es ih =>
    intro imp
    cases e <;> simp [impAfter, ih, Entry.impOf, impData_add_empty]

/-- `rowsImp` adds the implicit data of the rows, in order. -/
theorem rowsImp_eq_foldl (rows : List Row) : ∀ imp, rowsImp imp rows = rows.foldl (fun a r => a.add r.impOf) imp := by
  induction rows with
  | nil => intro imp; rfl
  | cons r rs ih =>
    intro imp
    cases r <;> simp [rowsImp, ih, Row.impOf, impData_add_empty]

section
variable (env : Env) (ms : String)

/-- What the entry loop does once the body of an inline entry has been parsed. -/
def afterEntryBody (n : Nat) (mss : List MapScript) (tables : List TableMapScript) (imp : ImpData) (ty : Tok)
    (r : Except PFail ((List Stmt × ImpData) × PState)) :
    Except PFail ((List MapScript × List TableMapScript × ImpData) × PState) :=
  match r with
  | .ok ((body, bimp), s1) =>
    (parseMapScriptEntries env ms n
      (mss ++ [{ type := ty, name := entryName ms ty.lit,
                 script := some { tok := {}, name := entryName ms ty.lit, body := body, scope := .LOCAL } }])
      tables (imp.add bimp)).run (st s1 s1.toks.tail)
  | .error e => .error e

/-- What the entry loop does once the rows of a table entry have been read. -/
def afterTable (n : Nat) (mss : List MapScript) (tables : List TableMapScript) (imp : ImpData) (ty : Tok)
    (r : Except PFail ((List TableEntry × ImpData) × PState)) :
    Except PFail ((List MapScript × List TableMapScript × ImpData) × PState) :=
  match r with
  | .ok ((entries, eimp), s1) =>
    (parseMapScriptEntries env ms n mss
      (tables ++ [{ type := ty, name := entryName ms ty.lit, entries := entries }])
      (imp.add eimp)).run (st s1 s1.toks.tail)
  | .error e => .error e

variable (n : Nat) (mss : List MapScript) (tables : List TableMapScript) (imp : ImpData) (s : PState)

/-- The entry loop ends at `}`. -/
theorem ment_done (h : (s.toks.headD s.eof).type = .RBRACE) :
    (parseMapScriptEntries env ms (n + 1) mss tables imp).run s = .ok ((mss, tables, imp), s) := by
  rw [parseMapScriptEntries]
  rsimp [beq_true_of_eq h]

/-- One iteration on `TYPE : Name`. -/
theorem ment_plain (ty colon name : Tok) (rest : List Tok) (hwf : (Entry.plain ty colon name).WF) :
    (parseMapScriptEntries env ms (n + 1) mss tables imp).run (st s (ty :: colon :: name :: rest)) =
      (parseMapScriptEntries env ms n (mss ++ [{ type := ty, name := name.lit, script := none }]) tables
        imp).run (st s rest) := by
  obtain ⟨h1, h2, h3⟩ := hwf
  rw [parseMapScriptEntries]
  have a1 : (ty.type == TT.RBRACE) = false := by rw [h1]; decide
  have a2 : (ty.type != TT.IDENT) = false := by rw [h1]; decide
  rsimp [a1, a2, beq_true_of_eq h2, beq_true_of_eq h3]

/-- One iteration on `TYPE {`: the body is handed to `parseBlockStatement` under the name `<ms>_<TYPE>`. -/
theorem ment_inline (ty lb : Tok) (rest : List Tok) (hty : ty.type = .IDENT) (hlb : lb.type = .LBRACE) :
    (parseMapScriptEntries env ms (n + 1) mss tables imp).run (st s (ty :: lb :: rest)) =
      afterEntryBody env ms n mss tables imp ty
        ((parseBlockStatement env (entryName ms ty.lit) lb n [] {}).run (st s rest)) := by
  rw [parseMapScriptEntries]
  have a1 : (ty.type == TT.RBRACE) = false := by rw [hty]; decide
  have a2 : (ty.type != TT.IDENT) = false := by rw [hty]; decide
  have a3 : (lb.type == TT.COLON) = false := by rw [hlb]; decide
  rsimp [a1, a2, a3, beq_true_of_eq hlb]
  cases hb : (parseBlockStatement env (entryName ms ty.lit) lb n [] {}).run (st s rest) with
  | error e =>
    simp only [entryName] at hb
    simp only [afterEntryBody, hb]
    rfl
  | ok r =>
    obtain ⟨⟨body, bimp⟩, s1⟩ := r
    simp only [entryName] at hb
    simp only [afterEntryBody, hb]
    rsimp
    rfl

/-- One iteration on `TYPE [`: the rows are read by `parseTableEntries` (numbering from 0), the `]` it stops
on is skipped. -/
theorem ment_table (ty lbr : Tok) (rest : List Tok) (hty : ty.type = .IDENT) (hlbr : lbr.type = .LBRACKET) :
    (parseMapScriptEntries env ms (n + 1) mss tables imp).run (st s (ty :: lbr :: rest)) =
      afterTable env ms n mss tables imp ty
        ((parseTableEntries env ms ty.lit n 0 [] {}).run (st s rest)) := by
  rw [parseMapScriptEntries]
  have a1 : (ty.type == TT.RBRACE) = false := by rw [hty]; decide
  have a2 : (ty.type != TT.IDENT) = false := by rw [hty]; decide
  have a3 : (lbr.type == TT.COLON) = false := by rw [hlbr]; decide
  have a4 : (lbr.type == TT.LBRACE) = false := by rw [hlbr]; decide
  rsimp [a1, a2, a3, a4, beq_true_of_eq hlbr]
  cases hb : (parseTableEntries env ms ty.lit n 0 [] {}).run (st s rest) with
  | error e =>
    simp only [afterTable]
    rfl
  | ok r =>
    obtain ⟨⟨entries, eimp⟩, s1⟩ := r
    simp only [afterTable]
    rsimp
    rfl

/-- Anything else than `}` or an identifier where an entry should start is rejected, the error located on
that token. -/
theorem ment_bad_type (h1 : (s.toks.headD s.eof).type ≠ .RBRACE) (h2 : (s.toks.headD s.eof).type ≠ .IDENT) :
    (parseMapScriptEntries env ms (n + 1) mss tables imp).run s =
      .error (newParseError (s.toks.headD s.eof)
        s!"expected map script type, but got '{(s.toks.headD s.eof).lit}' instead") := by
  rw [parseMapScriptEntries]
  have a2 : ((s.toks.headD s.eof).type != TT.IDENT) = true := by simpa using h2
  rsimp [SwitchParse.beq_false_of_ne h1, a2]

/-- After the type, anything else than `:`, `{`, `[` is rejected, the error located on that token. -/
theorem ment_bad_after_type (ty : Tok) (tl : List Tok) (hty : ty.type = .IDENT)
    (h1 : (tl.headD s.eof).type ≠ .COLON) (h2 : (tl.headD s.eof).type ≠ .LBRACE)
    (h3 : (tl.headD s.eof).type ≠ .LBRACKET) :
    (parseMapScriptEntries env ms (n + 1) mss tables imp).run (st s (ty :: tl)) =
      .error (newParseError (tl.headD s.eof)
        s!"expected ':', '[', or '\{' after map script type '{ty.lit}', but got '{(tl.headD s.eof).lit}' instead") := by
  rw [parseMapScriptEntries]
  have a1 : (ty.type == TT.RBRACE) = false := by rw [hty]; decide
  have a2 : (ty.type != TT.IDENT) = false := by rw [hty]; decide
  rsimp [a1, a2, SwitchParse.beq_false_of_ne h1, SwitchParse.beq_false_of_ne h2, SwitchParse.beq_false_of_ne h3]

/-- `TYPE :` not followed by an identifier is rejected, the error located on the token after the `:`. -/
theorem ment_missing_label (ty colon : Tok) (tl : List Tok) (hty : ty.type = .IDENT)
    (hc : colon.type = .COLON) (hx : (tl.headD s.eof).type ≠ .IDENT) :
    (parseMapScriptEntries env ms (n + 1) mss tables imp).run (st s (ty :: colon :: tl)) =
      .error (newParseError (tl.headD s.eof)
        s!"expected map script label after ':', but got '{(tl.headD s.eof).lit}' instead") := by
  rw [parseMapScriptEntries]
  have a1 : (ty.type == TT.RBRACE) = false := by rw [hty]; decide
  have a2 : (ty.type != TT.IDENT) = false := by rw [hty]; decide
  have a3 : ((colon :: tl).getD 1 s.eof) = tl.headD s.eof := by cases tl <;> rfl
  rsimp [a1, a2, beq_true_of_eq hc, a3, SwitchParse.beq_false_of_ne hx]

end

theorem toks_one {l : List Tok} {e : Tok} {t : TT} (he : e.type = .EOF) (ht : t ≠ .EOF)
    (h : (l.headD e).type = t) : ∃ a tl, l = a :: tl ∧ a.type = t := by
  cases l with
  | nil => exact absurd (he.symm.trans h).symm ht
  | cons a tl => exact ⟨a, tl, rfl, h⟩

/-- Converse of `ment_done` / `ment_plain` / `ment_inline` / `ment_table`: every successful iteration of the
entry loop is one of them. -/
theorem ment_inv (env : Env) (ms : String) (n : Nat) (mss : List MapScript) (tables : List TableMapScript)
    (imp : ImpData) (s : PState) (he : s.eof.type = .EOF)
    (res : List MapScript × List TableMapScript × ImpData) (s' : PState)
    (hr : (parseMapScriptEntries env ms (n + 1) mss tables imp).run s = .ok (res, s')) :
    ((s.toks.headD s.eof).type = .RBRACE ∧ res = (mss, tables, imp) ∧ s' = s) ∨
    (∃ ty colon name rest, s.toks = ty :: colon :: name :: rest ∧ (Entry.plain ty colon name).WF ∧
      (parseMapScriptEntries env ms n (mss ++ [{ type := ty, name := name.lit, script := none }]) tables
        imp).run (st s rest) = .ok (res, s')) ∨
    (∃ ty lb rest, s.toks = ty :: lb :: rest ∧ ty.type = .IDENT ∧ lb.type = .LBRACE ∧
      afterEntryBody env ms n mss tables imp ty
        ((parseBlockStatement env (entryName ms ty.lit) lb n [] {}).run (st s rest)) = .ok (res, s')) ∨
    (∃ ty lbr rest, s.toks = ty :: lbr :: rest ∧ ty.type = .IDENT ∧ lbr.type = .LBRACKET ∧
      afterTable env ms n mss tables imp ty
        ((parseTableEntries env ms ty.lit n 0 [] {}).run (st s rest)) = .ok (res, s')) := by
  by_cases h1 : (s.toks.headD s.eof).type = .RBRACE
  · left
    rw [ment_done _ _ _ _ _ _ _ h1] at hr
    have := ok_inj hr
    exact ⟨h1, (Prod.mk.inj this).1.symm, (Prod.mk.inj this).2.symm⟩
  right
  by_cases h2 : (s.toks.headD s.eof).type ≠ .IDENT
  · rw [ment_bad_type _ _ _ _ _ _ _ h1 h2] at hr; cases hr
  have h2 : (s.toks.headD s.eof).type = .IDENT := Decidable.not_not.mp h2
  obtain ⟨ty, tl, htk, hty⟩ := toks_one he (by decide) h2
  have hs := st_eq_of_toks htk
  by_cases hc : (tl.headD s.eof).type = .COLON
  · left
    obtain ⟨colon, tl2, rfl, hcol⟩ := toks_one he (by decide) hc
    by_cases hn : (tl2.headD s.eof).type = .IDENT
    · obtain ⟨name, rest, rfl, hname⟩ := toks_one he (by decide) hn
      rw [hs, ment_plain env ms n mss tables imp s ty colon name rest ⟨hty, hcol, hname⟩] at hr
      exact ⟨ty, colon, name, rest, htk, ⟨hty, hcol, hname⟩, hr⟩
    · rw [hs, ment_missing_label env ms n mss tables imp s ty colon tl2 hty hcol hn] at hr; cases hr
  right
  by_cases hb : (tl.headD s.eof).type = .LBRACE
  · left
    obtain ⟨lb, rest, rfl, hlb⟩ := toks_one he (by decide) hb
    rw [hs, ment_inline env ms n mss tables imp s ty lb rest hty hlb] at hr
    exact ⟨ty, lb, rest, htk, hty, hlb, hr⟩
  right
  by_cases hk : (tl.headD s.eof).type = .LBRACKET
  · obtain ⟨lbr, rest, rfl, hlbr⟩ := toks_one he (by decide) hk
    rw [hs, ment_table env ms n mss tables imp s ty lbr rest hty hlbr] at hr
    exact ⟨ty, lbr, rest, htk, hty, hlbr, hr⟩
  · rw [hs, ment_bad_after_type env ms n mss tables imp s ty tl hty hc hb hk] at hr; cases hr

/-! ### the entry loop as a trace -/

/-- The part of an iteration that follows the tokens of the entry: nothing for a plain entry; for an inline
entry the body is parsed by `parseBlockStatement` under the name `<ms>_<TYPE>` and the `}` it stops on is
skipped; for a table the rows are read by the row loop (a `RowIter` trace from row number 0 that ends at `]`
with fuel left to see it) and the `]` is skipped. -/
def Entry.After (env : Env) (ms : String) (K : List (String × String)) (n : Nat) :
    Entry → PState → PState → Prop
  | .plain .., s0, s1 => s1 = s0
  | .inline ty lb body imp, s0, s1 => ∃ sb,
      (parseBlockStatement env (entryName ms ty.lit) lb n [] {}).run s0 = .ok ((body, imp), sb) ∧
      s1 = st sb sb.toks.tail
  | .table ty _ rows, s0, s1 => ∃ m sb,
      RowIter env ms ty.lit K n 0 s0 rows (m + 1) sb ∧ (sb.toks.headD sb.eof).type = .RBRACKET ∧
      s1 = st sb sb.toks.tail

/-- `Iter K n s es m s'`: started with fuel `n` in state `s`, the entry loop meets the entries `es` one after
the other and is then in state `s'` with fuel `m`.  `K` is the table of constants. -/
inductive Iter (env : Env) (ms : String) (K : List (String × String)) :
    Nat → PState → List Entry → Nat → PState → Prop
  | nil (n : Nat) (s : PState) : Iter env ms K n s [] n s
  | cons {n : Nat} {s : PState} {e : Entry} {rest : List Tok} {s1 : PState} {es : List Entry} {m : Nat}
      {s2 : PState} :
      s.constants = K → s.toks = e.toks ++ rest → e.WF → e.After env ms K n (st s rest) s1 →
      Iter env ms K n s1 es m s2 → Iter env ms K (n + 1) s (e :: es) m s2

theorem Entry.After.keeps {env : Env} {ms : String} {K : List (String × String)} {n : Nat} {e : Entry}
    {s0 s1 : PState} (h : e.After env ms K n s0 s1) : s1.constants = s0.constants ∧ s1.eof = s0.eof := by
  cases e with
  | plain => cases h; exact ⟨rfl, rfl⟩
  | inline ty lb body imp =>
    obtain ⟨sb, hb, rfl⟩ := h
    have := block_keeps hb
    exact ⟨this.1, this.2.1⟩
  | table ty lbr rows =>
    obtain ⟨m, sb, hit, _, rfl⟩ := h
    exact hit.keeps

theorem Iter.keeps {env : Env} {ms : String} {K : List (String × String)} {n m : Nat}
    {s s' : PState} {es : List Entry} (h : Iter env ms K n s es m s') :
    s'.constants = s.constants ∧ s'.eof = s.eof := by
  induction h with
  | nil => exact ⟨rfl, rfl⟩
  | cons _ _ _ ha _ ih =>
    have := ha.keeps
    simp only [st_constants, st_eof] at this
    exact ⟨ih.1.trans this.1, ih.2.trans this.2⟩

theorem Iter.fuel {env : Env} {ms : String} {K : List (String × String)} {n m : Nat}
    {s s' : PState} {es : List Entry} (h : Iter env ms K n s es m s') : n = m + es.length := by
  induction h with
  | nil => simp
  | cons _ _ _ _ _ ih => simp [ih]; omega

/-- **The entry loop along a trace.**  Running the loop from the start of the trace equals running it from
the end of the trace with the accumulators the entries produce: no fuel slack, errors included. -/
theorem run_of_iter {env : Env} {ms : String} {K : List (String × String)} {n m : Nat}
    {s s' : PState} {es : List Entry} (h : Iter env ms K n s es m s') :
    ∀ (mss : List MapScript) (tables : List TableMapScript) (imp : ImpData),
      (parseMapScriptEntries env ms n mss tables imp).run s =
        (parseMapScriptEntries env ms m (mss ++ mapScriptsOf ms es) (tables ++ tablesOf K ms es)
          (impAfter imp es)).run s' := by
  induction h with
  | nil => intro mss tables imp; simp [mapScriptsOf, tablesOf, impAfter]
  | @cons n s e rest s1 es m s2 hK htk hwf ha _ ih =>
    intro mss tables imp
    cases e with
    | plain ty colon name =>
      have htk' : s.toks = ty :: colon :: name :: rest := by simpa [Entry.toks] using htk
      cases ha
      rw [st_eq_of_toks htk', ment_plain env ms n mss tables imp s ty colon name rest hwf, ih]
      simp [mapScriptsOf, tablesOf, impAfter, List.filterMap_cons, Entry.mapScript, Entry.tableOf]
    | inline ty lb body bimp =>
      have htk' : s.toks = ty :: lb :: rest := by simpa [Entry.toks] using htk
      obtain ⟨sb, hb, rfl⟩ := ha
      rw [st_eq_of_toks htk', ment_inline env ms n mss tables imp s ty lb rest hwf.1 hwf.2]
      simp only [hb, afterEntryBody]
      rw [ih]
      simp [mapScriptsOf, tablesOf, impAfter, List.filterMap_cons, Entry.mapScript, Entry.tableOf]
    | table ty lbr rows =>
      have htk' : s.toks = ty :: lbr :: rest := by simpa [Entry.toks] using htk
      obtain ⟨m', sb, hit, hend, rfl⟩ := ha
      rw [st_eq_of_toks htk', ment_table env ms n mss tables imp s ty lbr rest hwf.1 hwf.2,
        rows_run_of_iter hit, trow_done _ _ _ _ _ _ _ _ hend]
      simp only [afterTable]
      rw [ih]
      simp [mapScriptsOf, tablesOf, impAfter, List.filterMap_cons, Entry.mapScript, Entry.tableOf]

/-- **Every successful run of the entry loop is a trace** ending at `}`; the result is read off the trace. -/
theorem iter_of_ok (env : Env) (ms : String) :
    ∀ (n : Nat) (mss : List MapScript) (tables : List TableMapScript) (imp : ImpData) (s : PState)
      (res : List MapScript × List TableMapScript × ImpData) (s' : PState), s.eof.type = .EOF →
      (parseMapScriptEntries env ms n mss tables imp).run s = .ok (res, s') →
      ∃ (es : List Entry) (m : Nat), Iter env ms s.constants n s es (m + 1) s' ∧
        (s'.toks.headD s'.eof).type = .RBRACE ∧
        res = (mss ++ mapScriptsOf ms es, tables ++ tablesOf s.constants ms es, impAfter imp es) := by
  intro n
  induction n with
  | zero =>
    intro mss tables imp s res s' _ hr
    rw [parseMapScriptEntries] at hr
    cases hr
  | succ n ih =>
    intro mss tables imp s res s' he hr
    rcases ment_inv env ms n mss tables imp s he res s' hr with ⟨h1, rfl, rfl⟩ |
      ⟨ty, colon, name, rest, htk, hwf, hrest⟩ | ⟨ty, lb, rest, htk, hty, hlb, hab⟩ |
      ⟨ty, lbr, rest, htk, hty, hlbr, hab⟩
    · exact ⟨[], n, Iter.nil _ _, h1, by simp [mapScriptsOf, tablesOf, impAfter]⟩
    · obtain ⟨es, m, hit, hend, hres⟩ := ih _ _ _ (st s rest) res s' (by exact he) hrest
      simp only [st_constants] at hit hres
      refine ⟨.plain ty colon name :: es, m,
        Iter.cons (rest := rest) rfl (by simp [Entry.toks, htk]) hwf rfl hit, hend, ?_⟩
      rw [hres]
      simp [mapScriptsOf, tablesOf, impAfter, List.filterMap_cons, Entry.mapScript, Entry.tableOf]
    · cases hb : (parseBlockStatement env (entryName ms ty.lit) lb n [] {}).run (st s rest) with
      | error e => rw [hb] at hab; cases hab
      | ok r =>
        obtain ⟨⟨body, bimp⟩, sb⟩ := r
        rw [hb] at hab
        simp only [afterEntryBody] at hab
        have hk := block_keeps hb
        simp only [st_constants, st_eof] at hk
        obtain ⟨es, m, hit, hend, hres⟩ :=
          ih _ _ _ (st sb sb.toks.tail) res s' (by rw [st_eof, hk.2.1]; exact he) hab
        simp only [st_constants, hk.1] at hit hres
        refine ⟨.inline ty lb body bimp :: es, m,
          Iter.cons (rest := rest) rfl (by simp [Entry.toks, htk]) ⟨hty, hlb⟩ ⟨sb, hb, rfl⟩ hit, hend, ?_⟩
        rw [hres]
        simp [mapScriptsOf, tablesOf, impAfter, List.filterMap_cons, Entry.mapScript, Entry.tableOf]
    · cases hb : (parseTableEntries env ms ty.lit n 0 [] {}).run (st s rest) with
      | error e => rw [hb] at hab; cases hab
      | ok r =>
        obtain ⟨⟨entries, eimp⟩, sb⟩ := r
        rw [hb] at hab
        simp only [afterTable] at hab
        obtain ⟨rows, m', hrit, hrend, hrres⟩ := rows_iter_of_ok env ms ty.lit n 0 [] {} (st s rest) _ sb
          (by exact he) hb
        have hk := hrit.keeps
        simp only [st_constants, st_eof] at hk hrit hrres
        obtain ⟨es, m, hit, hend, hres⟩ :=
          ih _ _ _ (st sb sb.toks.tail) res s' (by rw [st_eof, hk.2]; exact he) hab
        simp only [st_constants, hk.1] at hit hres
        refine ⟨.table ty lbr rows :: es, m,
          Iter.cons (rest := rest) rfl (by simp [Entry.toks, htk]) ⟨hty, hlbr⟩ ⟨m', sb, hrit, hrend, rfl⟩ hit,
          hend, ?_⟩
        rw [hres]
        have e1 := (Prod.mk.inj hrres).1
        have e2 := (Prod.mk.inj hrres).2
        subst e1 e2
        simp [mapScriptsOf, tablesOf, impAfter, List.filterMap_cons, Entry.mapScript, Entry.tableOf]

/-! ### rejected rows -/

section
variable (env : Env) (ms ty : String) (n i : Nat) (acc : List TableEntry) (imp : ImpData) (s : PState)

theorem isEmpty_true_of_eq {a : String} (h : a = "") : a.isEmpty = true := by subst h; rfl

/-- The end of input before the `,` of a row: error located on the first token of the row. -/
theorem trow_missing_comma (c : Tok) (cs rest : List Tok) (h0 : c.type ≠ .RBRACKET)
    (h1 : ∀ v ∈ c :: cs, v.type ≠ .COMMA) (h2 : ∀ v ∈ cs, v.type ≠ .EOF)
    (hrest : (rest.headD s.eof).type = .EOF) (hn : cs.length < n) :
    (parseTableEntries env ms ty (n + 1) i acc imp).run (st s (c :: (cs ++ rest))) =
      .error (newParseError c "missing ',' to specify map script table entry comparison value") := by
  rw [parseTableEntries]
  have := tcollect_eof (fun t => t.type == .COMMA)
    (newParseError c "missing ',' to specify map script table entry comparison value") s rest hrest
    (c :: cs) n "" (by simp) (fun v hv => SwitchParse.beq_false_of_ne (h1 v hv)) (by simpa using h2)
    (by simp; omega)
  simp only [List.cons_append] at this
  rsimp [SwitchParse.beq_false_of_ne h0, this]

/-- A row whose condition is empty (`, …`, or only tokens with empty literals before the `,`): error located
on the first token of the row. -/
theorem trow_empty_condition (cs : List Tok) (comma : Tok) (rest : List Tok)
    (h0 : (cs.headD comma).type ≠ .RBRACKET) (h1 : ∀ v ∈ cs, v.type ≠ .COMMA) (h2 : ∀ v ∈ cs.tail, v.type ≠ .EOF)
    (h3 : comma.type = .COMMA) (hn : cs.length < n) (hemp : collVal s.constants cs = "") :
    (parseTableEntries env ms ty (n + 1) i acc imp).run (st s (cs ++ comma :: rest)) =
      .error (newParseError (cs.headD comma) "expected condition for map script table entry, but it was empty") := by
  rw [parseTableEntries]
  have c1 := tcollect_run (fun t => t.type == .COMMA)
    (newParseError (cs.headD comma) "missing ',' to specify map script table entry comparison value")
    s comma rest (beq_true_of_eq h3) (by rw [h3]; decide) cs n ""
    (fun v hv => SwitchParse.beq_false_of_ne (h1 v hv)) h2 hn
  simp only [collVal] at hemp
  rsimp [headD_append_cons, SwitchParse.beq_false_of_ne h0, c1, isEmpty_true_of_eq hemp]

/-- The end of input after the `,` of a row, before a `:` or `{`: range error from the first token of the row
to the first token after the `,`. -/
theorem trow_missing_delim (cs : List Tok) (comma v : Tok) (vs rest : List Tok)
    (h0 : (cs.headD comma).type ≠ .RBRACKET) (h1 : ∀ v ∈ cs, v.type ≠ .COMMA) (h2 : ∀ v ∈ cs.tail, v.type ≠ .EOF)
    (h3 : comma.type = .COMMA) (hn : cs.length < n) (hne : collVal s.constants cs ≠ "")
    (h4 : ∀ x ∈ v :: vs, x.type ≠ .COLON ∧ x.type ≠ .LBRACE) (h5 : ∀ x ∈ vs, x.type ≠ .EOF)
    (hrest : (rest.headD s.eof).type = .EOF) (hn2 : vs.length < n) :
    (parseTableEntries env ms ty (n + 1) i acc imp).run (st s (cs ++ comma :: v :: (vs ++ rest))) =
      .error (newRangeParseError (cs.headD comma) v "missing ':' or '{' to specify map script table entry") := by
  rw [parseTableEntries]
  have c1 := tcollect_run (fun t => t.type == .COMMA)
    (newParseError (cs.headD comma) "missing ',' to specify map script table entry comparison value")
    s comma (v :: (vs ++ rest)) (beq_true_of_eq h3) (by rw [h3]; decide) cs n ""
    (fun v hv => SwitchParse.beq_false_of_ne (h1 v hv)) h2 hn
  have c2 := tcollect_eof (fun t => t.type == .COLON || t.type == .LBRACE)
    (newRangeParseError (cs.headD comma) v "missing ':' or '{' to specify map script table entry") s rest hrest
    (v :: vs) n "" (by simp)
    (fun x hx => by simp [SwitchParse.beq_false_of_ne (h4 x hx).1, SwitchParse.beq_false_of_ne (h4 x hx).2])
    (by simpa using h5) (by simp; omega)
  simp only [List.cons_append] at c2
  simp only [collVal] at hne
  rsimp [headD_append_cons, SwitchParse.beq_false_of_ne h0, c1, isEmpty_false_of_ne hne, c2]

/-- A row whose comparison value is empty (`cond , :`): range error from the first token of the row to the
`:` / `{`. -/
theorem trow_empty_comparison (cs : List Tok) (comma : Tok) (vs : List Tok) (d : Tok) (rest : List Tok)
    (h0 : (cs.headD comma).type ≠ .RBRACKET) (h1 : ∀ v ∈ cs, v.type ≠ .COMMA) (h2 : ∀ v ∈ cs.tail, v.type ≠ .EOF)
    (h3 : comma.type = .COMMA) (hn : cs.length < n) (hne : collVal s.constants cs ≠ "")
    (h4 : ∀ x ∈ vs, x.type ≠ .COLON ∧ x.type ≠ .LBRACE) (h5 : ∀ x ∈ vs.tail, x.type ≠ .EOF)
    (hd : d.type = .COLON ∨ d.type = .LBRACE) (hn2 : vs.length < n) (hemp : collVal s.constants vs = "") :
    (parseTableEntries env ms ty (n + 1) i acc imp).run (st s (cs ++ comma :: (vs ++ d :: rest))) =
      .error (newRangeParseError (cs.headD comma) d
        "expected comparison value for map script table entry, but it was empty") := by
  rw [parseTableEntries]
  have hstop2 : (d.type == TT.COLON || d.type == TT.LBRACE) = true := by
    rcases hd with hd | hd <;> simp [hd]
  have hdE : d.type ≠ .EOF := by rcases hd with hd | hd <;> rw [hd] <;> decide
  have c1 := tcollect_run (fun t => t.type == .COMMA)
    (newParseError (cs.headD comma) "missing ',' to specify map script table entry comparison value")
    s comma (vs ++ d :: rest) (beq_true_of_eq h3) (by rw [h3]; decide) cs n ""
    (fun v hv => SwitchParse.beq_false_of_ne (h1 v hv)) h2 hn
  have c2 : ∀ onEOF, (tableCollect (fun t => t.type == .COLON || t.type == .LBRACE) onEOF n "").run
      (st s (vs ++ d :: rest)) = .ok (constAcc s.constants vs "", st s (d :: rest)) :=
    fun onEOF => tcollect_run (fun t => t.type == .COLON || t.type == .LBRACE) onEOF
      s d rest hstop2 hdE vs n ""
      (fun v hv => by simp [SwitchParse.beq_false_of_ne (h4 v hv).1, SwitchParse.beq_false_of_ne (h4 v hv).2]) h5 hn2
  simp only [collVal] at hne hemp
  rsimp [headD_append_cons, SwitchParse.beq_false_of_ne h0, c1, isEmpty_false_of_ne hne, c2,
    isEmpty_true_of_eq hemp]

/-- `cond , value :` not followed by an identifier: error located on the token after the `:`. -/
theorem trow_missing_label (cs : List Tok) (comma : Tok) (vs : List Tok) (colon : Tok) (rest : List Tok)
    (hwf : HdWF s.constants cs comma vs) (hc : colon.type = .COLON) (hn1 : cs.length < n) (hn2 : vs.length < n)
    (hx : (rest.headD s.eof).type ≠ .IDENT) :
    (parseTableEntries env ms ty (n + 1) i acc imp).run (st s (cs ++ comma :: (vs ++ colon :: rest))) =
      .error (newParseError (rest.headD s.eof)
        s!"expected map script label after ':', but got '{(rest.headD s.eof).lit}' instead") := by
  rw [trow_head env ms ty n i acc imp s cs comma vs colon rest hwf (Or.inl hc) hn1 hn2, rowTail]
  have a3 : ((colon :: rest).getD 1 s.eof) = rest.headD s.eof := by cases rest <;> rfl
  rsimp [beq_true_of_eq hc, a3, SwitchParse.beq_false_of_ne hx]

end

end Pory.MapScriptsParse
