import PoryProofs.ProgramGrammarEMS
/-
P2e (P1c's body grammar plugged into the whole-file grammar), stage 1: the surface syntax `STopE` =
`P2d.STopP` (every statement kind of P2 … P2d, through the embedding `STopE.base`) + TWO constructors

  scriptE   `script [(global|local)] Name { body }`      body : `List P1c.SStmt`  — the statement grammar of P1c
            (PoryProofs/StmtGrammarMS.lean): AutoVar leaves anywhere, `value( … )`, inline `format()`, and
            `moves( … )` arguments with (nested) `poryswitch` elements,
  mapscriptsE  `mapscripts [(global|local)] Name { entries }`   entries : `List SEntryE` (ProgramGrammarEMS.lean):
            P2b's entries / table rows whose INLINE script bodies are `List P1c.SStmt`,

its printer, well-formedness (token types only; decidable) and reference elaboration `stepTopE / elabTopsE /
elabFileE`. A `scriptE` statement is elaborated exactly like P2's `script` statement with `P1c.elabE` in the place
of `StmtG.elabE`: the script node, the two id counters advanced, the implicit texts / movements of the body
recorded with `C12c.addImp` (= `addImplicitData`) — the `moves( … poryswitch … )` arguments contribute hoisted
movements holding the SELECTED steps. A `mapscriptsE` statement is P2b's `mapscripts` step with `elabEntriesE`
(inline bodies through `P1c.elabE` under the generated names, the context threaded from body to body, the implicit
data recorded ONCE after the statement).
-/
namespace Pory.P2e
open Pory Pory.Parser Pory.C02P Pory.TopParse Pory.P2 Pory.P2b Pory.P2d
open Pory.StmtG (Ctx ctxOf)
open Pory.C12c (addImp)

/-! ### surface syntax -/

inductive STopE where
  | base (t : STopP)
  | scriptE (kw : Tok) (md : Mod) (name lb : Tok) (body : List P1c.SStmt) (rb : Tok)
  | mapscriptsE (kw : Tok) (md : Mod) (name lb : Tok) (es : List SEntryE) (rb : Tok)

/-- The embedding of the grammar of P2d (hence of P2b, P2). -/
abbrev embedP : List STopP → List STopE := List.map STopE.base

def printTopE : STopE → List Tok
  | .base t => printTopP t
  | .scriptE kw md name lb body rb => kw :: (md.toks ++ name :: lb :: (P1c.printStmts body ++ [rb]))
  | .mapscriptsE kw md name lb es rb => kw :: (md.toks ++ name :: lb :: (printEntriesE es ++ [rb]))

def printTopsE : List STopE → List Tok
  | [] => []
  | t :: r => printTopE t ++ printTopsE r

theorem printTopsE_append (a b : List STopE) : printTopsE (a ++ b) = printTopsE a ++ printTopsE b := by
  induction a with
  | nil => rfl
  | cons t r ih => simp [printTopsE, ih]

theorem printTopsE_embed (ts : List STopP) : printTopsE (embedP ts) = printTopsP ts := by
  induction ts with
  | nil => rfl
  | cons t r ih => simp only [embedP, List.map_cons, printTopsE, printTopsP, printTopE] at ih ⊢; rw [ih]

def STopE.kw : STopE → Tok
  | .base t => t.kw
  | .scriptE kw .. => kw
  | .mapscriptsE kw .. => kw

def STopE.last : STopE → Tok
  | .base t => t.last
  | .scriptE _ _ _ _ _ rb => rb
  | .mapscriptsE _ _ _ _ _ rb => rb

def STopE.isConst : STopE → Bool
  | .base t => t.isConst
  | _ => false

/-! ### well-formedness -/

def TopWFE : STopE → Prop
  | .base t => TopWFP t
  | .scriptE kw md name lb body rb =>
      kw.type = .SCRIPT ∧ md.WF ∧ name.type = .IDENT ∧ lb.type = .LBRACE ∧ P1c.SWF body ∧ rb.type = .RBRACE
  | .mapscriptsE kw md name lb es rb =>
      kw.type = .MAPSCRIPTS ∧ md.WF ∧ name.type = .IDENT ∧ lb.type = .LBRACE ∧ EntriesWFE es ∧ rb.type = .RBRACE

instance : DecidablePred P1c.SWF := fun b => by unfold P1c.SWF; exact inferInstance

instance : DecidablePred TopWFE := fun t => by cases t <;> unfold TopWFE <;> exact inferInstance

/-- A well-formed file: every statement is well-formed and a `const` is followed by another statement. -/
def TWFE : List STopE → Prop
  | [] => True
  | t :: r => TopWFE t ∧ (t.isConst = true → r ≠ []) ∧ TWFE r

def decTWFE : (ts : List STopE) → Decidable (TWFE ts)
  | [] => isTrue trivial
  | t :: r =>
    have := decTWFE r
    by unfold TWFE; exact inferInstance
instance : DecidablePred TWFE := decTWFE

theorem TWFE_embed (ts : List STopP) : TWFE (embedP ts) ↔ TWFP ts := by
  induction ts with
  | nil => exact Iff.rfl
  | cons t r ih =>
    simp only [embedP, List.map_cons, TWFE, TWFP, TopWFE, STopE.isConst] at ih ⊢
    rw [ih]
    simp

theorem TopWFE.kw_top {t : STopE} (h : TopWFE t) : t.kw.type ∈ Facts.topLevelTokens := by
  cases t with
  | base t => exact TopWFP.kw_top h
  | scriptE kw md name lb body rb =>
    simp only [TopWFE] at h
    simp [STopE.kw, h.1, Facts.topLevelTokens]
  | mapscriptsE kw md name lb es rb =>
    simp only [TopWFE] at h
    simp [STopE.kw, h.1, Facts.topLevelTokens]

/-! ### the reference elaboration -/

/-- What one top-level statement contributes and what it does to the parser state. -/
def stepTopE (env : Env) (t : STopE) (s : PState) : Except PFail (Option Top × PState) :=
  match t with
  | .base t => stepTopP env t s
  | .scriptE kw md name _ body _ =>
      match P1c.elabE env name.lit (ctxOf s) body with
      | .error e => .error e
      | .ok (stmts, imp, c') => .ok (some (.script (scriptOf kw md name stmts)), afterScript s imp c')
  | .mapscriptsE _ md name _ es _ =>
      match elabEntriesE env name.lit es (ctxOf s) with
      | .error e => .error e
      | .ok (mss, tbs, imp, c') => .ok (some (.mapscripts (mapScriptsOf md name mss tbs)), afterScript s imp c')

/-- **The reference elaboration of a file** whose script bodies are written in P1c's grammar. -/
def elabTopsE (env : Env) : List STopE → PState → Except PFail (List Top × PState)
  | [], s => .ok ([], s)
  | t :: r, s =>
      match stepTopE env t s with
      | .error e => .error e
      | .ok (o, s1) =>
        match elabTopsE env r s1 with
        | .error e => .error e
        | .ok (tops, s2) => .ok (optTop o ++ tops, s2)

/-- The parse result of a whole file (post-passes of `ParseProgram`: `P2.finish`). -/
def elabFileE (env : Env) (ts : List STopE) (s : PState) : Except PFail Program :=
  match elabTopsE env ts s with
  | .error e => .error e
  | .ok (tops, s') => finish tops s'

theorem elabTopsE_embed (env : Env) (ts : List STopP) (s : PState) :
    elabTopsE env (embedP ts) s = elabTopsP env ts s := by
  induction ts generalizing s with
  | nil => rfl
  | cons t r ih =>
    simp only [embedP, List.map_cons, elabTopsE, elabTopsP, stepTopE] at ih ⊢
    cases stepTopP env t s with
    | error e => rfl
    | ok q =>
      obtain ⟨o, s1⟩ := q
      simp only [ih]
      cases elabTopsP env r s1 with
      | error e => rfl
      | ok q1 => rfl

theorem elabFileE_embed (env : Env) (ts : List STopP) (s : PState) :
    elabFileE env (embedP ts) s = elabFileP env ts s := by
  unfold elabFileE elabFileP
  rw [elabTopsE_embed]
  cases elabTopsP env ts s with
  | error e => rfl
  | ok q => rfl

theorem elabTopsE_append (env : Env) (a b : List STopE) (s : PState) :
    elabTopsE env (a ++ b) s =
      match elabTopsE env a s with
      | .error e => .error e
      | .ok (t1, s1) =>
        match elabTopsE env b s1 with
        | .error e => .error e
        | .ok (t2, s2) => .ok (t1 ++ t2, s2) := by
  induction a generalizing s with
  | nil =>
    simp only [List.nil_append, elabTopsE]
    cases elabTopsE env b s with
    | error e => rfl
    | ok q => rfl
  | cons t r ih =>
    simp only [List.cons_append, elabTopsE]
    cases stepTopE env t s with
    | error e => rfl
    | ok q =>
      obtain ⟨o, s1⟩ := q
      simp only [ih]
      cases elabTopsE env r s1 with
      | error e => rfl
      | ok q1 =>
        obtain ⟨t1, s2⟩ := q1
        simp only
        cases elabTopsE env b s2 with
        | error e => rfl
        | ok q2 => simp

/-! ### fuel -/

def needTopE : STopE → Nat
  | .base t => needTopP t
  | .scriptE _ _ _ _ body _ => P1c.needL body
  | .mapscriptsE _ _ _ _ es _ => needEntriesE es

theorem needTopE_le (t : STopE) : needTopE t ≤ 2 * (printTopE t).length + 1 := by
  cases t with
  | base t => exact needTopP_le t
  | scriptE kw md name lb body rb =>
    have := P1c.needL_le body
    simp only [needTopE, printTopE, P1c.printStmts, List.length_cons, List.length_append, List.length_nil]
    omega
  | mapscriptsE kw md name lb es rb =>
    have := needEntries_leE es
    simp only [needTopE, printTopE, List.length_append, List.length_cons, List.length_nil]
    omega

end Pory.P2e
