import PoryProofs.StmtParse
/-
P1 (statement grammar), stage 3 companions: what the errors of the reference elaboration are.

* `Violation e` : `e` is one of the documented located errors (six violations of the statement grammar, three
  configuration errors of auto-var commands in conditions / `switch`, three environment errors of
  `poryswitch`); `elabL_error` (and its siblings): every error the reference elaboration returns is a
  `Violation` — so `parse_block_reject` says "the parser reports the documented located error of the first
  violation in source order".
* `elabL_append` : a statement list is elaborated left to right (the first violation wins; a statement that is
  followed by another statement is never "last"; implicit data is concatenated).
* `break_outside_rejected`, `continue_outside_rejected`, `continue_not_last_rejected` : the parser on a block
  whose first violation is that statement; `elabCases_dup`, `elabCases_second_default`, `elabS_empty_switch` :
  the three violations of a `switch`.
-/
namespace Pory.StmtG
open Pory Pory.Parser Pory.C02P Pory.C10b Pory.SwitchParse

/-- The documented violations, as the located errors the parser reports. -/
inductive Violation : PFail → Prop
  | breakOutside (t : Tok) : Violation (breakOutsideErr t)
  | continueOutside (t : Tok) : Violation (continueOutsideErr t)
  | continueNotLast (t : Tok) : Violation (continueNotLastErr t)
  | duplicateCase (c colon : Tok) (v : String) : Violation (duplicateCaseErr c colon v)
  | secondDefault (d : Tok) : Violation (secondDefaultErr d)
  | emptySwitch (sw rb : Tok) : Violation (emptySwitchErr sw rb)
  /-- a condition `name(…)` with `name` not a configured auto-var command -/
  | notLeaf (name : Tok) : Violation (notLeafErr name)
  /-- `switch (name(…))` with `name` not a configured auto-var command -/
  | notAutoVar (name : Tok) : Violation (notAutoVarErr name)
  /-- the configured argument position of the auto-var command of a `switch` addresses no argument -/
  | badPos (name rp2 : Tok) (pos : Int) (nargs : Nat) : Violation (badPosErr name rp2 pos nargs)
  /-- `poryswitch` with environment errors on and no `-s` option -/
  | noSwitches (ps : Tok) : Violation (noSwitchesErr ps)
  /-- `poryswitch (X)` with environment errors on and no `-s X=…` -/
  | undefinedSwitch (x : Tok) : Violation (undefinedSwitchErr x)
  /-- no case for the value of the switch and no `_` case (environment errors on) -/
  | noPoryCase (ps x : Tok) (v : String) : Violation (noPoryCaseErr ps x v)

theorem elabCond_error (env : Env) (σ : String → String) (c : SCond) (j : Nat) (e : PFail)
    (h : elabCond env σ c j = .error e) : Violation e := by
  cases c with
  | plain g => simp [elabCond] at h
  | auto fm name lp a0 more rp =>
    simp only [elabCond] at h
    split at h
    · injection h with h; subst h; exact .notLeaf name
    · split at h
      · injection h with h; subst h; exact .badPos name rp _ _
      · cases h

theorem err_inj {α} {e e' : PFail} (h : (Except.error e : Except PFail α) = .error e') : e = e' := by
  injection h

mutual
theorem elabS_error (env : Env) (sn : String) : (x : SStmt) → ∀ (σ : String → String) (B C : List Nat) (nx : Bool) (i j : Nat) (e : PFail),
    elabS env sn σ B C nx x i j = .error e → Violation e
  | .cmd .., _, _, _, _, _, _, _, h => by simp [elabS] at h
  | .cmdI .., _, _, _, _, _, _, _, h => by simp [elabS] at h
  | .cmdE .., _, _, _, _, _, _, _, h => by simp [elabS] at h
  | .cmd0 .., _, _, _, _, _, _, _, h => by simp [elabS] at h
  | .label .., _, _, _, _, _, _, _, h => by simp [elabS] at h
  | .labelS .., _, _, _, _, _, _, _, h => by simp [elabS] at h
  | .ite _ _ c _ _ body _ elifs els, σ, B, C, _, i, j, e, h => by
    simp only [elabS] at h
    split at h
    · rename_i e' h0; cases err_inj h; exact elabCond_error env _ c _ _ h0
    · split at h
      · rename_i e' h1; cases err_inj h; exact elabL_error env sn body _ _ _ _ _ _ _ h1
      · split at h
        · rename_i e' h2; cases err_inj h; exact elabElifs_error env sn elifs _ _ _ _ _ _ h2
        · split at h
          · rename_i e' h3; cases err_inj h; exact elabElse_error env sn els _ _ _ _ _ _ h3
          · cases h
  | .while_ _ _ c _ _ body _, σ, B, C, _, i, j, e, h => by
    simp only [elabS] at h
    split at h
    · rename_i e' h0; cases err_inj h; exact elabCond_error env _ c _ _ h0
    · split at h
      · rename_i e' h1; cases err_inj h; exact elabL_error env sn body _ _ _ _ _ _ _ h1
      · cases h
  | .whileInf _ _ body _, σ, B, C, _, i, j, e, h => by
    simp only [elabS] at h
    split at h
    · rename_i e' h1; cases err_inj h; exact elabL_error env sn body _ _ _ _ _ _ _ h1
    · cases h
  | .doWhile _ _ body _ _ _ c _, σ, B, C, _, i, j, e, h => by
    simp only [elabS] at h
    split at h
    · rename_i e' h1; cases err_inj h; exact elabL_error env sn body _ _ _ _ _ _ _ h1
    · split at h
      · rename_i e' h0; cases err_inj h; exact elabCond_error env _ c _ _ h0
      · cases h
  | .brk t, σ, B, C, _, i, j, e, h => by
    cases B with
    | nil => simp only [elabS] at h; cases err_inj h; exact .breakOutside t
    | cons b B' => simp [elabS] at h
  | .cont t, σ, B, C, nx, i, j, e, h => by
    cases C with
    | nil => simp only [elabS] at h; cases err_inj h; exact .continueOutside t
    | cons c C' =>
      cases nx with
      | true => simp [elabS] at h
      | false => simp only [elabS, Bool.false_eq_true, if_false] at h; cases err_inj h; exact .continueNotLast t
  | .switch_ sw _ _ _ _ _ _ _ cases rb, σ, B, C, _, i, j, e, h => by
    simp only [elabS] at h
    split at h
    · rename_i e' h1; cases err_inj h; exact elabCases_error env sn cases _ _ _ _ _ _ _ _ h1
    · split at h
      · cases err_inj h; exact .emptySwitch sw rb
      · cases h
  | .switchA sw _ name _ _ more rp2 _ _ cases rb, σ, B, C, _, i, j, e, h => by
    simp only [elabS] at h
    split at h
    · cases err_inj h; exact .notAutoVar name
    · split at h
      · cases err_inj h; exact .badPos name rp2 _ _
      · split at h
        · rename_i e' h1; cases err_inj h; exact elabCases_error env sn cases _ _ _ _ _ _ _ _ h1
        · split at h
          · cases err_inj h; exact .emptySwitch sw rb
          · cases h
  | .pory ps _ x _ _ cases _, σ, B, C, _, i, j, e, h => by
    simp only [elabS] at h
    split at h
    · cases err_inj h; exact .noSwitches ps
    · split at h
      · cases err_inj h; exact .undefinedSwitch x
      · split at h
        · rename_i e' h1; cases err_inj h; exact elabPCases_error env sn cases _ _ _ _ _ _ _ h1
        · split at h
          · cases h
          · split at h
            · cases err_inj h; exact .noPoryCase ps x _
            · cases h
theorem elabL_error (env : Env) (sn : String) : (b : List SStmt) → ∀ (σ : String → String) (B C : List Nat) (last : Bool) (i j : Nat)
    (e : PFail), elabL env sn σ B C last b i j = .error e → Violation e
  | [], _, _, _, _, _, _, _, h => by simp [elabL] at h
  | x :: r, σ, B, C, last, i, j, e, h => by
    simp only [elabL] at h
    split at h
    · rename_i e' h1; cases err_inj h; exact elabS_error env sn x _ _ _ _ _ _ _ h1
    · split at h
      · rename_i e' h2; cases err_inj h; exact elabL_error env sn r _ _ _ _ _ _ _ h2
      · cases h
theorem elabElifs_error (env : Env) (sn : String) : (es : List SElif) → ∀ (σ : String → String) (B C : List Nat) (i j : Nat) (e : PFail),
    elabElifs env sn σ B C es i j = .error e → Violation e
  | [], _, _, _, _, _, _, h => by simp [elabElifs] at h
  | .mk _ _ c _ _ body _ :: r, σ, B, C, i, j, e, h => by
    simp only [elabElifs] at h
    split at h
    · rename_i e' h0; cases err_inj h; exact elabCond_error env _ c _ _ h0
    · split at h
      · rename_i e' h1; cases err_inj h; exact elabL_error env sn body _ _ _ _ _ _ _ h1
      · split at h
        · rename_i e' h2; cases err_inj h; exact elabElifs_error env sn r _ _ _ _ _ _ h2
        · cases h
theorem elabElse_error (env : Env) (sn : String) : (el : SElse) → ∀ (σ : String → String) (B C : List Nat) (i j : Nat) (e : PFail),
    elabElse env sn σ B C el i j = .error e → Violation e
  | .none, _, _, _, _, _, _, h => by simp [elabElse] at h
  | .some _ _ body _, σ, B, C, i, j, e, h => by
    simp only [elabElse] at h
    split at h
    · rename_i e' h1; cases err_inj h; exact elabL_error env sn body _ _ _ _ _ _ _ h1
    · cases h
theorem elabCases_error (env : Env) (sn : String) : (cs : List SCase) → ∀ (σ : String → String) (B C : List Nat) (seen : List String)
    (hd : Bool) (i j : Nat) (e : PFail), elabCases env sn σ B C cs seen hd i j = .error e → Violation e
  | [], _, _, _, _, _, _, _, _, h => by simp [elabCases] at h
  | .case c vs colon body :: r, σ, B, C, seen, hd, i, j, e, h => by
    simp only [elabCases] at h
    split at h
    · cases err_inj h; exact .duplicateCase c colon _
    · split at h
      · rename_i e' h1; cases err_inj h; exact elabL_error env sn body _ _ _ _ _ _ _ h1
      · split at h
        · rename_i e' h2; cases err_inj h; exact elabCases_error env sn r _ _ _ _ _ _ _ _ h2
        · cases h
  | .dflt d _ body :: r, σ, B, C, seen, hd, i, j, e, h => by
    simp only [elabCases] at h
    split at h
    · cases err_inj h; exact .secondDefault d
    · split at h
      · rename_i e' h1; cases err_inj h; exact elabL_error env sn body _ _ _ _ _ _ _ h1
      · split at h
        · rename_i e' h2; cases err_inj h; exact elabCases_error env sn r _ _ _ _ _ _ _ _ h2
        · cases h
theorem elabPCases_error (env : Env) (sn : String) : (cs : List SPCase) → ∀ (σ : String → String) (B C : List Nat)
    (acc : List (String × List Stmt × ImpData)) (i j : Nat) (e : PFail),
    elabPCases env sn σ B C cs acc i j = .error e → Violation e
  | [], _, _, _, _, _, _, _, h => by simp [elabPCases] at h
  | .colon _ _ x :: r, σ, B, C, acc, i, j, e, h => by
    simp only [elabPCases] at h
    split at h
    · rename_i e' h1; cases err_inj h; exact elabS_error env sn x _ _ _ _ _ _ _ h1
    · exact elabPCases_error env sn r _ _ _ _ _ _ _ h
  | .brace _ _ body _ :: r, σ, B, C, acc, i, j, e, h => by
    simp only [elabPCases] at h
    split at h
    · rename_i e' h1; cases err_inj h; exact elabL_error env sn body _ _ _ _ _ _ _ h1
    · exact elabPCases_error env sn r _ _ _ _ _ _ _ h
end


/-! ### source order -/

/-- A list followed by further statements: its statements are never "last in the block". -/
theorem elabL_append (env : Env) (sn : String) (σ : String → String) (B C : List Nat) (last : Bool)
    (a b : List SStmt) (hb : b ≠ []) (i j : Nat) :
    elabL env sn σ B C last (a ++ b) i j =
      match elabL env sn σ B C false a i j with
      | .error e => .error e
      | .ok (x, m1, i1, j1) =>
        match elabL env sn σ B C last b i1 j1 with
        | .error e => .error e
        | .ok (y, m2, i2, j2) => .ok (x ++ y, m1.add m2, i2, j2) := by
  induction a generalizing i j with
  | nil =>
    simp only [List.nil_append, elabL]
    cases elabL env sn σ B C last b i j with
    | error e => rfl
    | ok v => obtain ⟨y, m2, i2, j2⟩ := v; simp [C10c.nil_add]
  | cons x r ih =>
    have hne : (r ++ b).isEmpty = false := by cases r <;> cases b <;> simp_all
    simp only [List.cons_append, elabL, hne, Bool.false_and, Bool.and_false]
    cases elabS env sn σ B C false x i j with
    | error e => rfl
    | ok v =>
      obtain ⟨x', m1, i1, j1⟩ := v
      simp only [ih]
      cases elabL env sn σ B C false r i1 j1 with
      | error e => rfl
      | ok w =>
        obtain ⟨r', m2, i2, j2⟩ := w
        simp only
        cases elabL env sn σ B C last b i2 j2 with
        | error e => rfl
        | ok u => obtain ⟨y, m3, i3, j3⟩ := u; simp [C10c.add_assoc]

/-! ### the violations of `switch` -/

theorem elabCases_dup (env : Env) (sn : String) (σ : String → String) (B C : List Nat) (c : Tok) (vs : List Tok) (colon : Tok)
    (body : List SStmt) (r : List SCase) (seen : List String) (hd : Bool) (i j : Nat)
    (h : caseValue σ vs ∈ seen) :
    elabCases env sn σ B C (.case c vs colon body :: r) seen hd i j =
      .error (duplicateCaseErr c colon (caseValue σ vs)) := by
  simp [elabCases, h]

theorem elabCases_second_default (env : Env) (sn : String) (σ : String → String) (B C : List Nat) (d colon : Tok)
    (body : List SStmt) (r : List SCase) (seen : List String) (i j : Nat) :
    elabCases env sn σ B C (.dflt d colon body :: r) seen true i j = .error (secondDefaultErr d) := by
  simp [elabCases]

theorem elabS_empty_switch (env : Env) (sn : String) (σ : String → String) (B C : List Nat) (nx : Bool) (sw lp v lp2 : Tok)
    (ops : List Tok) (rp2 rp lb rb : Tok) (i j : Nat) :
    elabS env sn σ B C nx (.switch_ sw lp v lp2 ops rp2 rp lb [] rb) i j = .error (emptySwitchErr sw rb) := by
  simp [elabS, elabCases]

/-! ### `break` / `continue` at the top level of a block -/
section
variable (env : Env) (sn : String) (startTok : Tok) (pre post : List SStmt) (t rb : Tok) (rest : List Tok)
  (s : PState) (fuel : Nat) (a : List Stmt) (m1 : ImpData) (i1 j1 : Nat)

/-- `break` outside every loop / switch (the statements before it being fine). -/
theorem break_outside_rejected (hwf : SWF (pre ++ .brk t :: post)) (hrb : rb.type = .RBRACE)
    (htoks : s.toks = printStmts (pre ++ .brk t :: post) ++ rb :: rest)
    (hfuel : needL (pre ++ .brk t :: post) ≤ fuel) (hB : s.breakStack = [])
    (hpre : elabL env sn (substC s.constants) [] s.continueStack false pre s.nextSid s.nextCmdId = .ok (a, m1, i1, j1)) :
    (parseBlockStatement env sn startTok fuel [] {}).run s = .error (breakOutsideErr t) := by
  apply parse_block_reject env sn startTok _ rb rest hwf hrb s htoks fuel hfuel
  unfold elabE ctxOf
  simp only [hB, elabL_append _ _ _ _ _ _ pre (.brk t :: post) (by simp), hpre, elabL, elabS]

/-- `continue` outside every loop. -/
theorem continue_outside_rejected (hwf : SWF (pre ++ .cont t :: post)) (hrb : rb.type = .RBRACE)
    (htoks : s.toks = printStmts (pre ++ .cont t :: post) ++ rb :: rest)
    (hfuel : needL (pre ++ .cont t :: post) ≤ fuel) (hC : s.continueStack = [])
    (hpre : elabL env sn (substC s.constants) s.breakStack [] false pre s.nextSid s.nextCmdId = .ok (a, m1, i1, j1)) :
    (parseBlockStatement env sn startTok fuel [] {}).run s = .error (continueOutsideErr t) := by
  apply parse_block_reject env sn startTok _ rb rest hwf hrb s htoks fuel hfuel
  unfold elabE ctxOf
  simp only [hC, elabL_append _ _ _ _ _ _ pre (.cont t :: post) (by simp), hpre, elabL, elabS]

/-- `continue` inside a loop but followed by another statement. -/
theorem continue_not_last_rejected (x : SStmt) (hwf : SWF (pre ++ .cont t :: x :: post))
    (hrb : rb.type = .RBRACE) (htoks : s.toks = printStmts (pre ++ .cont t :: x :: post) ++ rb :: rest)
    (hfuel : needL (pre ++ .cont t :: x :: post) ≤ fuel) (k : Nat) (C' : List Nat)
    (hC : s.continueStack = k :: C')
    (hpre : elabL env sn (substC s.constants) s.breakStack (k :: C') false pre s.nextSid s.nextCmdId =
      .ok (a, m1, i1, j1)) :
    (parseBlockStatement env sn startTok fuel [] {}).run s = .error (continueNotLastErr t) := by
  apply parse_block_reject env sn startTok _ rb rest hwf hrb s htoks fuel hfuel
  unfold elabE ctxOf
  simp only [hC, elabL_append _ _ _ _ _ _ pre (.cont t :: x :: post) (by simp), hpre, elabL, elabS,
    List.isEmpty_cons, Bool.false_and, Bool.false_eq_true, if_false]

end

end Pory.StmtG
