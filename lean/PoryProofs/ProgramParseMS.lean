import PoryProofs.ProgramGrammarMS
/-
P2b (whole-file grammar with `mapscripts`), stage 2: the parser model on printed files of the extended grammar.

* `block_run`        : `parseBlockStatement` on a printed body (P1, restated with `setC`);
* `rows_run`         : the row loop `parseTableEntries` on printed rows = `elabRows` (errors included);
* `entries_run`      : the entry loop `parseMapScriptEntries` on printed entries = `elabEntries`;
* `top_mapscripts`   : `parseTopLevelStatement` on a printed `mapscripts` statement = `stepTopM`;
* `parse_top_step_ms`: one statement of the extended grammar (old kinds through `P2.parse_top_step`);
* `topLoopM_elab`, `parseProgramM_elabM`, `parseTokens_elabM`: the loop, the post-passes, the model's fuel.
-/
namespace Pory.P2b
open Pory Pory.Parser Pory.C02P Pory.StmtG Pory.TopParse Pory.P2
open Pory.MapScriptsParse
open Pory.C12c (addImp)

/-! ### the two id counters -/

/-- The state with the two id counters of a context. -/
def setC (s : PState) (c : Ctx) : PState := { s with nextSid := c.nextSid, nextCmdId := c.nextCmdId }

theorem setC_self (s : PState) : setC s (ctxOf s) = s := rfl
theorem st_setC (s : PState) (c : Ctx) (l : List Tok) : st (setC s c) l = setC (st s l) c := rfl
theorem setC_setC (s : PState) (c c' : Ctx) : setC (setC s c) c' = setC s c' := rfl
theorem ctxOf_st (s : PState) (l : List Tok) : ctxOf (st s l) = ctxOf s := rfl
theorem ctxOf_consts (s : PState) : (ctxOf s).consts = s.constants := rfl

theorem ctxOf_setC_of_elabE {env : Env} {sn : String} {s : PState} {b : List SStmt} {stmts : List Stmt}
    {imp : ImpData} {c' : Ctx} (h : elabE env sn (ctxOf s) b = .ok (stmts, imp, c')) :
    ctxOf (setC s c') = c' := by
  unfold elabE at h
  split at h
  · cases h
  · cases h; rfl

/-- `c'` differs from `c` in the two id counters only. -/
def SameFrame (c c' : Ctx) : Prop :=
  c'.consts = c.consts ∧ c'.breakStack = c.breakStack ∧ c'.continueStack = c.continueStack

theorem SameFrame.refl (c : Ctx) : SameFrame c c := ⟨rfl, rfl, rfl⟩
theorem SameFrame.trans {a b c : Ctx} (h1 : SameFrame a b) (h2 : SameFrame b c) : SameFrame a c :=
  ⟨h2.1.trans h1.1, h2.2.1.trans h1.2.1, h2.2.2.trans h1.2.2⟩

theorem elabE_sameFrame {env : Env} {sn : String} {c c' : Ctx} {b : List SStmt} {stmts : List Stmt}
    {imp : ImpData} (h : elabE env sn c b = .ok (stmts, imp, c')) : SameFrame c c' := by
  obtain ⟨h1, h2, h3⟩ := elabE_stacks h
  exact ⟨h3, h1, h2⟩

theorem ctxOf_setC {s : PState} {c' : Ctx} (h : SameFrame (ctxOf s) c') : ctxOf (setC s c') = c' := by
  obtain ⟨h1, h2, h3⟩ := h
  cases c'
  simp only [ctxOf] at h1 h2 h3
  simp only [ctxOf, setC, h1, h2, h3]

theorem elabRows_sameFrame (env : Env) (ms ty : String) :
    ∀ (rows : List SRow) (i : Nat) (c : Ctx) (es : List TableEntry) (imp : ImpData) (c' : Ctx),
      elabRows env ms ty rows i c = .ok (es, imp, c') → SameFrame c c'
  | [], i, c, es, imp, c', h => by
    simp only [elabRows] at h
    cases h
    exact SameFrame.refl _
  | .plain cs comma vs colon name :: rs, i, c, es, imp, c', h => by
    simp only [elabRows] at h
    split at h
    · cases h
    · split at h
      · cases h
      · cases hr : elabRows env ms ty rs (i + 1) c with
        | error e => rw [hr] at h; cases h
        | ok r =>
          obtain ⟨es1, imp1, c1⟩ := r
          rw [hr] at h
          cases h
          exact elabRows_sameFrame env ms ty rs (i + 1) c _ _ _ hr
  | .inline cs comma vs lb body rb :: rs, i, c, es, imp, c', h => by
    simp only [elabRows] at h
    split at h
    · cases h
    · split at h
      · cases h
      · cases he : elabE env (rowName ms ty i) c body with
        | error e => rw [he] at h; cases h
        | ok r0 =>
          obtain ⟨stmts, bimp, c0⟩ := r0
          rw [he] at h
          simp only at h
          cases hr : elabRows env ms ty rs (i + 1) c0 with
          | error e => rw [hr] at h; cases h
          | ok r =>
            obtain ⟨es1, imp1, c1⟩ := r
            rw [hr] at h
            cases h
            exact (elabE_sameFrame he).trans (elabRows_sameFrame env ms ty rs (i + 1) c0 _ _ _ hr)

theorem impData_empty_add (a : ImpData) : ImpData.add {} a = a := by
  cases a; simp [ImpData.add]

theorem impData_add_assoc (a b c : ImpData) : (a.add b).add c = a.add (b.add c) := by
  simp [ImpData.add, List.append_assoc]

/-- P1 on a printed body, the resulting state written with `setC`. -/
theorem block_run (env : Env) (sn : String) (lb : Tok) (b : List SStmt) (rb : Tok) (rest : List Tok)
    (s : PState) (n : Nat) (hwf : SWF b) (hrb : rb.type = .RBRACE) (hn : needL b ≤ n) :
    (parseBlockStatement env sn lb n [] {}).run (st s (printStmts b ++ rb :: rest)) =
      match elabE env sn (ctxOf s) b with
      | .ok (stmts, imp, c') => .ok ((stmts, imp), st (setC s c') (rb :: rest))
      | .error e => .error e := by
  have h := StmtG.parse_block_elab env sn lb b rb rest hwf hrb (st s (printStmts b ++ rb :: rest)) rfl n hn
  rw [ctxOf_st] at h
  rw [h]
  cases elabE env sn (ctxOf s) b with
  | error e => rfl
  | ok r => obtain ⟨stmts, imp, c'⟩ := r; rfl

/-! ### the row loop -/

theorem rows_run (env : Env) (ms ty : String) :
    ∀ (rows : List SRow) (n i : Nat) (acc : List TableEntry) (imp : ImpData) (s : PState) (rbr : Tok)
      (rest : List Tok), RowsWF rows → rbr.type = .RBRACKET → needRows rows ≤ n →
      (parseTableEntries env ms ty n i acc imp).run (st s (printRows rows ++ rbr :: rest)) =
        match elabRows env ms ty rows i (ctxOf s) with
        | .error e => .error e
        | .ok (es, imp', c') => .ok ((acc ++ es, imp.add imp'), st (setC s c') (rbr :: rest))
  | [], n, i, acc, imp, s, rbr, rest, _, hrbr, hn => by
    obtain ⟨m, rfl⟩ : ∃ m, n = m + 1 := ⟨n - 1, by simp only [needRows] at hn; omega⟩
    simp only [printRows, List.nil_append, elabRows]
    rw [trow_done env ms ty m i acc imp _ (by simpa using hrbr)]
    simp only [List.append_nil, impData_add_empty, setC_self]
  | .plain cs comma vs colon name :: rs, n, i, acc, imp, s, rbr, rest, hwf, hrbr, hn => by
    obtain ⟨m, rfl⟩ : ∃ m, n = m + 1 := ⟨n - 1, by simp only [needRows] at hn; omega⟩
    obtain ⟨⟨hsyn, hcolon, hname⟩, hwf'⟩ := hwf
    obtain ⟨g0, g1, g2, g3, g4, g5⟩ := hsyn
    simp only [needRows, needRow] at hn
    have hn1 : cs.length < m := by omega
    have hn2 : vs.length < m := by omega
    have hwin : printRows (.plain cs comma vs colon name :: rs) ++ rbr :: rest =
        cs ++ comma :: (vs ++ colon :: name :: (printRows rs ++ rbr :: rest)) := by
      simp [printRows, printRow]
    rw [hwin]
    simp only [elabRows, ctxOf_consts]
    by_cases h1 : collVal s.constants cs = ""
    · rw [trow_empty_condition env ms ty m i acc imp s cs comma _ g0 g1 g2 g3 hn1 h1]
      simp only [h1, if_true, emptyCondErr]
    · by_cases h2 : collVal s.constants vs = ""
      · rw [trow_empty_comparison env ms ty m i acc imp s cs comma vs colon _ g0 g1 g2 g3 hn1 h1 g4 g5
          (Or.inl hcolon) hn2 h2]
        simp only [h1, h2, if_true, if_false, emptyCmpErr]
      · rw [trow_plain env ms ty m i acc imp s cs comma vs colon name _
          ⟨⟨g0, g1, g2, g3, g4, g5, h1, h2⟩, hcolon, hname⟩ hn1 hn2,
          rows_run env ms ty rs m (i + 1) _ imp s rbr rest hwf' hrbr (by omega)]
        simp only [h1, h2, if_false]
        cases elabRows env ms ty rs (i + 1) (ctxOf s) with
        | error e => rfl
        | ok r =>
          obtain ⟨es, imp', c'⟩ := r
          simp only [List.append_assoc, List.singleton_append]
          rfl
  | .inline cs comma vs lb body rb :: rs, n, i, acc, imp, s, rbr, rest, hwf, hrbr, hn => by
    obtain ⟨m, rfl⟩ : ∃ m, n = m + 1 := ⟨n - 1, by simp only [needRows] at hn; omega⟩
    obtain ⟨⟨hsyn, hlb, hbody, hrb⟩, hwf'⟩ := hwf
    obtain ⟨g0, g1, g2, g3, g4, g5⟩ := hsyn
    simp only [needRows, needRow] at hn
    have hn1 : cs.length < m := by omega
    have hn2 : vs.length < m := by omega
    have hwin : printRows (.inline cs comma vs lb body rb :: rs) ++ rbr :: rest =
        cs ++ comma :: (vs ++ lb :: (printStmts body ++ rb :: (printRows rs ++ rbr :: rest))) := by
      simp [printRows, printRow]
    rw [hwin]
    simp only [elabRows, ctxOf_consts]
    by_cases h1 : collVal s.constants cs = ""
    · rw [trow_empty_condition env ms ty m i acc imp s cs comma _ g0 g1 g2 g3 hn1 h1]
      simp only [h1, if_true, emptyCondErr]
    · by_cases h2 : collVal s.constants vs = ""
      · rw [trow_empty_comparison env ms ty m i acc imp s cs comma vs lb _ g0 g1 g2 g3 hn1 h1 g4 g5
          (Or.inr hlb) hn2 h2]
        simp only [h1, h2, if_true, if_false, emptyCmpErr]
      · rw [trow_inline env ms ty m i acc imp s cs comma vs lb _ ⟨g0, g1, g2, g3, g4, g5, h1, h2⟩ hlb hn1 hn2,
          block_run env (rowName ms ty i) lb body rb _ s m hbody hrb (by omega)]
        simp only [h1, h2, if_false]
        cases he : elabE env (rowName ms ty i) (ctxOf s) body with
        | error e => rfl
        | ok r =>
          obtain ⟨stmts, bimp, c1⟩ := r
          simp only [afterRowBody, st_toks, List.tail_cons, st_st]
          rw [rows_run env ms ty rs m (i + 1) _ (imp.add bimp) (setC s c1) rbr rest hwf' hrbr (by omega),
            ctxOf_setC_of_elabE he]
          cases elabRows env ms ty rs (i + 1) c1 with
          | error e => rfl
          | ok r =>
            obtain ⟨es, imp', c'⟩ := r
            simp only [List.append_assoc, List.singleton_append, impData_add_assoc, setC_setC]
            rfl

/-! ### the entry loop -/

theorem entries_run (env : Env) (ms : String) :
    ∀ (es : List SEntry) (n : Nat) (mss : List MapScript) (tables : List TableMapScript) (imp : ImpData)
      (s : PState) (rb : Tok) (rest : List Tok), EntriesWF es → rb.type = .RBRACE → needEntries es ≤ n →
      (parseMapScriptEntries env ms n mss tables imp).run (st s (printEntries es ++ rb :: rest)) =
        match elabEntries env ms es (ctxOf s) with
        | .error e => .error e
        | .ok (mss', tbs', imp', c') =>
          .ok ((mss ++ mss', tables ++ tbs', imp.add imp'), st (setC s c') (rb :: rest))
  | [], n, mss, tables, imp, s, rb, rest, _, hrb, hn => by
    obtain ⟨m, rfl⟩ : ∃ m, n = m + 1 := ⟨n - 1, by simp only [needEntries] at hn; omega⟩
    simp only [printEntries, List.nil_append, elabEntries]
    rw [ment_done env ms m mss tables imp _ (by simpa using hrb)]
    simp only [List.append_nil, impData_add_empty, setC_self]
  | .plain ty colon name :: es, n, mss, tables, imp, s, rb, rest, hwf, hrb, hn => by
    obtain ⟨m, rfl⟩ : ∃ m, n = m + 1 := ⟨n - 1, by simp only [needEntries] at hn; omega⟩
    obtain ⟨hwf1, hwf'⟩ := hwf
    simp only [needEntries, needEntry] at hn
    have hwin : printEntries (.plain ty colon name :: es) ++ rb :: rest =
        ty :: colon :: name :: (printEntries es ++ rb :: rest) := by
      simp [printEntries, printEntry]
    rw [hwin, ment_plain env ms m mss tables imp s ty colon name _ hwf1,
      entries_run env ms es m _ tables imp s rb rest hwf' hrb (by omega)]
    simp only [elabEntries]
    cases elabEntries env ms es (ctxOf s) with
    | error e => rfl
    | ok r =>
      obtain ⟨mss', tbs', imp', c'⟩ := r
      simp only [List.append_assoc, List.singleton_append]
  | .inline ty lb body rbb :: es, n, mss, tables, imp, s, rb, rest, hwf, hrb, hn => by
    obtain ⟨m, rfl⟩ : ∃ m, n = m + 1 := ⟨n - 1, by simp only [needEntries] at hn; omega⟩
    obtain ⟨⟨hty, hlb, hbody, hrbb⟩, hwf'⟩ := hwf
    simp only [needEntries, needEntry] at hn
    have hwin : printEntries (.inline ty lb body rbb :: es) ++ rb :: rest =
        ty :: lb :: (printStmts body ++ rbb :: (printEntries es ++ rb :: rest)) := by
      simp [printEntries, printEntry]
    rw [hwin, ment_inline env ms m mss tables imp s ty lb _ hty hlb,
      block_run env (entryName ms ty.lit) lb body rbb _ s m hbody hrbb (by omega)]
    simp only [elabEntries]
    cases he : elabE env (entryName ms ty.lit) (ctxOf s) body with
    | error e => rfl
    | ok r =>
      obtain ⟨stmts, bimp, c1⟩ := r
      simp only [afterEntryBody, st_toks, List.tail_cons, st_st]
      rw [entries_run env ms es m _ tables (imp.add bimp) (setC s c1) rb rest hwf' hrb (by omega),
        ctxOf_setC_of_elabE he]
      cases elabEntries env ms es c1 with
      | error e => rfl
      | ok r =>
        obtain ⟨mss', tbs', imp', c'⟩ := r
        simp only [List.append_assoc, List.singleton_append, impData_add_assoc, setC_setC]
        rfl
  | .table ty lbr rows rbr :: es, n, mss, tables, imp, s, rb, rest, hwf, hrb, hn => by
    obtain ⟨m, rfl⟩ : ∃ m, n = m + 1 := ⟨n - 1, by simp only [needEntries] at hn; omega⟩
    obtain ⟨⟨hty, hlbr, hrows, hrbr⟩, hwf'⟩ := hwf
    simp only [needEntries, needEntry] at hn
    have hwin : printEntries (.table ty lbr rows rbr :: es) ++ rb :: rest =
        ty :: lbr :: (printRows rows ++ rbr :: (printEntries es ++ rb :: rest)) := by
      simp [printEntries, printEntry]
    rw [hwin, ment_table env ms m mss tables imp s ty lbr _ hty hlbr,
      rows_run env ms ty.lit rows m 0 [] {} s rbr _ hrows hrbr (by omega)]
    simp only [elabEntries]
    cases he : elabRows env ms ty.lit rows 0 (ctxOf s) with
    | error e => rfl
    | ok r =>
      obtain ⟨entries, rimp, c1⟩ := r
      have hc1 : ctxOf (setC s c1) = c1 := ctxOf_setC (elabRows_sameFrame env ms ty.lit rows 0 _ _ _ _ he)
      simp only [afterTable, st_toks, List.tail_cons, st_st, List.nil_append, impData_empty_add]
      rw [entries_run env ms es m mss _ (imp.add rimp) (setC s c1) rb rest hwf' hrb (by omega), hc1]
      cases elabEntries env ms es c1 with
      | error e => rfl
      | ok r =>
        obtain ⟨mss', tbs', imp', c'⟩ := r
        simp only [List.append_assoc, List.singleton_append, impData_add_assoc, setC_setC]

/-! ### the statement -/

/-- `mapscripts [(mod)] Name {` followed by a body the entry loop rejects: the same error. -/
theorem parse_mapscripts_statement_err (env : Env) (fuel : Nat) (s : PState) (kw : Tok) (md : Mod)
    (name lb : Tok) (body : List Tok) (hmd : md.WF) (hname : name.type = .IDENT)
    (hlb : lb.type = .LBRACE) (e : PFail)
    (hbody : (parseMapScriptEntries env name.lit fuel [] [] {}).run (st s body) = .error e) :
    (parseMapscriptsStatement env fuel).run (st s (kw :: (md.toks ++ name :: lb :: body))) = .error e := by
  unfold parseMapscriptsStatement
  simp [scope_mod _ s kw md name (lb :: body) hmd (by simp [hname]), hname, hlb, hbody]

theorem top_mapscripts (env : Env) (fuel : Nat) (s : PState) (kw : Tok) (md : Mod) (name lb : Tok)
    (es : List SEntry) (rb : Tok) (rest : List Tok) (hkw : kw.type = .MAPSCRIPTS) (hmd : md.WF)
    (hname : name.type = .IDENT) (hlb : lb.type = .LBRACE) (hwf : EntriesWF es) (hrb : rb.type = .RBRACE)
    (hfuel : needEntries es ≤ fuel) :
    (parseTopLevelStatement env fuel).run
        (st s (kw :: (md.toks ++ name :: lb :: (printEntries es ++ rb :: rest)))) =
      match stepTopM env (.mapscripts kw md name lb es rb) s with
      | .error e => .error e
      | .ok (o, s') => .ok (o, st s' (rb :: rest)) := by
  have hb := entries_run env name.lit es fuel [] [] {} s rb rest hwf hrb hfuel
  unfold parseTopLevelStatement stepTopM
  cases he : elabEntries env name.lit es (ctxOf s) with
  | error e =>
    rw [he] at hb
    have := parse_mapscripts_statement_err env fuel s kw md name lb _ hmd hname hlb e hb
    simp [hkw, this, he]
  | ok r =>
    obtain ⟨mss, tbs, imp, c'⟩ := r
    rw [he] at hb
    simp only [List.nil_append, impData_empty_add] at hb
    have := C15b.parse_mapscripts_statement_gen env fuel s kw md name lb _ hmd hname hlb _ _ hb
    simp [hkw, this, he, C12c.addImplicitData_run, afterScript, mapScriptsOf]
    rw [addImp_st]
    rfl

/-- **One top-level statement of the extended grammar.** -/
theorem parse_top_step_ms (env : Env) (fuel : Nat) (t : STopM) (s : PState) (nx : Tok) (rest : List Tok)
    (hwf : TopWFM t) (hnx : t.isConst = true → nx.type ∈ Facts.topLevelTokens) (hf : needTopM t ≤ fuel) :
    (parseTopLevelStatement env fuel).run (st s (printTopM t ++ nx :: rest)) =
      match stepTopM env t s with
      | .error e => .error e
      | .ok (o, s') => .ok (o, st s' (t.last :: nx :: rest)) := by
  cases t with
  | base t => exact parse_top_step env fuel t s nx rest hwf hnx hf
  | mapscripts kw md name lb es rb =>
    obtain ⟨h1, h2, h3, h4, h5, h6⟩ := hwf
    have := top_mapscripts env fuel s kw md name lb es rb (nx :: rest) h1 h2 h3 h4 h5 h6 hf
    simpa [printTopM, STopM.last] using this

/-! ### the top-level loop -/

theorem printTopM_head (t : STopM) : ∃ tl, printTopM t = t.kw :: tl := by
  cases t with
  | base t => exact printTop_head t
  | mapscripts => exact ⟨_, rfl⟩

/-- **The top-level loop on a printed file of the extended grammar** is its reference elaboration. -/
theorem topLoopM_elab (env : Env) (fuel : Nat) (eofT : Tok) (tl : List Tok) (heof : eofT.type = .EOF) :
    ∀ (ts : List STopM) (n : Nat) (acc : List Top) (s : PState), TWFM ts → ts.length + 1 ≤ n →
      (∀ t ∈ ts, needTopM t ≤ fuel) →
      (topLoop env fuel n acc).run (st s (printTopsM ts ++ eofT :: tl)) =
        match elabTopsM env ts s with
        | .error e => .error e
        | .ok (tops, s') => .ok (acc ++ tops, st s' (eofT :: tl))
  | [], n, acc, s, _, hn, _ => by
    obtain ⟨m, rfl⟩ : ∃ m, n = m + 1 := ⟨n - 1, by simp at hn; omega⟩
    rw [topLoop_succ]
    simp [printTopsM, elabTopsM, heof]
  | t :: r, n, acc, s, hwf, hn, hf => by
    obtain ⟨m, rfl⟩ : ∃ m, n = m + 1 := ⟨n - 1, by simp at hn; omega⟩
    obtain ⟨h1, h2, h3⟩ := hwf
    obtain ⟨nx, rest, hw, hnx⟩ : ∃ nx rest, printTopsM r ++ eofT :: tl = nx :: rest ∧
        (t.isConst = true → nx.type ∈ Facts.topLevelTokens) := by
      cases r with
      | nil => exact ⟨eofT, tl, rfl, fun hc => absurd rfl (h2 hc)⟩
      | cons t2 r2 =>
        obtain ⟨tl2, htl2⟩ := printTopM_head t2
        refine ⟨t2.kw, tl2 ++ (printTopsM r2 ++ eofT :: tl), by simp [printTopsM, htl2], fun _ => h3.1.kw_top⟩
    have hstep := parse_top_step_ms env fuel t s nx rest h1 hnx (hf t (by simp))
    obtain ⟨tl1, htl1⟩ := printTopM_head t
    have hkw : (t.kw.type == TT.EOF) = false := by
      have := h1.kw_top
      cases hk : t.kw.type <;> simp_all [Facts.topLevelTokens]
    have hwin : printTopsM (t :: r) ++ eofT :: tl = printTopM t ++ nx :: rest := by
      simp [printTopsM, hw]
    rw [topLoop_succ, hwin]
    simp only [StateT.run_bind, run_curIs, ex_bind_ok, st_toks, htl1, List.cons_append, List.headD_cons, hkw,
      Bool.false_eq_true, if_false]
    rw [← List.cons_append, ← htl1, hstep]
    simp only [elabTopsM]
    cases hs : stepTopM env t s with
    | error e => simp
    | ok q =>
      obtain ⟨o, s1⟩ := q
      have ih := topLoopM_elab env fuel eofT tl heof r m (acc ++ optTop o) s1 h3 (by simp at hn; omega)
        (fun x hx => hf x (by simp [hx]))
      simp only [ex_bind_ok, run_nextToken, st_toks, List.tail_cons, st_st, acc_optTop]
      rw [← hw, ih]
      cases elabTopsM env r s1 with
      | error e => rfl
      | ok q2 => obtain ⟨tops, s2⟩ := q2; simp

/-! ### `ParseProgram` -/

theorem parseProgramM_elabM (env : Env) (fuel : Nat) (eofT : Tok) (tl : List Tok) (heof : eofT.type = .EOF)
    (ts : List STopM) (s : PState) (hwf : TWFM ts) (hn : ts.length + 1 ≤ fuel)
    (hf : ∀ t ∈ ts, needTopM t ≤ fuel) :
    (parseProgramM env fuel).run (st s (printTopsM ts ++ eofT :: tl)) =
      match elabTopsM env ts s with
      | .error e => .error e
      | .ok (tops, s') =>
        match finish tops s' with
        | .error e => .error e
        | .ok p => .ok (p, st s' (eofT :: tl)) := by
  unfold parseProgramM
  simp only [StateT.run_bind, topLoopM_elab env fuel eofT tl heof ts fuel [] s hwf hn hf, List.nil_append]
  cases elabTopsM env ts s with
  | error e => simp
  | ok q =>
    obtain ⟨tops, s'⟩ := q
    simp only [ex_bind_ok, run_get, finish, dupTextErr, dupMovementErr]
    have h1 : (st s' (eofT :: tl)).inlineTexts = s'.inlineTexts := rfl
    have h2 : (st s' (eofT :: tl)).textStatements = s'.textStatements := rfl
    have h3 : (st s' (eofT :: tl)).inlineMovements = s'.inlineMovements := rfl
    have h4 : (st s' (eofT :: tl)).patches = s'.patches := rfl
    simp only [h1, h2, h3, h4]
    cases firstDuplicateText (s'.inlineTexts ++ s'.textStatements) [] with
    | some t => simp
    | none =>
      dsimp only
      cases firstDuplicateMovement (tops ++ List.map Top.movement s'.inlineMovements) [] with
      | some q => obtain ⟨tok, name⟩ := q; simp
      | none => simp

theorem length_le_printTopsM : ∀ (ts : List STopM), ts.length ≤ (printTopsM ts).length
  | [] => Nat.le_refl _
  | t :: r => by
    obtain ⟨tl, h⟩ := printTopM_head t
    have := length_le_printTopsM r
    simp only [printTopsM, List.length_cons, List.length_append, h]
    omega

theorem printTopM_length_le {t : STopM} :
    ∀ {ts : List STopM}, t ∈ ts → (printTopM t).length ≤ (printTopsM ts).length
  | x :: r, h => by
    simp only [printTopsM, List.length_append]
    rcases List.mem_cons.1 h with rfl | h
    · omega
    · have := printTopM_length_le h; omega

/-- **`parseTokens` on a printed file of the extended grammar**, with the model's own fuel `4 * tokens + 50`. -/
theorem parseTokens_elabM (env : Env) (eofT : Tok) (heof : eofT.type = .EOF) (ts : List STopM) (hwf : TWFM ts) :
    parseTokens env (printTopsM ts ++ [eofT]) = elabFileM env ts (initState eofT) := by
  unfold parseTokens elabFileM
  have hl : (printTopsM ts ++ [eofT]).getLastD { type := .EOF } = eofT := by simp
  have hs : ({ toks := printTopsM ts ++ [eofT], eof := eofT } : PState) =
      st (initState eofT) (printTopsM ts ++ [eofT]) := rfl
  have hlen := length_le_printTopsM ts
  simp only [hl, hs, StateT.run']
  have h := parseProgramM_elabM env (4 * (printTopsM ts ++ [eofT]).length + 50) eofT [] heof ts (initState eofT)
    hwf (by simp only [List.length_append, List.length_cons, List.length_nil]; omega)
    (fun t ht => by
      have h1 := needTopM_le t
      have h2 := printTopM_length_le ht
      simp only [List.length_append, List.length_cons, List.length_nil]; omega)
  unfold StateT.run at h
  rw [h]
  cases elabTopsM env ts (initState eofT) with
  | error e => rfl
  | ok q =>
    obtain ⟨tops, s'⟩ := q
    simp only
    cases finish tops s' <;> rfl

end Pory.P2b
