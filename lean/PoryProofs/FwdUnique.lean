import PoryProofs.TableFacts
/-
`scriptChunks_fwdUnique`: for a script whose `break` / `continue` statements are well scoped
(`ScopesWellFormed`) and whose scope ids are pairwise distinct (`ScopeIdsDistinct`) — both parser
guarantees — the chunk table built by the worklist has **unique forward tail edges**: two chunks
whose `tailId` is the same chunk `d` with an id larger than both are the same chunk.

Why: the only tails that can point forward (to a larger id) are "jump-like" ones (`jt`: a `.jump`
branch or the `default` of a `switch`), and every id is the jump-like tail of at most one chunk
(`FInv.jti`; true for every AST).  All other tails point backwards (`FInv.back`): return ids and the
`false` exits of leaves are allocated before the chunk; the target of a `break` / `continue` was
registered before the chunk containing it was created — this is where the two hypotheses are used
(`ScopeB`): without them a `continue` can pick up a loop header allocated later (see the
counterexample in `Properties/C05c.lean`).

Method (as in `TableFacts.lean`): `FO` abstracts a chunk builder, `StepF` one worklist step
(`process_fu`), `FInv` is the invariant of the run; `Inv` / `step_ext` (`Worklist.lean`) provide the
stability of the scope tables, `TInv` (`TableFacts.lean`) the bound `mentions ≤ counter`.
-/
namespace Pory.Emit
open Pory Pory.Sem

/-- jump-like tail of a chunk: the target of a `.jump`, or the `default` body of a `switch` -/
def jt (c : Chunk) : Option Nat :=
  match c.branch with
  | .jump d => some d
  | .switch_ _ _ (some d) _ => some d
  | _ => none

theorem jt_eq_tailId {c : Chunk} {d : Nat} (h : jt c = some d) : tailId c = some d := by
  unfold jt at h
  unfold tailId
  split at h <;> simp_all

/-- What a chunk builder produces, as far as tails are concerned.  `ex`: ids the caller may use as
jump-like tail of further chunks. -/
structure FO (s s' : WS) (nw : List Chunk) (ex : List Nat) : Prop where
  built : Built s s' nw
  ret : ∀ q ∈ nw, ∀ r, q.returnID = some r → r < q.id
  back : ∀ q ∈ nw, jt q = none → ∀ d, tailId q = some d → d < q.id
  jtf : ∀ q ∈ nw, ∀ d, jt q = some d → Fresh s.counter s'.counter d ∧ d ∉ ex
  jti : ∀ a ∈ nw, ∀ b ∈ nw, ∀ d, jt a = some d → jt b = some d → a.id = b.id

theorem FO.refl (s : WS) (ex : List Nat) : FO s s [] ex :=
  ⟨Built.refl s, by simp, by simp, by simp, by simp⟩

theorem FO.trans {a b c : WS} {x y : List Chunk} {ex : List Nat}
    (h1 : FO a b x ex) (h2 : FO b c y ex) : FO a c (x ++ y) ex := by
  have l1 := h1.built.counter_le
  have l2 := h2.built.counter_le
  refine ⟨h1.built.trans h2.built, ?_, ?_, ?_, ?_⟩
  · intro q hq
    rcases List.mem_append.1 hq with hq | hq
    · exact h1.ret q hq
    · exact h2.ret q hq
  · intro q hq
    rcases List.mem_append.1 hq with hq | hq
    · exact h1.back q hq
    · exact h2.back q hq
  · intro q hq d hd
    rcases List.mem_append.1 hq with hq | hq
    · obtain ⟨f, e⟩ := h1.jtf q hq d hd
      exact ⟨f.mono (Nat.le_refl _) l2, e⟩
    · obtain ⟨f, e⟩ := h2.jtf q hq d hd
      exact ⟨f.mono l1 (Nat.le_refl _), e⟩
  · intro p hp q hq d hdp hdq
    rcases List.mem_append.1 hp with hp | hp <;> rcases List.mem_append.1 hq with hq | hq
    · exact h1.jti p hp q hq d hdp hdq
    · have := (h1.jtf p hp d hdp).1.2
      have := (h2.jtf q hq d hdq).1.1
      omega
    · have := (h2.jtf p hp d hdp).1.1
      have := (h1.jtf q hq d hdq).1.2
      omega
    · exact h2.jti p hp q hq d hdp hdq

/-- change the exported ids: every new one was exported before or is out of range -/
theorem FO.ex {a b : WS} {x : List Chunk} {ex ex' : List Nat} (h : FO a b x ex)
    (hex : ∀ d ∈ ex', d ∈ ex ∨ ¬ Fresh a.counter b.counter d) : FO a b x ex' := by
  refine ⟨h.built, h.ret, h.back, ?_, h.jti⟩
  intro q hq d hd
  obtain ⟨f, e⟩ := h.jtf q hq d hd
  refine ⟨f, ?_⟩
  intro hm
  rcases hex d hm with h' | h'
  · exact e h'
  · exact h' f

theorem FO.reserve (s : WS) (ex : List Nat) : FO s { s with counter := s.counter + 1 } [] ex :=
  ⟨Built.reserve s, by simp, by simp, by simp, by simp⟩

/-- a chunk without jump-like tail whose tail / return id is not fresh -/
theorem FO.single (s : WS) (c : Chunk) (ex : List Nat) (hc : c.id = s.counter + 1)
    (hret : ∀ r, c.returnID = some r → r ≤ s.counter) (hjt : jt c = none)
    (htail : ∀ d, tailId c = some d → d ≤ s.counter) :
    FO s { s with counter := s.counter + 1, queue := s.queue ++ [c] } [c] ex := by
  refine ⟨Built.allocPush s c hc, ?_, ?_, ?_, ?_⟩
  · intro q hq r hr
    simp only [List.mem_singleton] at hq; subst hq
    have := hret r hr; omega
  · intro q hq _ d hd
    simp only [List.mem_singleton] at hq; subst hq
    have := htail d hd; omega
  · intro q hq d hd
    simp only [List.mem_singleton] at hq; subst hq
    rw [hjt] at hd; cases hd
  · intro a ha b hb d hda
    simp only [List.mem_singleton] at ha; subst ha
    rw [hjt] at hda; cases hda

/-- allocate the next id and queue a code chunk returning to an old id -/
theorem FO.pushCode (s : WS) (ret : Option Nat) (st : List Stmt) (ex : List Nat)
    (hret : ∀ r, ret = some r → r ≤ s.counter) :
    FO s (pushNew s ret st) [{ id := s.counter + 1, returnID := ret, statements := st }] ex :=
  FO.single s _ ex rfl hret rfl (by intro d hd; simp only [tailId] at hd; exact hret d hd)

/-- queue chunks whose ids were reserved between `s` and `s'` -/
theorem FO.push {s s' s'' : WS} {nw : List Chunk} {ex : List Nat} (h : FO s s' nw ex) (cs : List Chunk)
    (hq : s''.queue = s'.queue ++ cs) (hc : s''.counter = s'.counter) (hf : s''.final = s'.final)
    (hb : s''.brk = s'.brk) (hcn : s''.cont = s'.cont)
    (hids : ∀ q ∈ cs, Fresh s.counter s'.counter q.id)
    (hret : ∀ q ∈ cs, ∀ r, q.returnID = some r → r < q.id)
    (hback : ∀ q ∈ cs, jt q = none → ∀ d, tailId q = some d → d < q.id)
    (hjtf : ∀ q ∈ cs, ∀ d, jt q = some d → Fresh s.counter s'.counter d ∧ d ∉ ex)
    (hjti : ∀ a ∈ cs, ∀ b ∈ nw ++ cs, ∀ d, jt a = some d → jt b = some d → a.id = b.id) :
    FO s s'' (nw ++ cs) ex := by
  refine ⟨h.built.push cs hq hc hf hb hcn hids, ?_, ?_, ?_, ?_⟩
  · intro q hq'
    rcases List.mem_append.1 hq' with hq' | hq'
    · exact h.ret q hq'
    · exact hret q hq'
  · intro q hq'
    rcases List.mem_append.1 hq' with hq' | hq'
    · exact h.back q hq'
    · exact hback q hq'
  · intro q hq' d hd
    rw [hc]
    rcases List.mem_append.1 hq' with hq' | hq'
    · exact h.jtf q hq' d hd
    · exact hjtf q hq' d hd
  · intro a ha b hb' d hda hdb
    rcases List.mem_append.1 ha with ha | ha
    · rcases List.mem_append.1 hb' with hb' | hb'
      · exact h.jti a ha b hb' d hda hdb
      · exact (hjti b hb' a (List.mem_append_left _ ha) d hdb hda).symm
    · exact hjti a ha b hb' d hda hdb

/-! ### `splitChunkForBranch`, `splitBool`, `splitElifs` -/

theorem splitChunkForBranch_fo (c : Chunk) (i : Nat) (s : WS) (ex : List Nat)
    (hret : ∀ r, c.returnID = some r → r ≤ s.counter) :
    ∃ nw, FO s (splitChunkForBranch c i s).1 nw ex ∧
      (∀ d, (splitChunkForBranch c i s).2 = some d → d ≤ (splitChunkForBranch c i s).1.counter) ∧
      (∀ q ∈ nw, q.statements = c.statements.drop (i + 1) ∧ q.branch = .none) := by
  unfold splitChunkForBranch
  split
  · exact ⟨[], FO.refl _ _, fun d h => hret d h, by simp⟩
  · refine ⟨_, FO.pushCode s c.returnID _ ex hret, ?_, ?_⟩
    · intro d h
      simp only [Option.some.injEq] at h
      subst h
      simp
    · intro q hq
      simp only [List.mem_singleton] at hq; subst hq; exact ⟨rfl, rfl⟩

theorem splitBool_fo (e : BoolExpr) : ∀ (succ : Nat) (fail : Option Nat) (s s' : WS) (entry : Nat),
    splitBool e succ fail s = .ok (s', entry) → (∀ d, fail = some d → d ≤ s.counter) →
    ∃ nw, FO s s' nw [entry] ∧ Fresh s.counter s'.counter entry ∧ ∀ q ∈ nw, q.statements = [] := by
  induction e with
  | leaf x =>
    intro succ fail s s' entry h hfail
    simp only [splitBool, Except.ok.injEq, Prod.mk.injEq] at h
    obtain ⟨rfl, rfl⟩ := h
    refine ⟨[{ id := s.counter + 1, branch := .leaf succ x fail }],
      FO.single s _ _ rfl (by simp) rfl ?_, by simp [Fresh], by simp⟩
    intro d hd
    simp only [tailId] at hd
    exact hfail d hd
  | bin l op r ihl ihr =>
    intro succ fail s s' entry h hfail
    rw [splitBool] at h
    have main : ∀ (fl : Option Nat) (sl : Nat) (s2 s3 : WS) (le re : Nat),
        (∀ d, fl = some d → d ≤ s.counter + 1) →
        splitBool l sl fl { s with counter := s.counter + 1 } = .ok (s2, le) →
        splitBool r succ fail s2 = .ok (s3, re) →
        ∃ nw, FO s { s3 with queue := s3.queue ++ [{ id := s.counter + 1, branch := .jump re }] } nw [le] ∧
          Fresh s.counter s3.counter le ∧ ∀ q ∈ nw, q.statements = [] := by
      intro fl sl s2 s3 le re hfl hl hr
      obtain ⟨nl, fol, fle, hsl⟩ := ihl _ _ _ _ _ hl hfl
      have c1 := fol.built.counter_le
      simp only at c1 fle
      obtain ⟨nr, for_, fre, hsr⟩ := ihr _ _ _ _ _ hr (fun d hd => by have := hfail d hd; omega)
      have c2 := for_.built.counter_le
      have hfle : Fresh s.counter s3.counter le := ⟨by have := fle.1; omega, by have := fle.2; omega⟩
      -- the chunks of `l` and `r`, exporting both entries
      have fo1 : FO { s with counter := s.counter + 1 } s2 nl [le, re] :=
        fol.ex (fun d hd => by
          simp only [List.mem_cons, List.mem_nil_iff, or_false] at hd
          rcases hd with rfl | rfl
          · exact .inl (by simp)
          · exact .inr (fun hf => by have := hf.2; have := fre.1; omega))
      have fo2 : FO s2 s3 nr [le, re] :=
        for_.ex (fun d hd => by
          simp only [List.mem_cons, List.mem_nil_iff, or_false] at hd
          rcases hd with rfl | rfl
          · exact .inr (fun hf => by have := hf.1; have := fle.2; omega)
          · exact .inl (by simp))
      have fo3 : FO s s3 (nl ++ nr) [le, re] := by
        have := ((FO.reserve s [le, re]).trans fo1).trans fo2
        simpa using this
      have fo3' : FO s s3 (nl ++ nr) [le] :=
        fo3.ex (fun d hd => by simp only [List.mem_singleton] at hd; subst hd; exact .inl (by simp))
      have fo4 := fo3'.push [{ id := s.counter + 1, branch := .jump re }]
        (s'' := { s3 with queue := s3.queue ++ [{ id := s.counter + 1, branch := .jump re }] })
        rfl rfl rfl rfl rfl
        (by intro q hq; simp only [List.mem_singleton] at hq; subst hq; exact ⟨by simp, by simp only; omega⟩)
        (by intro q hq r hr'; simp only [List.mem_singleton] at hq; subst hq; simp at hr')
        (by intro q hq hj; simp only [List.mem_singleton] at hq; subst hq; simp [jt] at hj)
        (by
          intro q hq d hd
          simp only [List.mem_singleton] at hq; subst hq
          simp only [jt, Option.some.injEq] at hd
          subst hd
          refine ⟨⟨by have := fre.1; omega, fre.2⟩, ?_⟩
          simp only [List.mem_singleton]
          intro e
          have := fre.1; have := fle.2; omega)
        (by
          intro a ha b hb d hda hdb
          simp only [List.mem_singleton] at ha; subst ha
          simp only [jt, Option.some.injEq] at hda
          subst hda
          rcases List.mem_append.1 hb with hb | hb
          · exfalso
            exact (fo3.jtf b hb _ hdb).2 (by simp)
          · simp only [List.mem_singleton] at hb; subst hb; rfl)
      exact ⟨_, fo4, hfle, by
        intro q hq
        simp only [List.mem_append, List.mem_singleton] at hq
        rcases hq with (hq | hq) | rfl
        · exact hsl q hq
        · exact hsr q hq
        · rfl⟩
    split at h
    · simp only at h
      split at h
      · cases h
      · rename_i s2 le hl
        split at h
        · cases h
        · rename_i s3 re hr
          simp only [Except.ok.injEq, Prod.mk.injEq] at h
          obtain ⟨rfl, rfl⟩ := h
          exact main _ _ _ _ _ _ (fun d hd => by have := hfail d hd; omega) hl hr
    · split at h
      · simp only at h
        split at h
        · cases h
        · rename_i s2 le hl
          split at h
          · cases h
          · rename_i s3 re hr
            simp only [Except.ok.injEq, Prod.mk.injEq] at h
            obtain ⟨rfl, rfl⟩ := h
            exact main _ _ _ _ _ _ (fun d hd => by simp only [Option.some.injEq] at hd; omega) hl hr
      · cases h

theorem splitElifs_fo (lastFail : Option Nat) :
    ∀ (elifs : List (BoolExpr × List Stmt)) (ids : List Nat) (s s' : WS) (r : Option Nat),
    splitElifs elifs ids lastFail s = .ok (s', r) → (∀ d, lastFail = some d → d ≤ s.counter) →
    ∃ nw, FO s s' nw [] ∧ (∀ e, r = some e → e ≤ s'.counter) ∧ ∀ q ∈ nw, q.statements = [] := by
  intro elifs
  induction elifs with
  | nil =>
    intro ids s s' r h hl
    simp only [splitElifs, Except.ok.injEq, Prod.mk.injEq] at h
    obtain ⟨rfl, rfl⟩ := h
    exact ⟨[], FO.refl _ _, hl, by simp⟩
  | cons a restE ih =>
    intro ids s s' r h hl
    obtain ⟨c, b0⟩ := a
    cases ids with
    | nil =>
      simp only [splitElifs, Except.ok.injEq, Prod.mk.injEq] at h
      obtain ⟨rfl, rfl⟩ := h
      exact ⟨[], FO.refl _ _, hl, by simp⟩
    | cons id restI =>
      rw [splitElifs] at h
      split at h
      · cases h
      · rename_i s1 nextEntry h1
        split at h
        · cases h
        · rename_i s2 entry h2
          simp only [Except.ok.injEq, Prod.mk.injEq] at h
          obtain ⟨rfl, rfl⟩ := h
          obtain ⟨nw1, f1, r1, e1⟩ := ih restI s s1 nextEntry h1 hl
          obtain ⟨nw2, f2, fe, e2⟩ := splitBool_fo c id nextEntry s1 s2 entry h2 r1
          refine ⟨nw1 ++ nw2, f1.trans (f2.ex (by simp)), ?_, ?_⟩
          · intro e he
            simp only [Option.some.injEq] at he; subst he
            exact fe.2
          · intro q hq
            rcases List.mem_append.1 hq with hq | hq
            · exact e1 q hq
            · exact e2 q hq

/-! ### `createIf` -/

theorem armChunks_fo (ret : Option Nat) (ex : List Nat) :
    ∀ (arms : List (BoolExpr × List Stmt)) (s : WS), (∀ r, ret = some r → r ≤ s.counter) →
    FO s { s with counter := s.counter + arms.length, queue := s.queue ++ armChunks ret s.counter arms }
      (armChunks ret s.counter arms) ex := by
  intro arms
  induction arms with
  | nil =>
    intro s _
    have : ({ s with
          counter := s.counter + ([] : List (BoolExpr × List Stmt)).length,
          queue := s.queue ++ armChunks ret s.counter [] } : WS) = s := by
      cases s; simp [armChunks]
    rw [this]
    exact FO.refl _ _
  | cons e r ih =>
    intro s hret
    have h := (FO.pushCode s ret e.2 ex hret).trans (ih (pushNew s ret e.2)
      (fun x hx => by have := hret x hx; simp only [pushNew]; omega))
    have he : ({ (pushNew s ret e.2) with
          counter := (pushNew s ret e.2).counter + r.length,
          queue := (pushNew s ret e.2).queue ++ armChunks ret (pushNew s ret e.2).counter r } : WS) =
        { s with
          counter := s.counter + (e :: r).length,
          queue := s.queue ++ armChunks ret s.counter (e :: r) } := by
      simp only [pushNew, armChunks, List.length_cons, List.append_assoc, List.cons_append,
        List.nil_append, WS.mk.injEq, and_true]
      omega
    rw [he] at h
    exact h

theorem elseStep_fo (post : Option Nat) (a : WS) (els : Option (List Stmt)) (ex : List Nat)
    (hret : ∀ r, post = some r → r ≤ a.counter) :
    ∃ nw, FO a (elseStep post a els).1 nw ex ∧
      (∀ id, (elseStep post a els).2 = some id → id ≤ (elseStep post a els).1.counter) ∧
      (∀ q ∈ nw, els = some q.statements) := by
  cases els with
  | none => exact ⟨[], FO.refl _ _, fun id h => by simp [elseStep] at h, by simp⟩
  | some st =>
    refine ⟨_, FO.pushCode a post st ex hret, ?_, ?_⟩
    · intro id h
      simp only [elseStep, Option.some.injEq] at h
      subst h
      simp [elseStep, pushNew]
    · intro q hq
      simp only [List.mem_singleton] at hq; subst hq; rfl

theorem ifTail_fo (cond : BoolExpr) (elifs : List (BoolExpr × List Stmt)) (ids : List Nat) (consId : Nat)
    (post : Option Nat) (e : WS × Option Nat) (s' : WS) (br : Branch) (ret : Option Nat)
    (h : ifTail cond elifs ids consId post e = .ok (s', br, ret))
    (hpost : ∀ d, post = some d → d ≤ e.1.counter) (he2 : ∀ d, e.2 = some d → d ≤ e.1.counter) :
    ∃ nw entry, br = .jump entry ∧ Fresh e.1.counter s'.counter entry ∧ FO e.1 s' nw [entry] ∧
      ∀ q ∈ nw, q.statements = [] := by
  unfold ifTail at h
  split at h
  · cases h
  · rename_i s1 afterCons h1
    split at h
    · cases h
    · rename_i s2 entry h2
      simp only [Except.ok.injEq, Prod.mk.injEq] at h
      obtain ⟨rfl, rfl, rfl⟩ := h
      obtain ⟨nw1, f1, r1, e1⟩ := splitElifs_fo _ _ _ _ _ _ h1 (by
        intro d hd
        split at hd
        · rename_i id hid
          simp only [Option.some.injEq] at hd; subst hd
          exact he2 _ hid
        · exact hpost d hd)
      obtain ⟨nw2, f2, fe, e2⟩ := splitBool_fo _ _ _ _ _ _ h2 r1
      have l1 := f1.built.counter_le
      refine ⟨nw1 ++ nw2, entry, rfl, fe.mono l1 (Nat.le_refl _), ?_, ?_⟩
      · refine (f1.ex ?_).trans f2
        intro d hd
        simp only [List.mem_singleton] at hd; subst hd
        exact .inr (fun hf => by have := hf.2; have := fe.1; omega)
      · intro q hq
        rcases List.mem_append.1 hq with hq | hq
        · exact e1 q hq
        · exact e2 q hq

theorem createIf_fo (tok : Tok) (cond : BoolExpr) (body : List Stmt) (elifs : List (BoolExpr × List Stmt))
    (els : Option (List Stmt)) (c : Chunk) (i : Nat) (s s' : WS) (br : Branch) (ret : Option Nat)
    (h : createIf cond body elifs els c i s = .ok (s', br, ret))
    (hret : ∀ r, c.returnID = some r → r ≤ s.counter) :
    ∃ nw entry, br = .jump entry ∧ Fresh s.counter s'.counter entry ∧ FO s s' nw [entry] ∧
      ∀ q ∈ nw, q.statements = [] ∨ q.statements = c.statements.drop (i + 1) ∨
        q.statements ∈ subBlocks (.ite tok cond body elifs els) := by
  rw [createIf_eq] at h
  obtain ⟨nsp, fsp, hpost, hsp⟩ := splitChunkForBranch_fo c i s [] hret
  generalize splitChunkForBranch c i s = sp at h fsp hpost
  obtain ⟨s0, post⟩ := sp
  simp only at h fsp hpost
  rw [foldl_armStep] at h
  simp only [List.nil_append] at h
  have l0 := fsp.built.counter_le
  have fcons := FO.pushCode s0 post body [] hpost
  have farms := armChunks_fo post [] elifs (pushNew s0 post body)
    (fun r hr => by have := hpost r hr; simp only [pushNew]; omega)
  have f1 := fcons.trans farms
  generalize ha : ({ (pushNew s0 post body) with
        counter := (pushNew s0 post body).counter + elifs.length,
        queue := (pushNew s0 post body).queue ++ armChunks post (pushNew s0 post body).counter elifs } : WS) = a
    at h f1
  have la : s0.counter + 1 ≤ a.counter := by rw [← ha]; simp [pushNew]
  obtain ⟨nel, fel, hel, sel⟩ := elseStep_fo post a els [] (fun r hr => by have := hpost r hr; omega)
  have f2 := f1.trans fel
  have l2 := fel.built.counter_le
  obtain ⟨nh, entry, hbr, hentry, fh, sh⟩ := ifTail_fo _ _ _ _ _ _ _ _ _ h
    (fun d hd => by have := hpost d hd; omega) hel
  have l3 := fh.built.counter_le
  have hout : ∀ (x : WS) (nx : List Chunk), x.counter ≤ (elseStep post a els).1.counter → s.counter ≤ x.counter →
      FO s x nx [] → FO s x nx [entry] := by
    intro x nx hx1 hx2 fx
    refine fx.ex ?_
    intro d hd
    simp only [List.mem_singleton] at hd; subst hd
    exact .inr (fun hf => by have := hf.2; have := hentry.1; omega)
  have f3 : FO s (elseStep post a els).1 (nsp ++ (([{ id := s0.counter + 1, returnID := post, statements := body }] ++
      armChunks post (pushNew s0 post body).counter elifs) ++ nel)) [] := fsp.trans f2
  have f4 := (hout _ _ (Nat.le_refl _) (by omega) f3).trans
    (fh.ex (ex' := [entry]) (fun d hd => .inl hd))
  refine ⟨_, entry, hbr, ⟨by have := hentry.1; omega, hentry.2⟩, f4, ?_⟩
  intro q hq
  simp only [List.mem_append, List.mem_singleton] at hq
  rcases hq with (hq | (rfl | hq) | hq) | hq
  · exact .inr (.inl (hsp q hq).1)
  · exact .inr (.inr (by simp [subBlocks]))
  · have := armChunks_stmts post elifs _ q hq
    exact .inr (.inr (by simp only [subBlocks, List.mem_cons, List.mem_append]; exact .inr (.inl this)))
  · have := sel q hq
    subst this
    exact .inr (.inr (by simp [subBlocks]))
  · exact .inl (sh q hq)

/-! ### loops -/

theorem loop_fo (s0 s3 s' : WS) (nh : List Chunk) (post : Option Nat) (body : List Stmt) (tgt pt : Nat)
    (b : FO { s0 with counter := s0.counter + 1 + 1 } s3 nh [tgt])
    (htgt : Fresh s0.counter s3.counter tgt) (hpt : pt ≤ s0.counter + 1 + 1) (htp : tgt ≠ pt)
    (hpost : ∀ r, post = some r → r ≤ s0.counter)
    (hq : s'.queue = s3.queue ++
      [{ id := s0.counter + 1 + 1, returnID := some (s0.counter + 1), statements := body },
       { id := s0.counter + 1, returnID := post, branch := .jump tgt }])
    (hc : s'.counter = s3.counter) (hf : s'.final = s3.final) (hb : s'.brk = s3.brk)
    (hcn : s'.cont = s3.cont) :
    FO s0 s' (nh ++
      [{ id := s0.counter + 1 + 1, returnID := some (s0.counter + 1), statements := body },
       { id := s0.counter + 1, returnID := post, branch := .jump tgt }]) [pt] := by
  have l := b.built.counter_le
  simp only at l
  have b' : FO { s0 with counter := s0.counter + 1 + 1 } s3 nh [pt] := b.ex (by
    intro d hd
    simp only [List.mem_singleton] at hd; subst hd
    exact .inr (fun hf => by have := hf.1; simp only at this; omega))
  have g1 : FO s0 s3 nh [pt] := by
    have := ((FO.reserve s0 [pt]).trans (FO.reserve _ [pt])).trans b'
    simpa using this
  refine g1.push _ hq hc hf hb hcn ?_ ?_ ?_ ?_ ?_
  · intro q hq'
    simp only [List.mem_cons, List.mem_nil_iff, or_false] at hq'
    rcases hq' with rfl | rfl
    · exact ⟨by simp only; omega, by simp only; omega⟩
    · exact ⟨by simp only; omega, by simp only; omega⟩
  · intro q hq' r hr
    simp only [List.mem_cons, List.mem_nil_iff, or_false] at hq'
    rcases hq' with rfl | rfl
    · simp only [Option.some.injEq] at hr; subst hr; simp
    · have := hpost r hr; simp only; omega
  · intro q hq' hj d hd
    simp only [List.mem_cons, List.mem_nil_iff, or_false] at hq'
    rcases hq' with rfl | rfl
    · simp only [tailId, Option.some.injEq] at hd; subst hd; simp
    · simp [jt] at hj
  · intro q hq' d hd
    simp only [List.mem_cons, List.mem_nil_iff, or_false] at hq'
    rcases hq' with rfl | rfl
    · simp [jt] at hd
    · simp only [jt, Option.some.injEq] at hd; subst hd
      exact ⟨htgt, by simpa using htp⟩
  · intro a ha b'' hb'' d hda hdb
    simp only [List.mem_cons, List.mem_nil_iff, or_false] at ha
    rcases ha with rfl | rfl
    · simp [jt] at hda
    · simp only [jt, Option.some.injEq] at hda; subst hda
      simp only [List.mem_append, List.mem_cons, List.mem_nil_iff, or_false] at hb''
      rcases hb'' with hb'' | rfl | rfl
      · exact absurd (List.mem_singleton.2 rfl) (b.jtf b'' hb'' _ hdb).2
      · simp [jt] at hdb
      · rfl

theorem createWhile_fo (cond : Option BoolExpr) (body : List Stmt) (c : Chunk) (i : Nat) (s s' : WS)
    (br : Branch) (ret : Option Nat) (contId : Nat)
    (h : createWhile cond body c i s = .ok (s', br, ret, contId))
    (hret : ∀ r, c.returnID = some r → r ≤ s.counter) :
    ∃ nw t, br = .jump t ∧ Fresh s.counter s'.counter t ∧ FO s s' nw [t] ∧
      ∀ q ∈ nw, q.statements = [] ∨ q.statements = c.statements.drop (i + 1) ∨
        (q.statements = body ∧ (∀ r, ret = some r → r < q.id) ∧ contId ≤ q.id) := by
  unfold createWhile at h
  simp only [alloc] at h
  obtain ⟨nsp, fsp, hpost, hsp⟩ := splitChunkForBranch_fo c i s [(splitChunkForBranch c i s).1.counter + 1] hret
  generalize splitChunkForBranch c i s = sp at h fsp hpost
  obtain ⟨s0, post⟩ := sp
  simp only at h fsp hpost
  have l0 := fsp.built.counter_le
  have stm : ∀ (nh : List Chunk) (tgt : Nat), (∀ q ∈ nh, q.statements = []) →
      ∀ q ∈ nsp ++ (nh ++
        [{ id := s0.counter + 1 + 1, returnID := some (s0.counter + 1), statements := body },
         { id := s0.counter + 1, returnID := post, branch := .jump tgt }]),
      q.statements = [] ∨ q.statements = c.statements.drop (i + 1) ∨
        (q.statements = body ∧ (∀ r, post = some r → r < q.id) ∧ s0.counter + 1 ≤ q.id) := by
    intro nh tgt hnh q hq
    simp only [List.mem_append, List.mem_cons, List.mem_nil_iff, or_false] at hq
    rcases hq with hq | hq | rfl | rfl
    · exact .inr (.inl (hsp q hq).1)
    · exact .inl (hnh q hq)
    · refine .inr (.inr ⟨rfl, ?_, by simp⟩)
      intro r hr
      have := hpost r hr
      simp only; omega
    · exact .inl rfl
  cases cond with
  | none =>
    simp only [Except.ok.injEq, Prod.mk.injEq] at h
    obtain ⟨hs, rfl, rfl, rfl⟩ := h
    have bl := loop_fo s0 { s0 with counter := s0.counter + 1 + 1 } s' [] post body (s0.counter + 1 + 1)
      (s0.counter + 1) (FO.refl _ _) ⟨by omega, by simp⟩ (by omega) (by omega) hpost
      (by rw [← hs]) (by rw [← hs]) (by rw [← hs]) (by rw [← hs]) (by rw [← hs])
    have hc : s'.counter = s0.counter + 1 + 1 := by rw [← hs]
    refine ⟨_, s0.counter + 1, rfl, ⟨by omega, by omega⟩, fsp.trans bl, ?_⟩
    exact stm [] _ (by simp)
  | some e =>
    simp only at h
    split at h
    · cases h
    · rename_i s3 entry h3
      simp only [Except.ok.injEq, Prod.mk.injEq] at h
      obtain ⟨hs, rfl, rfl, rfl⟩ := h
      obtain ⟨nh, fh, fentry, snh⟩ := splitBool_fo _ _ _ _ _ _ h3 (by
        intro d hd; have := hpost d hd; simp only; omega)
      have l3 := fh.built.counter_le
      simp only at l3 fentry
      have bl := loop_fo s0 s3 s' nh post body entry (s0.counter + 1) fh
        ⟨by have := fentry.1; omega, fentry.2⟩ (by omega) (by have := fentry.1; omega) hpost
        (by rw [← hs]) (by rw [← hs]) (by rw [← hs]) (by rw [← hs]) (by rw [← hs])
      have hc : s'.counter = s3.counter := by rw [← hs]
      refine ⟨_, s0.counter + 1, rfl, ⟨by omega, by omega⟩, fsp.trans bl, ?_⟩
      exact stm nh _ snh

theorem createDoWhile_fo (cond : BoolExpr) (body : List Stmt) (c : Chunk) (i : Nat) (s s' : WS)
    (br : Branch) (ret : Option Nat) (contId : Nat)
    (h : createDoWhile cond body c i s = .ok (s', br, ret, contId))
    (hret : ∀ r, c.returnID = some r → r ≤ s.counter) :
    ∃ nw t, br = .jump t ∧ Fresh s.counter s'.counter t ∧ FO s s' nw [t] ∧
      ∀ q ∈ nw, q.statements = [] ∨ q.statements = c.statements.drop (i + 1) ∨
        (q.statements = body ∧ (∀ r, ret = some r → r < q.id) ∧ contId ≤ q.id) := by
  unfold createDoWhile at h
  simp only [alloc] at h
  obtain ⟨nsp, fsp, hpost, hsp⟩ := splitChunkForBranch_fo c i s [(splitChunkForBranch c i s).1.counter + 1 + 1] hret
  generalize splitChunkForBranch c i s = sp at h fsp hpost
  obtain ⟨s0, post⟩ := sp
  simp only at h fsp hpost
  have l0 := fsp.built.counter_le
  split at h
  · cases h
  · rename_i s3 entry h3
    simp only [Except.ok.injEq, Prod.mk.injEq] at h
    obtain ⟨hs, rfl, rfl, rfl⟩ := h
    obtain ⟨nh, fh, fentry, snh⟩ := splitBool_fo _ _ _ _ _ _ h3 (by
      intro d hd; have := hpost d hd; simp only; omega)
    have l3 := fh.built.counter_le
    simp only at l3 fentry
    have bl := loop_fo s0 s3 s' nh post body entry (s0.counter + 1 + 1) fh
      ⟨by have := fentry.1; omega, fentry.2⟩ (by omega) (by have := fentry.1; omega) hpost
      (by rw [← hs]) (by rw [← hs]) (by rw [← hs]) (by rw [← hs]) (by rw [← hs])
    have hc : s'.counter = s3.counter := by rw [← hs]
    refine ⟨_, s0.counter + 1 + 1, rfl, ⟨by omega, by omega⟩, fsp.trans bl, ?_⟩
    intro q hq
    simp only [List.mem_append, List.mem_cons, List.mem_nil_iff, or_false] at hq
    rcases hq with hq | hq | rfl | rfl
    · exact .inr (.inl (hsp q hq).1)
    · exact .inl (snh q hq)
    · refine .inr (.inr ⟨rfl, ?_, by simp⟩)
      intro r hr
      have := hpost r hr
      simp only; omega
    · exact .inl rfl

/-! ### `switch` -/

theorem switchBodies_fo (ret : Option Nat) (ex : List Nat) : ∀ (cases : List SwitchCase) (s : WS),
    (∀ r, ret = some r → r ≤ s.counter) →
    ∃ nw, FO s (switchBodies ret cases s).1 nw ex ∧
      (∀ d, some d ∈ (switchBodies ret cases s).2 →
        Fresh s.counter (switchBodies ret cases s).1.counter d) ∧
      (∀ q ∈ nw, q.statements ∈ cases.map (·.2.2) ∧ q.branch = .none) := by
  intro cases
  induction cases with
  | nil =>
    intro s _
    exact ⟨[], FO.refl _ _, by simp [switchBodies], by simp⟩
  | cons c r ih =>
    intro s hret
    obtain ⟨v, d, body⟩ := c
    by_cases hb : body.length > 0
    · rw [switchBodies_cons_pos ret v d body r s hb]
      obtain ⟨nw, f, hids, hn⟩ := ih (pushNew s ret body)
        (fun x hx => by have := hret x hx; simp only [pushNew]; omega)
      have l := f.built.counter_le
      refine ⟨_ :: nw, (FO.pushCode s ret body ex hret).trans f, ?_, ?_⟩
      · intro x hx
        simp only [List.mem_cons, Option.some.injEq] at hx
        rcases hx with rfl | hx
        · exact ⟨by simp, by simp only [pushNew] at l ⊢; omega⟩
        · exact (hids x hx).mono (by simp [pushNew]) (Nat.le_refl _)
      · intro q hq
        simp only [List.mem_cons] at hq
        rcases hq with rfl | hq
        · exact ⟨by simp, rfl⟩
        · exact ⟨by simp only [List.map_cons, List.mem_cons]; exact .inr (hn q hq).1, (hn q hq).2⟩
    · rw [switchBodies_cons_neg ret v d body r s hb]
      obtain ⟨nw, f, hids, hn⟩ := ih s hret
      refine ⟨nw, f, ?_, ?_⟩
      · intro x hx
        simp only [List.mem_cons] at hx
        rcases hx with hx | hx
        · cases hx
        · exact hids x hx
      · intro q hq
        exact ⟨by simp only [List.map_cons, List.mem_cons]; exact .inr (hn q hq).1, (hn q hq).2⟩

theorem emptyStep_fo (post : Option Nat) (need : Bool) (s : WS) (ex : List Nat)
    (hret : ∀ r, post = some r → r ≤ s.counter) :
    ∃ ne, FO s (emptyStep post need s).1 ne ex ∧ (∀ q ∈ ne, q.statements = [] ∧ q.branch = .none) := by
  unfold emptyStep
  cases need with
  | false => exact ⟨[], FO.refl _ _, by simp⟩
  | true =>
    refine ⟨_, FO.pushCode s post [] ex hret, ?_⟩
    intro q hq
    simp only [List.mem_singleton] at hq; subst hq
    exact ⟨rfl, rfl⟩

theorem createSwitch_fo (operand : Tok) (cases : List SwitchCase) (c : Chunk) (i : Nat) (s s' : WS)
    (br : Branch) (ret : Option Nat) (swId : Nat)
    (h : createSwitch operand cases c i s = (s', br, ret, swId))
    (hret : ∀ r, c.returnID = some r → r ≤ s.counter) :
    br = .jump swId ∧ Fresh s.counter s'.counter swId ∧ ∃ nw, FO s s' nw [swId] ∧
      ∀ q ∈ nw, q.statements = [] ∨ q.statements = c.statements.drop (i + 1) ∨
        (q.statements ∈ cases.map (·.2.2) ∧ (∀ r, ret = some r → r < q.id) ∧ swId ≤ q.id) := by
  rw [createSwitch_eq] at h
  obtain ⟨nsp, fsp, hpost, hsp⟩ := splitChunkForBranch_fo c i s [(splitChunkForBranch c i s).1.counter + 1] hret
  generalize splitChunkForBranch c i s = sp at h fsp hpost
  obtain ⟨s0, post⟩ := sp
  simp only at h fsp hpost
  have l0 := fsp.built.counter_le
  have fsw : FO s0 (pushEmpty s0 post) [{ id := s0.counter + 1, returnID := post }] [s0.counter + 1] :=
    FO.pushCode s0 post [] _ hpost
  obtain ⟨nb, fb, hids, hnb⟩ := switchBodies_fo post [s0.counter + 1] cases (pushEmpty s0 post)
    (fun r hr => by have := hpost r hr; simp only [pushEmpty]; omega)
  generalize switchBodies post cases (pushEmpty s0 post) = sb at h fb hids
  obtain ⟨s1, ids0⟩ := sb
  simp only at h fb hids
  have l1 : s0.counter + 1 ≤ s1.counter := fb.built.counter_le
  have hpe : (pushEmpty s0 post).counter = s0.counter + 1 := rfl
  rw [hpe] at hids
  -- ids of the chunks
  have idsp : ∀ q ∈ nsp, q.id ≤ s0.counter := fun q hq => (fsp.built.ids q hq).2
  have idnb : ∀ q ∈ nb, s0.counter + 1 < q.id := fun q hq => by
    have := (fb.built.ids q hq).1; rw [hpe] at this; exact this
  -- statements of the chunks other than the switch chunk
  have stm : ∀ (s2 : WS) (ne : List Chunk) (swc : Chunk), swc.statements = [] →
      (∀ q ∈ ne, q.statements = [] ∧ q.branch = .none) →
      ∀ q ∈ nsp ++ (swc :: (nb ++ ne)), q.statements = [] ∨ q.statements = c.statements.drop (i + 1) ∨
        (q.statements ∈ cases.map (·.2.2) ∧ (∀ r, post = some r → r < q.id) ∧ s0.counter + 1 ≤ q.id) := by
    intro s2 ne swc hswc hne q hq
    simp only [List.mem_append, List.mem_cons] at hq
    rcases hq with hq | rfl | hq | hq
    · exact .inr (.inl (hsp q hq).1)
    · exact .inl hswc
    · refine .inr (.inr ⟨(hnb q hq).1, ?_, by have := idnb q hq; omega⟩)
      intro r hr
      have := hpost r hr
      have := idnb q hq
      omega
    · exact .inl (hne q hq).1
  unfold switchTail at h
  by_cases hall : ids0.all (·.isNone) = true
  · rw [if_pos hall] at h
    simp only [Prod.mk.injEq] at h
    obtain ⟨rfl, rfl, rfl, rfl⟩ := h
    refine ⟨rfl, ⟨by omega, by omega⟩, _, fsp.trans (fsw.trans fb), ?_⟩
    have := stm s1 [] { id := s0.counter + 1, returnID := post } rfl (by simp)
    simpa using this
  · rw [if_neg hall] at h
    simp only [Prod.mk.injEq] at h
    obtain ⟨hs', rfl, rfl, rfl⟩ := h
    obtain ⟨ne, fe, hne⟩ := emptyStep_fo post (switchNeedsEmpty cases (propagateBack ids0)) s1 [s0.counter + 1]
      (fun r hr => by have := hpost r hr; omega)
    generalize emptyStep post (switchNeedsEmpty cases (propagateBack ids0)) s1 = es at hs' fe
    obtain ⟨s2, eid⟩ := es
    simp only at hs' fe
    have l2 : s1.counter ≤ s2.counter := fe.built.counter_le
    have hc' : s'.counter = s2.counter := by rw [← hs']
    obtain ⟨bcs, dflt, dest, hbr, hdflt, hdest, hdn, hbcs⟩ :=
      switchBranchOf_facts operand cases (propagateBack ids0) eid post
    rw [hbr] at hs'
    have b2 : FO s s2 (nsp ++ ({ id := s0.counter + 1, returnID := post } :: (nb ++ ne))) [s0.counter + 1] := by
      have := fsp.trans ((fsw.trans fb).trans fe)
      simpa [List.append_assoc] using this
    have hq0 : s0.queue = s.queue ++ nsp := fsp.built.queue_eq
    have hq' : s'.queue = s.queue ++ (nsp ++ (({ id := s0.counter + 1, returnID := post, branch := .switch_ operand bcs dflt dest } : Chunk) :: (nb ++ ne))) := by
      rw [← hs']
      simp only
      rw [b2.built.queue_eq, hq0, ← List.append_assoc, modify_append_cons, List.append_assoc]
    have hfresh_id : ∀ d, some d ∈ propagateBack ids0 → s0.counter + 1 < d ∧ d ≤ s'.counter := by
      intro d hd
      have := hids d (propagateBack_mem _ _ hd)
      exact ⟨this.1, by have := this.2; omega⟩
    -- the other chunks have no branch
    have hnone : ∀ q ∈ nsp ++ (nb ++ ne), q.branch = .none := by
      intro q hq
      simp only [List.mem_append] at hq
      rcases hq with hq | hq | hq
      · exact (hsp q hq).2
      · exact (hnb q hq).2
      · exact (hne q hq).2
    have hjn : ∀ q ∈ nsp ++ (nb ++ ne), jt q = none := by
      intro q hq; unfold jt; rw [hnone q hq]
    have hmem : ∀ q ∈ nsp ++ (nb ++ ne), q ∈ nsp ++ ({ id := s0.counter + 1, returnID := post } :: (nb ++ ne)) := by
      intro q hq
      simp only [List.mem_append, List.mem_cons] at hq ⊢
      rcases hq with hq | hq | hq
      · exact .inl hq
      · exact .inr (.inr (.inl hq))
      · exact .inr (.inr (.inr hq))
    have hsplit : ∀ q ∈ nsp ++ (({ id := s0.counter + 1, returnID := post, branch := .switch_ operand bcs dflt dest } : Chunk) :: (nb ++ ne)),
        q = ({ id := s0.counter + 1, returnID := post, branch := .switch_ operand bcs dflt dest } : Chunk) ∨ q ∈ nsp ++ (nb ++ ne) := by
      intro q hq
      simp only [List.mem_append, List.mem_cons] at hq ⊢
      rcases hq with hq | rfl | hq | hq
      · exact .inr (.inl hq)
      · exact .inl rfl
      · exact .inr (.inr (.inl hq))
      · exact .inr (.inr (.inr hq))
    have hpostlt : ∀ r, post = some r → r < s0.counter + 1 := fun r hr => by have := hpost r hr; omega
    refine ⟨rfl, ⟨by omega, by omega⟩,
      nsp ++ (({ id := s0.counter + 1, returnID := post, branch := .switch_ operand bcs dflt dest } : Chunk) :: (nb ++ ne)),
      ⟨?_, ?_, ?_, ?_, ?_⟩, ?_⟩
    · -- Built
      refine ⟨by rw [hc']; exact b2.built.counter_le, hq', by rw [← hs']; exact b2.built.final_eq,
        by rw [← hs']; exact b2.built.brk_eq, by rw [← hs']; exact b2.built.cont_eq, ?_⟩
      intro q hq
      rw [hc']
      rcases hsplit q hq with rfl | hq
      · exact b2.built.ids { id := s0.counter + 1, returnID := post } (by simp)
      · exact b2.built.ids q (hmem q hq)
    · intro q hq r hr
      rcases hsplit q hq with rfl | hq
      · exact hpostlt r hr
      · exact b2.ret q (hmem q hq) r hr
    · intro q hq hj d hd
      rcases hsplit q hq with rfl | hq
      · simp only [jt] at hj
        cases dflt with
        | some x => simp at hj
        | none =>
          simp only [tailId] at hd
          rw [hdn rfl] at hd
          exact hpostlt d hd
      · exact b2.back q (hmem q hq) hj d hd
    · intro q hq d hd
      rcases hsplit q hq with rfl | hq
      · simp only [jt] at hd
        cases dflt with
        | none => simp at hd
        | some x =>
          simp only [Option.some.injEq] at hd; subst hd
          have := hfresh_id x (hdflt x rfl)
          exact ⟨⟨by omega, this.2⟩, by simp only [List.mem_singleton]; omega⟩
      · rw [hjn q hq] at hd; cases hd
    · intro a ha b hb d hda hdb
      rcases hsplit a ha with rfl | ha
      · rcases hsplit b hb with rfl | hb
        · rfl
        · rw [hjn b hb] at hdb; cases hdb
      · rw [hjn a ha] at hda; cases hda
    · exact stm s2 ne _ rfl hne

/-! ### one worklist step -/

/-- every scope id free in the chunk is registered, with a target allocated before the chunk -/
def ScopeB (st : WS) (p : Chunk) : Prop :=
  ∃ be ce, WFL p.statements be ce ∧
    (∀ s ∈ be, ∃ v, st.brk.lookup s = some v ∧ ∀ r, v = some r → r < p.id) ∧
    (∀ s ∈ ce, ∃ d, st.cont.lookup s = some d ∧ d ≤ p.id)

/-- the scope entries `x` registers have targets allocated before the new chunk `q` -/
def SBound (st1 : WS) (x : Stmt) (q : Chunk) : Prop :=
  (∀ s ∈ scopeB x, ∃ v, st1.brk.lookup s = some v ∧ ∀ r, v = some r → r < q.id) ∧
  (∀ s ∈ scopeC x, ∃ d, st1.cont.lookup s = some d ∧ d ≤ q.id)

structure StepF (p : Chunk) (st0 st1 : WS) (nw : List Chunk) (ch : Chunk) : Prop where
  ch_id : ch.id = p.id
  counter_le : st0.counter ≤ st1.counter
  queue_eq : st1.queue = st0.queue ++ nw
  final_eq : st1.final = ch :: st0.final.filter (·.id != p.id)
  nw_ids : ∀ q ∈ nw, Fresh st0.counter st1.counter q.id
  nw_ret : ∀ q ∈ nw, ∀ r, q.returnID = some r → r < q.id
  nw_back : ∀ q ∈ nw, jt q = none → ∀ d, tailId q = some d → d < q.id
  ch_back : jt ch = none → ∀ d, tailId ch = some d → d ≤ ch.id
  jtf : ∀ q ∈ ch :: nw, ∀ d, jt q = some d → (q = ch ∧ ch = p) ∨ Fresh st0.counter st1.counter d
  jti : ∀ a ∈ ch :: nw, ∀ b ∈ ch :: nw, ∀ d, jt a = some d → jt b = some d → a.id = b.id
  stm : ∀ q ∈ nw, q.statements = [] ∨ ∃ pre x r, p.statements = pre ++ x :: r ∧
    (q.statements = r ∨ (q.statements ∈ subBlocks x ∧ SBound st1 x q))

/-- a step that queues nothing and gives the chunk no jump-like tail (or leaves it alone) -/
theorem StepF.simple (p : Chunk) (st0 : WS) (ch : Chunk) (hid : ch.id = p.id)
    (hb : jt ch = none → ∀ d, tailId ch = some d → d ≤ ch.id) (hj : ch = p ∨ jt ch = none) :
    StepF p st0 (st0.setFinal ch) [] ch := by
  refine ⟨hid, Nat.le_refl _, by simp [WS.setFinal], by simp [WS.setFinal, hid], by simp, by simp, by simp,
    hb, ?_, ?_, by simp⟩
  · intro q hq d hd
    simp only [List.mem_singleton] at hq; subst hq
    rcases hj with hj | hj
    · exact .inl ⟨rfl, hj⟩
    · rw [hj] at hd; cases hd
  · intro a ha b hb' d _ _
    simp only [List.mem_singleton] at ha hb'
    rw [ha, hb']

/-- a step whose builder is described by an `FO` exporting the new jump target `t` of the chunk -/
theorem StepF.of_fo {p : Chunk} {st0 s1 st1 : WS} {nw : List Chunk} {t : Nat} {ret : Option Nat}
    {stmts : List Stmt}
    (f : FO st0 s1 nw [t]) (ht : Fresh st0.counter s1.counter t)
    (hc : st1.counter = s1.counter) (hq : st1.queue = s1.queue)
    (hf : st1.final = ({ id := p.id, returnID := ret, statements := stmts, branch := .jump t } : Chunk) ::
      s1.final.filter (·.id != p.id))
    (hstm : ∀ q ∈ nw, q.statements = [] ∨ ∃ pre x r, p.statements = pre ++ x :: r ∧
      (q.statements = r ∨ (q.statements ∈ subBlocks x ∧ SBound st1 x q))) :
    StepF p st0 st1 nw { id := p.id, returnID := ret, statements := stmts, branch := .jump t } := by
  refine ⟨rfl, hc ▸ f.built.counter_le, hq.trans f.built.queue_eq, by rw [hf, f.built.final_eq],
    hc ▸ f.built.ids, f.ret, f.back, by simp [jt], ?_, ?_, hstm⟩
  · intro q hq' d hd
    rw [hc]
    simp only [List.mem_cons] at hq'
    rcases hq' with rfl | hq'
    · simp only [jt, Option.some.injEq] at hd; subst hd
      exact .inr ht
    · exact .inr (f.jtf q hq' d hd).1
  · intro a ha b hb d hda hdb
    simp only [List.mem_cons] at ha hb
    rcases ha with rfl | ha <;> rcases hb with rfl | hb
    · rfl
    · simp only [jt, Option.some.injEq] at hda; subst hda
      exact absurd (List.mem_singleton.2 rfl) (f.jtf b hb _ hdb).2
    · simp only [jt, Option.some.injEq] at hdb; subst hdb
      exact absurd (List.mem_singleton.2 rfl) (f.jtf a ha _ hda).2
    · exact f.jti a ha b hb d hda hdb

theorem sbound_nil {st1 : WS} {x : Stmt} {q : Chunk} (h1 : scopeB x = []) (h2 : scopeC x = []) :
    SBound st1 x q := by
  unfold SBound; rw [h1, h2]; simp

/-- **every successful `processChunk` is a `StepF`**, for a queued chunk whose return id and
`break` / `continue` targets were allocated before it -/
theorem process_fu (p : Chunk) (st0 st1 : WS) (hp : processChunk p st0 = .ok st1)
    (hidle : p.id ≤ st0.counter) (hret : ∀ r, p.returnID = some r → r < p.id)
    (hback : jt p = none → ∀ d, tailId p = some d → d ≤ p.id) (hsc : ScopeB st0 p) :
    ∃ nw ch, StepF p st0 st1 nw ch := by
  have hret' : ∀ r, p.returnID = some r → r ≤ st0.counter := fun r hr => by have := hret r hr; omega
  unfold processChunk at hp
  generalize hscan : scanSimple p.statements 0 p.statements.length = scn at hp
  obtain ⟨i, fin⟩ := scn
  obtain ⟨pre, rest, hst, hsim, hi, hcase⟩ := scan_facts p i fin hscan
  subst hi
  simp only at hp
  rcases hcase with ⟨rfl, hrest⟩ | ⟨c, rfl, rfl, hname⟩
  · simp only at hp
    rcases hrest with rfl | ⟨x, r, rfl, hx⟩
    · have hlen : pre.length = p.statements.length := by rw [hst]; simp
      rw [if_pos (by simp [hlen])] at hp
      injection hp with hp; subst hp
      exact ⟨[], p, StepF.simple p st0 p rfl hback (.inl rfl)⟩
    · have hilt : pre.length < p.statements.length := by rw [hst]; simp
      have hne : ¬ ((pre.length == p.statements.length) = true) := by simp; omega
      have hget : p.statements[pre.length]? = some x := by rw [hst]; simp
      have hdrop : p.statements.drop (pre.length + 1) = r := by rw [hst]; simp
      rw [if_neg hne] at hp
      simp only [hget] at hp
      obtain ⟨be, ce, hwf, hbe, hce⟩ := hsc
      rw [hst, WFL_append, wfl_cons] at hwf
      have hwx : WFS x be ce := hwf.2.1
      cases x with
      | cmd c => exact absurd trivial hx
      | label t n g => exact absurd trivial hx
      | ite tok cond body elifs els =>
        simp only at hp
        split at hp
        · cases hp
        · rename_i s1 br ret hc
          injection hp with hp; subst hp
          obtain ⟨nw, entry, rfl, hentry, f, hs⟩ := createIf_fo tok _ _ _ _ _ _ _ _ _ _ hc hret'
          refine ⟨nw, _, StepF.of_fo f hentry rfl rfl rfl ?_⟩
          intro q hq
          rcases hs q hq with h | h | h
          · exact .inl h
          · exact .inr ⟨pre, _, r, hst, .inl (h.trans hdrop)⟩
          · exact .inr ⟨pre, _, r, hst, .inr ⟨h, sbound_nil rfl rfl⟩⟩
      | while_ tok sid cond body =>
        simp only at hp
        split at hp
        · cases hp
        · rename_i s1 br ret contId hc
          injection hp with hp; subst hp
          obtain ⟨nw, t, rfl, ht, f, hs⟩ := createWhile_fo _ _ _ _ _ _ _ _ _ hc hret'
          refine ⟨nw, _, StepF.of_fo f ht rfl rfl rfl ?_⟩
          intro q hq
          rcases hs q hq with h | h | ⟨h1, h2, h3⟩
          · exact .inl h
          · exact .inr ⟨pre, _, r, hst, .inl (h.trans hdrop)⟩
          · refine .inr ⟨pre, _, r, hst, .inr ⟨by simp [subBlocks, h1], ?_, ?_⟩⟩
            · intro s hs'
              simp only [scopeB, List.mem_singleton] at hs'; subst hs'
              exact ⟨ret, by simp [WS.setFinal], h2⟩
            · intro s hs'
              simp only [scopeC, List.mem_singleton] at hs'; subst hs'
              exact ⟨contId, by simp [WS.setFinal], h3⟩
      | doWhile tok sid cond body =>
        simp only at hp
        split at hp
        · cases hp
        · rename_i s1 br ret contId hc
          injection hp with hp; subst hp
          obtain ⟨nw, t, rfl, ht, f, hs⟩ := createDoWhile_fo _ _ _ _ _ _ _ _ _ hc hret'
          refine ⟨nw, _, StepF.of_fo f ht rfl rfl rfl ?_⟩
          intro q hq
          rcases hs q hq with h | h | ⟨h1, h2, h3⟩
          · exact .inl h
          · exact .inr ⟨pre, _, r, hst, .inl (h.trans hdrop)⟩
          · refine .inr ⟨pre, _, r, hst, .inr ⟨by simp [subBlocks, h1], ?_, ?_⟩⟩
            · intro s hs'
              simp only [scopeB, List.mem_singleton] at hs'; subst hs'
              exact ⟨ret, by simp [WS.setFinal], h2⟩
            · intro s hs'
              simp only [scopeC, List.mem_singleton] at hs'; subst hs'
              exact ⟨contId, by simp [WS.setFinal], h3⟩
      | brk tok sid =>
        simp only at hp
        split at hp
        · cases hp
        · rename_i dest hl
          injection hp with hp; subst hp
          rw [keepStatementsAfterJump_eq]
          obtain ⟨nw, f, _, hs⟩ := splitChunkForBranch_fo p pre.length st0 [] hret'
          have hsid : sid ∈ be := hwx
          obtain ⟨v, hv1, hv2⟩ := hbe sid hsid
          rw [hl] at hv1
          injection hv1 with hv1; subst hv1
          refine ⟨nw, ({ id := p.id, returnID := p.returnID, statements := p.statements.take pre.length, branch := .breakCtx dest } : Chunk),
            ⟨rfl, f.built.counter_le, f.built.queue_eq,
            by simp [WS.setFinal, f.built.final_eq], f.built.ids, f.ret, f.back, ?_, ?_, ?_, ?_⟩⟩
          · intro _ d hd
            simp only [tailId] at hd
            have := hv2 d hd
            simp only; omega
          · intro q hq d hd
            simp only [List.mem_cons] at hq
            rcases hq with rfl | hq
            · simp [jt] at hd
            · exact .inr (f.jtf q hq d hd).1
          · intro a ha b hb d hda hdb
            simp only [List.mem_cons] at ha hb
            rcases ha with rfl | ha
            · simp [jt] at hda
            · rcases hb with rfl | hb
              · simp [jt] at hdb
              · exact f.jti a ha b hb d hda hdb
          · intro q hq
            exact .inr ⟨pre, _, r, hst, .inl ((hs q hq).1.trans hdrop)⟩
      | cont tok sid =>
        simp only at hp
        split at hp
        · cases hp
        · rename_i dest hl
          injection hp with hp; subst hp
          rw [keepStatementsAfterJump_eq]
          obtain ⟨nw, f, _, hs⟩ := splitChunkForBranch_fo p pre.length st0 [] hret'
          have hsid : sid ∈ ce := hwx
          obtain ⟨v, hv1, hv2⟩ := hce sid hsid
          rw [hl] at hv1
          injection hv1 with hv1; subst hv1
          refine ⟨nw, ({ id := p.id, returnID := p.returnID, statements := p.statements.take pre.length, branch := .breakCtx (some dest) } : Chunk),
            ⟨rfl, f.built.counter_le, f.built.queue_eq,
            by simp [WS.setFinal, f.built.final_eq], f.built.ids, f.ret, f.back, ?_, ?_, ?_, ?_⟩⟩
          · intro _ d hd
            simp only [tailId, Option.some.injEq] at hd
            subst hd
            exact hv2
          · intro q hq d hd
            simp only [List.mem_cons] at hq
            rcases hq with rfl | hq
            · simp [jt] at hd
            · exact .inr (f.jtf q hq d hd).1
          · intro a ha b hb d hda hdb
            simp only [List.mem_cons] at ha hb
            rcases ha with rfl | ha
            · simp [jt] at hda
            · rcases hb with rfl | hb
              · simp [jt] at hdb
              · exact f.jti a ha b hb d hda hdb
          · intro q hq
            exact .inr ⟨pre, _, r, hst, .inl ((hs q hq).1.trans hdrop)⟩
      | switch_ tok sid operand cases =>
        simp only at hp
        generalize hc : createSwitch operand cases p pre.length st0 = cs at hp
        obtain ⟨s1, br, ret, swId⟩ := cs
        simp only at hp
        injection hp with hp; subst hp
        obtain ⟨rfl, hsw, nw, f, hs⟩ := createSwitch_fo _ _ _ _ _ _ _ _ _ hc hret'
        refine ⟨nw, _, StepF.of_fo f hsw rfl rfl rfl ?_⟩
        intro q hq
        rcases hs q hq with h | h | ⟨h1, h2, h3⟩
        · exact .inl h
        · exact .inr ⟨pre, _, r, hst, .inl (h.trans hdrop)⟩
        · refine .inr ⟨pre, _, r, hst, .inr ⟨by simpa [subBlocks] using h1, ?_, ?_⟩⟩
          · intro s hs'
            simp only [scopeB, List.mem_singleton] at hs'; subst hs'
            exact ⟨ret, by simp [WS.setFinal], h2⟩
          · intro s hs'
            simp [scopeC] at hs'
  · simp only at hp
    injection hp with hp; subst hp
    exact ⟨[], _, StepF.simple p st0 _ rfl (by intro _ d hd; simp [tailId] at hd) (.inr rfl)⟩

/-! ### the invariant of the run -/

structure FInv (st : WS) : Prop where
  ret : ∀ c ∈ st.queue, ∀ r, c.returnID = some r → r < c.id
  back : ∀ c ∈ allC st, jt c = none → ∀ d, tailId c = some d → d ≤ c.id
  jti : ∀ a ∈ allC st, ∀ b ∈ allC st, ∀ d, jt a = some d → jt b = some d → a.id = b.id
  scope : ∀ c ∈ st.queue, ScopeB st c

theorem ScopeB.ext {st st1 : WS} {c : Chunk} (h : ScopeB st c) (hext : Ext st st1) : ScopeB st1 c := by
  obtain ⟨be, ce, h1, h2, h3⟩ := h
  refine ⟨be, ce, h1, ?_, ?_⟩
  · intro s hs
    obtain ⟨v, hv1, hv2⟩ := h2 s hs
    exact ⟨v, hext.brk s v hv1, hv2⟩
  · intro s hs
    obtain ⟨d, hd1, hd2⟩ := h3 s hs
    exact ⟨d, hext.cont s d hd1, hd2⟩

section step
variable {st st1 : WS} {p : Chunk} {q : List Chunk} {nw : List Chunk} {ch : Chunk}

theorem mem_all_stepF (hq : st.queue = p :: q) (so : StepF p { st with queue := q } st1 nw ch)
    {c : Chunk} (hc : c ∈ allC st1) : c ∈ ch :: nw ∨ c ∈ allC st := by
  unfold allC at hc ⊢
  rw [so.final_eq, so.queue_eq] at hc
  simp only [List.mem_append, List.mem_cons, List.mem_filter] at hc ⊢
  rw [hq]
  rcases hc with (rfl | ⟨h, _⟩) | h | h
  · exact .inl (.inl rfl)
  · exact .inr (.inl h)
  · exact .inr (.inr (List.mem_cons_of_mem _ h))
  · exact .inl (.inr h)

theorem step_finv (tinv : TInv st) (finv : FInv st) (hq : st.queue = p :: q)
    (hext : Ext st st1) (so : StepF p { st with queue := q } st1 nw ch) : FInv st1 := by
  have hp : p ∈ allC st := by unfold allC; rw [hq]; simp
  have hpq : p ∈ st.queue := by rw [hq]; simp
  have hpid : p.id ≤ st.counter := tinv.idle p hp
  -- jump-like tails of old chunks are old ids
  have old_jt : ∀ c ∈ allC st, ∀ d, jt c = some d → d ≤ st.counter := by
    intro c hc d hd
    have := tinv.bnd c hc d (List.mem_append_left _ (tailId_mem_ncm (jt_eq_tailId hd)))
    exact this.2
  have fresh_gt : ∀ d, Fresh ({ st with queue := q } : WS).counter st1.counter d → st.counter < d :=
    fun d hd => hd.1
  refine ⟨?_, ?_, ?_, ?_⟩
  · intro c hc
    rw [so.queue_eq] at hc
    rcases List.mem_append.1 hc with hc | hc
    · exact finv.ret c (by rw [hq]; simp [hc])
    · exact so.nw_ret c hc
  · intro c hc hj d hd
    rcases mem_all_stepF hq so hc with h | h
    · simp only [List.mem_cons] at h
      rcases h with rfl | h
      · exact so.ch_back hj d hd
      · have := so.nw_back c h hj d hd; omega
    · exact finv.back c h hj d hd
  · intro a ha b hb d hda hdb
    rcases mem_all_stepF hq so ha with ha' | ha' <;> rcases mem_all_stepF hq so hb with hb' | hb'
    · exact so.jti a ha' b hb' d hda hdb
    · rcases so.jtf a ha' d hda with ⟨e1, e2⟩ | hf
      · rw [e1, e2]
        rw [e1, e2] at hda
        exact finv.jti p hp b hb' d hda hdb
      · have := old_jt b hb' d hdb
        have := fresh_gt d hf
        omega
    · rcases so.jtf b hb' d hdb with ⟨e1, e2⟩ | hf
      · rw [e1, e2]
        rw [e1, e2] at hdb
        exact finv.jti a ha' p hp d hda hdb
      · have := old_jt a ha' d hda
        have := fresh_gt d hf
        omega
    · exact finv.jti a ha' b hb' d hda hdb
  · intro c hc
    rw [so.queue_eq] at hc
    rcases List.mem_append.1 hc with hc | hc
    · exact (finv.scope c (by rw [hq]; simp [hc])).ext hext
    · obtain ⟨be, ce, h1, h2, h3⟩ := finv.scope p hpq
      have hcid : st.counter < c.id := (so.nw_ids c hc).1
      -- the scopes of `p`, seen from the new chunk
      have hbe : ∀ s ∈ be, ∃ v, st1.brk.lookup s = some v ∧ ∀ r, v = some r → r < c.id := by
        intro s hs
        obtain ⟨v, hv1, hv2⟩ := h2 s hs
        exact ⟨v, hext.brk s v hv1, fun r hr => by have := hv2 r hr; omega⟩
      have hce : ∀ s ∈ ce, ∃ d, st1.cont.lookup s = some d ∧ d ≤ c.id := by
        intro s hs
        obtain ⟨d, hd1, hd2⟩ := h3 s hs
        exact ⟨d, hext.cont s d hd1, by omega⟩
      rcases so.stm c hc with he | ⟨pre, x, r, hst, hr⟩
      · exact ⟨[], [], by rw [he]; trivial, by simp, by simp⟩
      · rw [hst, WFL_append, wfl_cons] at h1
        rcases hr with hr | ⟨hr, hb1, hb2⟩
        · exact ⟨be, ce, by rw [hr]; exact h1.2.2, hbe, hce⟩
        · refine ⟨scopeB x ++ be, scopeC x ++ ce, WFS_sub x be ce h1.2.1 _ hr, ?_, ?_⟩
          · intro s hs
            rcases List.mem_append.1 hs with hs | hs
            · exact hb1 s hs
            · exact hbe s hs
          · intro s hs
            rcases List.mem_append.1 hs with hs | hs
            · exact hb2 s hs
            · exact hce s hs
end step

theorem finv_init (body : List Stmt) (hw : ScopesWellFormed body) : FInv (initWS body) := by
  refine ⟨?_, ?_, ?_, ?_⟩
  · intro c hc r hr
    simp only [initWS, List.mem_singleton] at hc; subst hc; simp at hr
  · intro c hc _ d hd
    simp [allC, initWS] at hc; subst hc; simp [tailId] at hd
  · intro a ha b hb d hda
    simp [allC, initWS] at ha; subst ha; simp [jt] at hda
  · intro c hc
    simp only [initWS, List.mem_singleton] at hc; subst hc
    exact ⟨[], [], hw, by simp, by simp⟩

theorem run_finv : ∀ (f : Nat) (st st' : WS), runWorklist f st = .ok st' → Inv st → TInv st → FInv st →
    FInv st' ∧ st'.queue = [] := by
  intro f
  induction f with
  | zero => intro st st' h; simp [runWorklist] at h
  | succ f ih =>
    intro st st' h hinv tinv finv
    rw [runWorklist_succ] at h
    cases hq : st.queue with
    | nil =>
      simp only [hq] at h
      injection h with h; subst h
      exact ⟨finv, hq⟩
    | cons p q =>
      simp only [hq] at h
      cases hp : processChunk p { st with queue := q } with
      | error e => simp [hp] at h
      | ok st1 =>
        simp only [hp] at h
        have hpq : p ∈ st.queue := by rw [hq]; simp
        have hpa : p ∈ allC st := by unfold allC; rw [hq]; simp
        have hqok : QOK p := hinv.qok p hpq
        obtain ⟨nw, ch, sc, so⟩ := process_spec p _ st1 hqok hp
        obtain ⟨nw2, ch2, sc2⟩ := process_tf p _ st1 hp
        obtain ⟨nw3, ch3, sf⟩ := process_fu p _ st1 hp (tinv.idle p hpa) (finv.ret p hpq)
          (finv.back p hpa) (finv.scope p hpq)
        exact ih st1 st' h (step_inv hinv hq so) (step_tinv tinv hq sc2)
          (step_finv tinv finv hq (step_ext hinv hq so) sf)

/-- Forward tail edges of the chunk table are unique: two chunks whose `tailId` is the same chunk
`d` with a larger id than both are the same chunk. -/
def FwdUnique (G : List Chunk) : Prop :=
  ∀ a ∈ G, ∀ b ∈ G, ∀ d, tailId a = some d → tailId b = some d → a.id < d → b.id < d → a.id = b.id

/-- **Forward tail edges are unique** in the chunk table of a script with well-scoped `break` /
`continue` statements and pairwise distinct scope ids. -/
theorem scriptChunks_fwdUnique (body : List Stmt) (chunks : List Chunk) (hs : ScopeIdsDistinct body)
    (hw : ScopesWellFormed body) (h : scriptChunks body = .ok chunks) : FwdUnique chunks := by
  unfold scriptChunks at h
  split at h
  · cases h
  · rename_i st hrun
    injection h with h; subst h
    obtain ⟨finv, hq⟩ := run_finv _ (initWS body) st hrun (inv_init body hs) (tinv_init body)
      (finv_init body hw)
    have hall : ∀ x, x ∈ st.final → x ∈ allC st := fun x hx => by simp [allC, hq, hx]
    have key : ∀ a ∈ st.final, ∀ d, tailId a = some d → a.id < d → jt a = some d := by
      intro a ha d hd hlt
      cases hj : jt a with
      | none => have := finv.back a (hall a ha) hj d hd; omega
      | some d' =>
        have := jt_eq_tailId hj
        rw [hd] at this
        injection this with this
        rw [this]
    intro a ha b hb d hda hdb hla hlb
    exact finv.jti a (hall a ha) b (hall b hb) d (key a ha d hda hla) (key b hb d hdb hlb)

#print axioms scriptChunks_fwdUnique

end Pory.Emit
