import PoryProofs.TableFacts
/-
`scriptChunks_fwdUnique`: for a script whose `break` / `continue` statements are well scoped
(`ScopesWellFormed`) and whose scope ids are pairwise distinct (`ScopeIdsDistinct`) — both parser
guarantees — the chunk table built by the worklist has **unique forward tail edges**: two chunks
whose `tailId` is the same chunk `d` with an id larger than both are the same chunk.

Why: the only tails that can point forward (to a larger id) are "jump-like" ones (`jt`: a `.jump`
branch or the `default` of a `switch`), and every id is the jump-like tail of at most one chunk
(`FInv.jti`; true for every AST).  All other tails point backwards (`FInv.back`): return ids and the
`false` exits of leaves are allocated before the chunk; the target of a `break` / `continue` was
registered before the chunk containing it was created — this is where the two hypotheses are used
(`ScopeB`): without them a `continue` can pick up a loop header allocated later (see the
counterexample in `Properties/C05c.lean`).

Method (as in `TableFacts.lean`): `FO` abstracts a chunk builder, `StepF` one worklist step
(`process_fu`), `FInv` is the invariant of the run; `Inv` / `step_ext` (`Worklist.lean`) provide the
stability of the scope tables, `TInv` (`TableFacts.lean`) the bound `mentions ≤ counter`.
-/
namespace Pory.Emit
open Pory Pory.Sem

/-- jump-like tail of a chunk: the target of a `.jump`, or the `default` body of a `switch` -/
def jt (c : Chunk) : Option Nat :=
  match c.branch with
  | .jump d => some d
  | .switch_ _ _ (some d) _ => some d
  | _ => none

theorem jt_eq_tailId {c : Chunk} {d : Nat} (h : jt c = some d) : tailId c = some d := by
  unfold jt at h
  unfold tailId
  split at h <;> simp_all

/-- What a chunk builder produces, as far as tails are concerned.  `ex`: ids the caller may use as
jump-like tail of further chunks. -/
structure FO (s s' : WS) (nw : List Chunk) (ex : List Nat) : Prop where
  built : Built s s' nw
  ret : ∀ q ∈ nw, ∀ r, q.returnID = some r → r < q.id
  back : ∀ q ∈ nw, jt q = none → ∀ d, tailId q = some d → d < q.id
  jtf : ∀ q ∈ nw, ∀ d, jt q = some d → Fresh s.counter s'.counter d ∧ d ∉ ex
  jti : ∀ a ∈ nw, ∀ b ∈ nw, ∀ d, jt a = some d → jt b = some d → a.id = b.id

theorem FO.refl (s : WS) (ex : List Nat) : FO s s [] ex :=
  ⟨Built.refl s, by simp, by simp, by simp, by simp⟩

theorem FO.trans {a b c : WS} {x y : List Chunk} {ex : List Nat}
    (h1 : FO a b x ex) (h2 : FO b c y ex) : FO a c (x ++ y) ex := by
  have l1 := h1.built.counter_le
  have l2 := h2.built.counter_le
  refine ⟨h1.built.trans h2.built, ?_, ?_, ?_, ?_⟩
  · intro q hq
    rcases List.mem_append.1 hq with hq | hq
    · exact h1.ret q hq
    · exact h2.ret q hq
  · intro q hq
    rcases List.mem_append.1 hq with hq | hq
    · exact h1.back q hq
    · exact h2.back q hq
  · intro q hq d hd
    rcases List.mem_append.1 hq with hq | hq
    · obtain ⟨f, e⟩ := h1.jtf q hq d hd
      exact ⟨f.mono (Nat.le_refl _) l2, e⟩
    · obtain ⟨f, e⟩ := h2.jtf q hq d hd
      exact ⟨f.mono l1 (Nat.le_refl _), e⟩
  · intro p hp q hq d hdp hdq
    rcases List.mem_append.1 hp with hp | hp <;> rcases List.mem_append.1 hq with hq | hq
    · exact h1.jti p hp q hq d hdp hdq
    · have := (h1.jtf p hp d hdp).1.2
      have := (h2.jtf q hq d hdq).1.1
      omega
    · have := (h2.jtf p hp d hdp).1.1
      have := (h1.jtf q hq d hdq).1.2
      omega
    · exact h2.jti p hp q hq d hdp hdq

/-- change the exported ids: every new one was exported before or is out of range -/
theorem FO.ex {a b : WS} {x : List Chunk} {ex ex' : List Nat} (h : FO a b x ex)
    (hex : ∀ d ∈ ex', d ∈ ex ∨ ¬ Fresh a.counter b.counter d) : FO a b x ex' := by
  refine ⟨h.built, h.ret, h.back, ?_, h.jti⟩
  intro q hq d hd
  obtain ⟨f, e⟩ := h.jtf q hq d hd
  refine ⟨f, ?_⟩
  intro hm
  rcases hex d hm with h' | h'
  · exact e h'
  · exact h' f

theorem FO.reserve (s : WS) (ex : List Nat) : FO s { s with counter := s.counter + 1 } [] ex :=
  ⟨Built.reserve s, by simp, by simp, by simp, by simp⟩

/-- a chunk without jump-like tail whose tail / return id is not fresh -/
theorem FO.single (s : WS) (c : Chunk) (ex : List Nat) (hc : c.id = s.counter + 1)
    (hret : ∀ r, c.returnID = some r → r ≤ s.counter) (hjt : jt c = none)
    (htail : ∀ d, tailId c = some d → d ≤ s.counter) :
    FO s { s with counter := s.counter + 1, queue := s.queue ++ [c] } [c] ex := by
  refine ⟨Built.allocPush s c hc, ?_, ?_, ?_, ?_⟩
  · intro q hq r hr
    simp only [List.mem_singleton] at hq; subst hq
    have := hret r hr; omega
  · intro q hq _ d hd
    simp only [List.mem_singleton] at hq; subst hq
    have := htail d hd; omega
  · intro q hq d hd
    simp only [List.mem_singleton] at hq; subst hq
    rw [hjt] at hd; cases hd
  · intro a ha b hb d hda
    simp only [List.mem_singleton] at ha; subst ha
    rw [hjt] at hda; cases hda

/-- allocate the next id and queue a code chunk returning to an old id -/
theorem FO.pushCode (s : WS) (ret : Option Nat) (st : List Stmt) (ex : List Nat)
    (hret : ∀ r, ret = some r → r ≤ s.counter) :
    FO s (pushNew s ret st) [{ id := s.counter + 1, returnID := ret, statements := st }] ex :=
  FO.single s _ ex rfl hret rfl (by intro d hd; simp only [tailId] at hd; exact hret d hd)

/-- queue chunks whose ids were reserved between `s` and `s'` -/
theorem FO.push {s s' s'' : WS} {nw : List Chunk} {ex : List Nat} (h : FO s s' nw ex) (cs : List Chunk)
    (hq : s''.queue = s'.queue ++ cs) (hc : s''.counter = s'.counter) (hf : s''.final = s'.final)
    (hb : s''.brk = s'.brk) (hcn : s''.cont = s'.cont)
    (hids : ∀ q ∈ cs, Fresh s.counter s'.counter q.id)
    (hret : ∀ q ∈ cs, ∀ r, q.returnID = some r → r < q.id)
    (hback : ∀ q ∈ cs, jt q = none → ∀ d, tailId q = some d → d < q.id)
    (hjtf : ∀ q ∈ cs, ∀ d, jt q = some d → Fresh s.counter s'.counter d ∧ d ∉ ex)
    (hjti : ∀ a ∈ cs, ∀ b ∈ nw ++ cs, ∀ d, jt a = some d → jt b = some d → a.id = b.id) :
    FO s s'' (nw ++ cs) ex := by
  refine ⟨h.built.push cs hq hc hf hb hcn hids, ?_, ?_, ?_, ?_⟩
  · intro q hq'
    rcases List.mem_append.1 hq' with hq' | hq'
    · exact h.ret q hq'
    · exact hret q hq'
  · intro q hq'
    rcases List.mem_append.1 hq' with hq' | hq'
    · exact h.back q hq'
    · exact hback q hq'
  · intro q hq' d hd
    rw [hc]
    rcases List.mem_append.1 hq' with hq' | hq'
    · exact h.jtf q hq' d hd
    · exact hjtf q hq' d hd
  · intro a ha b hb' d hda hdb
    rcases List.mem_append.1 ha with ha | ha
    · rcases List.mem_append.1 hb' with hb' | hb'
      · exact h.jti a ha b hb' d hda hdb
      · exact (hjti b hb' a (List.mem_append_left _ ha) d hdb hda).symm
    · exact hjti a ha b hb' d hda hdb

/-! ### `splitChunkForBranch`, `splitBool`, `splitElifs` -/

theorem splitChunkForBranch_fo (c : Chunk) (i : Nat) (s : WS) (ex : List Nat)
    (hret : ∀ r, c.returnID = some r → r ≤ s.counter) :
    ∃ nw, FO s (splitChunkForBranch c i s).1 nw ex ∧
      (∀ d, (splitChunkForBranch c i s).2 = some d → d ≤ (splitChunkForBranch c i s).1.counter) ∧
      (∀ q ∈ nw, q.statements = c.statements.drop (i + 1) ∧ q.branch = .none) := by
  unfold splitChunkForBranch
  split
  · exact ⟨[], FO.refl _ _, fun d h => hret d h, by simp⟩
  · refine ⟨_, FO.pushCode s c.returnID _ ex hret, ?_, ?_⟩
    · intro d h
      simp only [Option.some.injEq] at h
      subst h
      simp
    · intro q hq
      simp only [List.mem_singleton] at hq; subst hq; exact ⟨rfl, rfl⟩

theorem splitBool_fo (e : BoolExpr) : ∀ (succ : Nat) (fail : Option Nat) (s s' : WS) (entry : Nat),
    splitBool e succ fail s = .ok (s', entry) → (∀ d, fail = some d → d ≤ s.counter) →
    ∃ nw, FO s s' nw [entry] ∧ Fresh s.counter s'.counter entry ∧ ∀ q ∈ nw, q.statements = [] := by
  induction e with
  | leaf x =>
    intro succ fail s s' entry h hfail
    simp only [splitBool, Except.ok.injEq, Prod.mk.injEq] at h
    obtain ⟨rfl, rfl⟩ := h
    refine ⟨[{ id := s.counter + 1, branch := .leaf succ x fail }],
      FO.single s _ _ rfl (by simp) rfl ?_, by simp [Fresh], by simp⟩
    intro d hd
    simp only [tailId] at hd
    exact hfail d hd
  | bin l op r ihl ihr =>
    intro succ fail s s' entry h hfail
    rw [splitBool] at h
    have main : ∀ (fl : Option Nat) (sl : Nat) (s2 s3 : WS) (le re : Nat),
        (∀ d, fl = some d → d ≤ s.counter + 1) →
        splitBool l sl fl { s with counter := s.counter + 1 } = .ok (s2, le) →
        splitBool r succ fail s2 = .ok (s3, re) →
        ∃ nw, FO s { s3 with queue := s3.queue ++ [{ id := s.counter + 1, branch := .jump re }] } nw [le] ∧
          Fresh s.counter s3.counter le ∧ ∀ q ∈ nw, q.statements = [] := by
      intro fl sl s2 s3 le re hfl hl hr
      obtain ⟨nl, fol, fle, hsl⟩ := ihl _ _ _ _ _ hl hfl
      have c1 := fol.built.counter_le
      simp only at c1 fle
      obtain ⟨nr, for_, fre, hsr⟩ := ihr _ _ _ _ _ hr (fun d hd => by have := hfail d hd; omega)
      have c2 := for_.built.counter_le
      have hfle : Fresh s.counter s3.counter le := ⟨by have := fle.1; omega, by have := fle.2; omega⟩
      -- the chunks of `l` and `r`, exporting both entries
      have fo1 : FO { s with counter := s.counter + 1 } s2 nl [le, re] :=
        fol.ex (fun d hd => by
          simp only [List.mem_cons, List.mem_nil_iff, or_false] at hd
          rcases hd with rfl | rfl
          · exact .inl (by simp)
          · exact .inr (fun hf => by have := hf.2; have := fre.1; omega))
      have fo2 : FO s2 s3 nr [le, re] :=
        for_.ex (fun d hd => by
          simp only [List.mem_cons, List.mem_nil_iff, or_false] at hd
          rcases hd with rfl | rfl
          · exact .inr (fun hf => by have := hf.1; have := fle.2; omega)
          · exact .inl (by simp))
      have fo3 : FO s s3 (nl ++ nr) [le, re] := by
        have := ((FO.reserve s [le, re]).trans fo1).trans fo2
        simpa using this
      have fo3' : FO s s3 (nl ++ nr) [le] :=
        fo3.ex (fun d hd => by simp only [List.mem_singleton] at hd; subst hd; exact .inl (by simp))
      have fo4 := fo3'.push [{ id := s.counter + 1, branch := .jump re }]
        (s'' := { s3 with queue := s3.queue ++ [{ id := s.counter + 1, branch := .jump re }] })
        rfl rfl rfl rfl rfl
        (by intro q hq; simp only [List.mem_singleton] at hq; subst hq; exact ⟨by simp, by simp only; omega⟩)
        (by intro q hq r hr'; simp only [List.mem_singleton] at hq; subst hq; simp at hr')
        (by intro q hq hj; simp only [List.mem_singleton] at hq; subst hq; simp [jt] at hj)
        (by
          intro q hq d hd
          simp only [List.mem_singleton] at hq; subst hq
          simp only [jt, Option.some.injEq] at hd
          subst hd
          refine ⟨⟨by have := fre.1; omega, fre.2⟩, ?_⟩
          simp only [List.mem_singleton]
          intro e
          have := fre.1; have := fle.2; omega)
        (by
          intro a ha b hb d hda hdb
          simp only [List.mem_singleton] at ha; subst ha
          simp only [jt, Option.some.injEq] at hda
          subst hda
          rcases List.mem_append.1 hb with hb | hb
          · exfalso
            exact (fo3.jtf b hb _ hdb).2 (by simp)
          · simp only [List.mem_singleton] at hb; subst hb; rfl)
      exact ⟨_, fo4, hfle, by
        intro q hq
        simp only [List.mem_append, List.mem_singleton] at hq
        rcases hq with (hq | hq) | rfl
        · exact hsl q hq
        · exact hsr q hq
        · rfl⟩
    split at h
    · simp only at h
      split at h
      · cases h
      · rename_i s2 le hl
        split at h
        · cases h
        · rename_i s3 re hr
          simp only [Except.ok.injEq, Prod.mk.injEq] at h
          obtain ⟨rfl, rfl⟩ := h
          exact main _ _ _ _ _ _ (fun d hd => by have := hfail d hd; omega) hl hr
    · split at h
      · simp only at h
        split at h
        · cases h
        · rename_i s2 le hl
          split at h
          · cases h
          · rename_i s3 re hr
            simp only [Except.ok.injEq, Prod.mk.injEq] at h
            obtain ⟨rfl, rfl⟩ := h
            exact main _ _ _ _ _ _ (fun d hd => by simp only [Option.some.injEq] at hd; omega) hl hr
      · cases h

theorem splitElifs_fo (lastFail : Option Nat) :
    ∀ (elifs : List (BoolExpr × List Stmt)) (ids : List Nat) (s s' : WS) (r : Option Nat),
    splitElifs elifs ids lastFail s = .ok (s', r) → (∀ d, lastFail = some d → d ≤ s.counter) →
    ∃ nw, FO s s' nw [] ∧ (∀ e, r = some e → e ≤ s'.counter) ∧ ∀ q ∈ nw, q.statements = [] := by
  intro elifs
  induction elifs with
  | nil =>
    intro ids s s' r h hl
    simp only [splitElifs, Except.ok.injEq, Prod.mk.injEq] at h
    obtain ⟨rfl, rfl⟩ := h
    exact ⟨[], FO.refl _ _, hl, by simp⟩
  | cons a restE ih =>
    intro ids s s' r h hl
    obtain ⟨c, b0⟩ := a
    cases ids with
    | nil =>
      simp only [splitElifs, Except.ok.injEq, Prod.mk.injEq] at h
      obtain ⟨rfl, rfl⟩ := h
      exact ⟨[], FO.refl _ _, hl, by simp⟩
    | cons id restI =>
      rw [splitElifs] at h
      split at h
      · cases h
      · rename_i s1 nextEntry h1
        split at h
        · cases h
        · rename_i s2 entry h2
          simp only [Except.ok.injEq, Prod.mk.injEq] at h
          obtain ⟨rfl, rfl⟩ := h
          obtain ⟨nw1, f1, r1, e1⟩ := ih restI s s1 nextEntry h1 hl
          obtain ⟨nw2, f2, fe, e2⟩ := splitBool_fo c id nextEntry s1 s2 entry h2 r1
          refine ⟨nw1 ++ nw2, f1.trans (f2.ex (by simp)), ?_, ?_⟩
          · intro e he
            simp only [Option.some.injEq] at he; subst he
            exact fe.2
          · intro q hq
            rcases List.mem_append.1 hq with hq | hq
            · exact e1 q hq
            · exact e2 q hq

/-! ### `createIf` -/

theorem armChunks_fo (ret : Option Nat) (ex : List Nat) :
    ∀ (arms : List (BoolExpr × List Stmt)) (s : WS), (∀ r, ret = some r → r ≤ s.counter) →
    FO s { s with counter := s.counter + arms.length, queue := s.queue ++ armChunks ret s.counter arms }
      (armChunks ret s.counter arms) ex := by
  intro arms
  induction arms with
  | nil =>
    intro s _
    have : ({ s with
          counter := s.counter + ([] : List (BoolExpr × List Stmt)).length,
          queue := s.queue ++ armChunks ret s.counter [] } : WS) = s := by
      cases s; simp [armChunks]
    rw [this]
    exact FO.refl _ _
  | cons e r ih =>
    intro s hret
    have h := (FO.pushCode s ret e.2 ex hret).trans (ih (pushNew s ret e.2)
      (fun x hx => by have := hret x hx; simp only [pushNew]; omega))
    have he : ({ (pushNew s ret e.2) with
          counter := (pushNew s ret e.2).counter + r.length,
          queue := (pushNew s ret e.2).queue ++ armChunks ret (pushNew s ret e.2).counter r } : WS) =
        { s with
          counter := s.counter + (e :: r).length,
          queue := s.queue ++ armChunks ret s.counter (e :: r) } := by
      simp only [pushNew, armChunks, List.length_cons, List.append_assoc, List.cons_append,
        List.nil_append, WS.mk.injEq, and_true]
      omega
    rw [he] at h
    exact h

theorem elseStep_fo (post : Option Nat) (a : WS) (els : Option (List Stmt)) (ex : List Nat)
    (hret : ∀ r, post = some r → r ≤ a.counter) :
    ∃ nw, FO a (elseStep post a els).1 nw ex ∧
      (∀ id, (elseStep post a els).2 = some id → id ≤ (elseStep post a els).1.counter) ∧
      (∀ q ∈ nw, els = some q.statements) := by
  cases els with
  | none => exact ⟨[], FO.refl _ _, fun id h => by simp [elseStep] at h, by simp⟩
  | some st =>
    refine ⟨_, FO.pushCode a post st ex hret, ?_, ?_⟩
    · intro id h
      simp only [elseStep, Option.some.injEq] at h
      subst h
      simp [elseStep, pushNew]
    · intro q hq
      simp only [List.mem_singleton] at hq; subst hq; rfl

theorem ifTail_fo (cond : BoolExpr) (elifs : List (BoolExpr × List Stmt)) (ids : List Nat) (consId : Nat)
    (post : Option Nat) (e : WS × Option Nat) (s' : WS) (br : Branch) (ret : Option Nat)
    (h : ifTail cond elifs ids consId post e = .ok (s', br, ret))
    (hpost : ∀ d, post = some d → d ≤ e.1.counter) (he2 : ∀ d, e.2 = some d → d ≤ e.1.counter) :
    ∃ nw entry, br = .jump entry ∧ Fresh e.1.counter s'.counter entry ∧ FO e.1 s' nw [entry] ∧
      ∀ q ∈ nw, q.statements = [] := by
  unfold ifTail at h
  split at h
  · cases h
  · rename_i s1 afterCons h1
    split at h
    · cases h
    · rename_i s2 entry h2
      simp only [Except.ok.injEq, Prod.mk.injEq] at h
      obtain ⟨rfl, rfl, rfl⟩ := h
      obtain ⟨nw1, f1, r1, e1⟩ := splitElifs_fo _ _ _ _ _ _ h1 (by
        intro d hd
        split at hd
        · rename_i id hid
          simp only [Option.some.injEq] at hd; subst hd
          exact he2 _ hid
        · exact hpost d hd)
      obtain ⟨nw2, f2, fe, e2⟩ := splitBool_fo _ _ _ _ _ _ h2 r1
      have l1 := f1.built.counter_le
      refine ⟨nw1 ++ nw2, entry, rfl, fe.mono l1 (Nat.le_refl _), ?_, ?_⟩
      · refine (f1.ex ?_).trans f2
        intro d hd
        simp only [List.mem_singleton] at hd; subst hd
        exact .inr (fun hf => by have := hf.2; have := fe.1; omega)
      · intro q hq
        rcases List.mem_append.1 hq with hq | hq
        · exact e1 q hq
        · exact e2 q hq

theorem createIf_fo (tok : Tok) (cond : BoolExpr) (body : List Stmt) (elifs : List (BoolExpr × List Stmt))
    (els : Option (List Stmt)) (c : Chunk) (i : Nat) (s s' : WS) (br : Branch) (ret : Option Nat)
    (h : createIf cond body elifs els c i s = .ok (s', br, ret))
    (hret : ∀ r, c.returnID = some r → r ≤ s.counter) :
    ∃ nw entry, br = .jump entry ∧ Fresh s.counter s'.counter entry ∧ FO s s' nw [entry] ∧
      ∀ q ∈ nw, q.statements = [] ∨ q.statements = c.statements.drop (i + 1) ∨
        q.statements ∈ subBlocks (.ite tok cond body elifs els) := by
  rw [createIf_eq] at h
  obtain ⟨nsp, fsp, hpost, hsp⟩ := splitChunkForBranch_fo c i s [] hret
  generalize splitChunkForBranch c i s = sp at h fsp hpost
  obtain ⟨s0, post⟩ := sp
  simp only at h fsp hpost
  rw [foldl_armStep] at h
  simp only [List.nil_append] at h
  have l0 := fsp.built.counter_le
  have fcons := FO.pushCode s0 post body [] hpost
  have farms := armChunks_fo post [] elifs (pushNew s0 post body)
    (fun r hr => by have := hpost r hr; simp only [pushNew]; omega)
  have f1 := fcons.trans farms
  generalize ha : ({ (pushNew s0 post body) with
        counter := (pushNew s0 post body).counter + elifs.length,
        queue := (pushNew s0 post body).queue ++ armChunks post (pushNew s0 post body).counter elifs } : WS) = a
    at h f1
  have la : s0.counter + 1 ≤ a.counter := by rw [← ha]; simp [pushNew]
  obtain ⟨nel, fel, hel, sel⟩ := elseStep_fo post a els [] (fun r hr => by have := hpost r hr; omega)
  have f2 := f1.trans fel
  have l2 := fel.built.counter_le
  obtain ⟨nh, entry, hbr, hentry, fh, sh⟩ := ifTail_fo _ _ _ _ _ _ _ _ _ h
    (fun d hd => by have := hpost d hd; omega) hel
  have l3 := fh.built.counter_le
  have hout : ∀ (x : WS) (nx : List Chunk), x.counter ≤ (elseStep post a els).1.counter → s.counter ≤ x.counter →
      FO s x nx [] → FO s x nx [entry] := by
    intro x nx hx1 hx2 fx
    refine fx.ex ?_
    intro d hd
    simp only [List.mem_singleton] at hd; subst hd
    exact .inr (fun hf => by have := hf.2; have := hentry.1; omega)
  have f3 : FO s (elseStep post a els).1 (nsp ++ (([{ id := s0.counter + 1, returnID := post, statements := body }] ++
      armChunks post (pushNew s0 post body).counter elifs) ++ nel)) [] := fsp.trans f2
  have f4 := (hout _ _ (Nat.le_refl _) (by omega) f3).trans
    (fh.ex (ex' := [entry]) (fun d hd => .inl hd))
  refine ⟨_, entry, hbr, ⟨by have := hentry.1; omega, hentry.2⟩, f4, ?_⟩
  intro q hq
  simp only [List.mem_append, List.mem_singleton] at hq
  rcases hq with (hq | (rfl | hq) | hq) | hq
  · exact .inr (.inl (hsp q hq).1)
  · exact .inr (.inr (by simp [subBlocks]))
  · have := armChunks_stmts post elifs _ q hq
    exact .inr (.inr (by simp only [subBlocks, List.mem_cons, List.mem_append]; exact .inr (.inl this)))
  · have := sel q hq
    subst this
    exact .inr (.inr (by simp [subBlocks]))
  · exact .inl (sh q hq)

/-! ### loops -/

theorem loop_fo (s0 s3 s' : WS) (nh : List Chunk) (post : Option Nat) (body : List Stmt) (tgt pt : Nat)
    (b : FO { s0 with counter := s0.counter + 1 + 1 } s3 nh [tgt])
    (htgt : Fresh s0.counter s3.counter tgt) (hpt : pt ≤ s0.counter + 1 + 1) (htp : tgt ≠ pt)
    (hpost : ∀ r, post = some r → r ≤ s0.counter)
    (hq : s'.queue = s3.queue ++
      [{ id := s0.counter + 1 + 1, returnID := some (s0.counter + 1), statements := body },
       { id := s0.counter + 1, returnID := post, branch := .jump tgt }])
    (hc : s'.counter = s3.counter) (hf : s'.final = s3.final) (hb : s'.brk = s3.brk)
    (hcn : s'.cont = s3.cont) :
    FO s0 s' (nh ++
      [{ id := s0.counter + 1 + 1, returnID := some (s0.counter + 1), statements := body },
       { id := s0.counter + 1, returnID := post, branch := .jump tgt }]) [pt] := by
  have l := b.built.counter_le
  simp only at l
  have b' : FO { s0 with counter := s0.counter + 1 + 1 } s3 nh [pt] := b.ex (by
    intro d hd
    simp only [List.mem_singleton] at hd; subst hd
    exact .inr (fun hf => by have := hf.1; simp only at this; omega))
  have g1 : FO s0 s3 nh [pt] := by
    have := ((FO.reserve s0 [pt]).trans (FO.reserve _ [pt])).trans b'
    simpa using this
  refine g1.push _ hq hc hf hb hcn ?_ ?_ ?_ ?_ ?_
  · intro q hq'
    simp only [List.mem_cons, List.mem_nil_iff, or_false] at hq'
    rcases hq' with rfl | rfl
    · exact ⟨by simp only; omega, by simp only; omega⟩
    · exact ⟨by simp only; omega, by simp only; omega⟩
  · intro q hq' r hr
    simp only [List.mem_cons, List.mem_nil_iff, or_false] at hq'
    rcases hq' with rfl | rfl
    · simp only [Option.some.injEq] at hr; subst hr; simp
    · have := hpost r hr; simp only; omega
  · intro q hq' hj d hd
    simp only [List.mem_cons, List.mem_nil_iff, or_false] at hq'
    rcases hq' with rfl | rfl
    · simp only [tailId, Option.some.injEq] at hd; subst hd; simp
    · simp [jt] at hj
  · intro q hq' d hd
    simp only [List.mem_cons, List.mem_nil_iff, or_false] at hq'
    rcases hq' with rfl | rfl
    · simp [jt] at hd
    · simp only [jt, Option.some.injEq] at hd; subst hd
      exact ⟨htgt, by simpa using htp⟩
  · intro a ha b'' hb'' d hda hdb
    simp only [List.mem_cons, List.mem_nil_iff, or_false] at ha
    rcases ha with rfl | rfl
    · simp [jt] at hda
    · simp only [jt, Option.some.injEq] at hda; subst hda
      simp only [List.mem_append, List.mem_cons, List.mem_nil_iff, or_false] at hb''
      rcases hb'' with hb'' | rfl | rfl
      · exact absurd (List.mem_singleton.2 rfl) (b.jtf b'' hb'' _ hdb).2
      · simp [jt] at hdb
      · rfl

theorem createWhile_fo (cond : Option BoolExpr) (body : List Stmt) (c : Chunk) (i : Nat) (s s' : WS)
    (br : Branch) (ret : Option Nat) (contId : Nat)
    (h : createWhile cond body c i s = .ok (s', br, ret, contId))
    (hret : ∀ r, c.returnID = some r → r ≤ s.counter) :
    ∃ nw t, br = .jump t ∧ Fresh s.counter s'.counter t ∧ FO s s' nw [t] ∧
      ∀ q ∈ nw, q.statements = [] ∨ q.statements = c.statements.drop (i + 1) ∨
        (q.statements = body ∧ (∀ r, ret = some r → r < q.id) ∧ contId ≤ q.id) := by
  unfold createWhile at h
  simp only [alloc] at h
  obtain ⟨nsp, fsp, hpost, hsp⟩ := splitChunkForBranch_fo c i s [(splitChunkForBranch c i s).1.counter + 1] hret
  generalize splitChunkForBranch c i s = sp at h fsp hpost
  obtain ⟨s0, post⟩ := sp
  simp only at h fsp hpost
  have l0 := fsp.built.counter_le
  have stm : ∀ (nh : List Chunk) (tgt : Nat), (∀ q ∈ nh, q.statements = []) →
      ∀ q ∈ nsp ++ (nh ++
        [{ id := s0.counter + 1 + 1, returnID := some (s0.counter + 1), statements := body },
         { id := s0.counter + 1, returnID := post, branch := .jump tgt }]),
      q.statements = [] ∨ q.statements = c.statements.drop (i + 1) ∨
        (q.statements = body ∧ (∀ r, post = some r → r < q.id) ∧ s0.counter + 1 ≤ q.id) := by
    intro nh tgt hnh q hq
    simp only [List.mem_append, List.mem_cons, List.mem_nil_iff, or_false] at hq
    rcases hq with hq | hq | rfl | rfl
    · exact .inr (.inl (hsp q hq).1)
    · exact .inl (hnh q hq)
    · refine .inr (.inr ⟨rfl, ?_, by simp⟩)
      intro r hr
      have := hpost r hr
      simp only; omega
    · exact .inl rfl
  cases cond with
  | none =>
    simp only [Except.ok.injEq, Prod.mk.injEq] at h
    obtain ⟨hs, rfl, rfl, rfl⟩ := h
    have bl := loop_fo s0 { s0 with counter := s0.counter + 1 + 1 } s' [] post body (s0.counter + 1 + 1)
      (s0.counter + 1) (FO.refl _ _) ⟨by omega, by simp⟩ (by omega) (by omega) hpost
      (by rw [← hs]) (by rw [← hs]) (by rw [← hs]) (by rw [← hs]) (by rw [← hs])
    have hc : s'.counter = s0.counter + 1 + 1 := by rw [← hs]
    refine ⟨_, s0.counter + 1, rfl, ⟨by omega, by omega⟩, fsp.trans bl, ?_⟩
    exact stm [] _ (by simp)
  | some e =>
    simp only at h
    split at h
    · cases h
    · rename_i s3 entry h3
      simp only [Except.ok.injEq, Prod.mk.injEq] at h
      obtain ⟨hs, rfl, rfl, rfl⟩ := h
      obtain ⟨nh, fh, fentry, snh⟩ := splitBool_fo _ _ _ _ _ _ h3 (by
        intro d hd; have := hpost d hd; simp only; omega)
      have l3 := fh.built.counter_le
      simp only at l3 fentry
      have bl := loop_fo s0 s3 s' nh post body entry (s0.counter + 1) fh
        ⟨by have := fentry.1; omega, fentry.2⟩ (by omega) (by have := fentry.1; omega) hpost
        (by rw [← hs]) (by rw [← hs]) (by rw [← hs]) (by rw [← hs]) (by rw [← hs])
      have hc : s'.counter = s3.counter := by rw [← hs]
      refine ⟨_, s0.counter + 1, rfl, ⟨by omega, by omega⟩, fsp.trans bl, ?_⟩
      exact stm nh _ snh

theorem createDoWhile_fo (cond : BoolExpr) (body : List Stmt) (c : Chunk) (i : Nat) (s s' : WS)
    (br : Branch) (ret : Option Nat) (contId : Nat)
    (h : createDoWhile cond body c i s = .ok (s', br, ret, contId))
    (hret : ∀ r, c.returnID = some r → r ≤ s.counter) :
    ∃ nw t, br = .jump t ∧ Fresh s.counter s'.counter t ∧ FO s s' nw [t] ∧
      ∀ q ∈ nw, q.statements = [] ∨ q.statements = c.statements.drop (i + 1) ∨
        (q.statements = body ∧ (∀ r, ret = some r → r < q.id) ∧ contId ≤ q.id) := by
  unfold createDoWhile at h
  simp only [alloc] at h
  obtain ⟨nsp, fsp, hpost, hsp⟩ := splitChunkForBranch_fo c i s [(splitChunkForBranch c i s).1.counter + 1 + 1] hret
  generalize splitChunkForBranch c i s = sp at h fsp hpost
  obtain ⟨s0, post⟩ := sp
  simp only at h fsp hpost
  have l0 := fsp.built.counter_le
  split at h
  · cases h
  · rename_i s3 entry h3
    simp only [Except.ok.injEq, Prod.mk.injEq] at h
    obtain ⟨hs, rfl, rfl, rfl⟩ := h
    obtain ⟨nh, fh, fentry, snh⟩ := splitBool_fo _ _ _ _ _ _ h3 (by
      intro d hd; have := hpost d hd; simp only; omega)
    have l3 := fh.built.counter_le
    simp only at l3 fentry
    have bl := loop_fo s0 s3 s' nh post body entry (s0.counter + 1 + 1) fh
      ⟨by have := fentry.1; omega, fentry.2⟩ (by omega) (by have := fentry.1; omega) hpost
      (by rw [← hs]) (by rw [← hs]) (by rw [← hs]) (by rw [← hs]) (by rw [← hs])
    have hc : s'.counter = s3.counter := by rw [← hs]
    refine ⟨_, s0.counter + 1 + 1, rfl, ⟨by omega, by omega⟩, fsp.trans bl, ?_⟩
    intro q hq
    simp only [List.mem_append, List.mem_cons, List.mem_nil_iff, or_false] at hq
    rcases hq with hq | hq | rfl | rfl
    · exact .inr (.inl (hsp q hq).1)
    · exact .inl (snh q hq)
    · refine .inr (.inr ⟨rfl, ?_, by simp⟩)
      intro r hr
      have := hpost r hr
      simp only; omega
    · exact .inl rfl

end Pory.Emit
