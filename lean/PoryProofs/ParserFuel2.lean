import PoryProofs.ParserFuel
/-
C18 (totality of the parser), part 3: how many tokens each function consumes.
-/
namespace Pory.Parser
open Pory

/-- On success `m` does not lengthen the token window and shortens it by at least `k` tokens, when the
end-of-input token has type `EOF`. -/
def Dec {α} (k : Nat) (m : PM α) : Prop :=
  ∀ s, s.eof.type = .EOF → wp m s (fun _ s' => s'.toks.length + k ≤ s.toks.length)

/-- Rewrite rule for a call of a function with a frame and a consumption fact. -/
theorem Frame.dec_iff {α} {m : PM α} {k : Nat} (hf : Frame m) (hd : Dec k m) (s : PState)
    (Q : α → PState → Prop) :
    wp m s Q ↔ ∀ a l c, m.run s = .ok (a, upd s l c) →
      (s.eof.type = .EOF → l.length + k ≤ s.toks.length) → Q a (upd s l c) := by
  constructor
  · intro h a l c hr _; exact h a _ hr
  · intro h a s' hr
    obtain ⟨l, c, rfl⟩ := hf s a s' hr
    exact h a l c hr (fun he => hd s he a _ hr)

theorem getD_cases (l : List Tok) (k : Nat) (e : Tok) : k < l.length ∨ l.getD k e = e := by
  by_cases h : k < l.length
  · exact Or.inl h
  · right; simp [List.getD, List.getElem?_eq_none (Nat.le_of_not_lt h)]

theorem headD_cases (l : List Tok) (e : Tok) : 0 < l.length ∨ l.headD e = e := by
  cases l <;> simp

theorem ite_iff_and (c : Prop) [Decidable c] (P Q : Prop) :
    (if c then P else Q) ↔ (c → P) ∧ (¬ c → Q) := by
  split <;> simp_all

/-- Symbolic execution that also turns `if`s between propositions into implications. -/
syntax "fsimp" (" [" Lean.Parser.Tactic.simpLemma,* "]")? : tactic
macro_rules
  | `(tactic| fsimp) => `(tactic| nfsimp [ite_iff_and, true_implies, false_implies, not_false_eq_true,
      not_true_eq_false])
  | `(tactic| fsimp [$ts,*]) => `(tactic| nfsimp [ite_iff_and, true_implies, false_implies, not_false_eq_true,
      not_true_eq_false, $ts,*])

/-- Break a verification condition into its leaves. -/
syntax "vcfin" (" [" Lean.Parser.Tactic.simpLemma,* "]")? : tactic
macro_rules
  | `(tactic| vcfin) => `(tactic| repeat' (first | (exact True.intro) | (apply And.intro) | (with_reducible intro _) | (fsimp) | (split)))
  | `(tactic| vcfin [$ts,*]) => `(tactic| repeat' (first | (exact True.intro) | (apply And.intro) | (with_reducible intro _) | (fsimp [$ts,*]) | (split)))

/-- Close an arithmetic leaf about window lengths; a token whose type is not `EOF` is a real token. -/
macro "lenfin" : tactic => `(tactic| grind [getD_cases, headD_cases])

theorem dec_parsePoryswitchHeader (env : Env) : Dec 1 (parsePoryswitchHeader env) := by
  intro s he
  unfold parsePoryswitchHeader
  vcfin
  all_goals lenfin

theorem dec_parseScopeModifier (d : TT) : Dec 0 (parseScopeModifier d) := by
  intro s he
  unfold parseScopeModifier
  vcfin
  all_goals lenfin

theorem dec_formatNamedParams : ∀ (n : Nat) (fp : FmtParams), Dec 0 (formatNamedParams n fp) := by
  intro n
  induction n with
  | zero => intro fp s he; rw [formatNamedParams]; wpsimp
  | succ n ih =>
    intro fp s he
    rw [formatNamedParams]
    vcfin [(frame_formatNamedParams _ _).dec_iff (ih _), iff_true_intro he]
    all_goals lenfin

/- `tail`s are collected into `drop`s here so that most leaves (`(drop k l).length ≤ l.length`) are closed
while the verification condition is built; the function has many `if`s in sequence. -/
theorem dec_parseFormatStringOperator (env : Env) (n : Nat) : Dec 0 (parseFormatStringOperator env n) := by
  intro s he
  unfold parseFormatStringOperator
  vcfin [(frame_formatNamedParams _ _).dec_iff (dec_formatNamedParams _ _), iff_true_intro he, wp_fmtMatch,
    ← List.drop_one, List.drop_drop, List.length_drop, Nat.sub_le, Nat.add_zero]
  all_goals lenfin

theorem dec_parseTextValue (env : Env) (n : Nat) : Dec 0 (parseTextValue env n) := by
  intro s he
  unfold parseTextValue
  vcfin [(frame_parseFormatStringOperator _ _).dec_iff (dec_parseFormatStringOperator _ _), iff_true_intro he]
  all_goals lenfin

theorem dec_poryswitchTextCases (env : Env) (tok : Tok) :
    ∀ (n : Nat) (acc : List (String × String × String)), Dec 0 (poryswitchTextCases env tok n acc) := by
  intro n
  induction n with
  | zero => intro acc s he; rw [poryswitchTextCases]; wpsimp
  | succ n ih =>
    intro acc s he
    rw [poryswitchTextCases]
    vcfin [(frame_poryswitchTextCases _ _ _ _).dec_iff (ih _),
      (frame_parseTextValue _ _).dec_iff (dec_parseTextValue _ _), iff_true_intro he]
    all_goals lenfin

theorem dec_parsePoryswitchTextStatement (env : Env) (n : Nat) :
    Dec 0 (parsePoryswitchTextStatement env n) := by
  intro s he
  unfold parsePoryswitchTextStatement
  vcfin [(frame_parsePoryswitchHeader _).dec_iff (dec_parsePoryswitchHeader _),
    (frame_poryswitchTextCases _ _ _ _).dec_iff (dec_poryswitchTextCases _ _ _ _), iff_true_intro he]
  all_goals lenfin

end Pory.Parser
