import PoryProofs.ProgramShiftE
import PoryProofs.ProgramIds
/-
P2f helpers (ProgramIds re-run over the body grammar of P1c): the ids handed out by the reference elaboration of a
script body of P1c lie between the counters.

Interface lemmas: `elabC_ids` (the node of a command and all its implicit data — hoisted texts, `format( … )`
texts, hoisted movements of `moves( … )` with or without poryswitch — carry the command's own id),
`res_ids` (leaves), `elabOr_ids` (conditions over any leaf type), then the six-function induction
`elabS_idsE … elabPCases_idsE`.
-/
namespace Pory.P2f
open Pory Pory.Parser Pory.C02P Pory.C10b Pory.SwitchParse Pory.BoolGen Pory.CmdGen Pory.LeafGen Pory.P1c
open Pory.C14b (swVal)
open Pory.StmtG (caseValue caseTok autoPosBad operandOf Ctx ctxOf)
open Pory.C11b (operandName Form autoLeafT autoE)
open Pory.C12c
open Pory.P2
open Pory.TextValueParse

/-! ### commands -/

theorem relImp_impOfM (R : Ren) (env : Env) (sn : String) (cid' cid : Nat) (h : R.c cid' cid) (ct : Tok) (pos : Nat)
    (e : MElem) : relImp R (impOfM env sn cid' ct pos e) (impOfM env sn cid ct pos e) := by
  cases e with
  | base e =>
    cases e with
    | base e => simp only [impOfM, impOfI]; exact relImp_impOf R sn cid' cid h ct pos e
    | fmt fm lp sty text P rp => simp [impOfM, impOfI, fmtImp, relImp, All2, relText, h]
  | movesS mv lp items rp => simp [impOfM, movImp, relImp, All2, relMove, h]

theorem relImp_impArgM (R : Ren) (env : Env) (sn : String) (cid' cid : Nat) (h : R.c cid' cid) (ct : Tok)
    (pos : Nat) : ∀ (a : List MElem), relImp R (impArgM env sn cid' ct pos a) (impArgM env sn cid ct pos a)
  | [] => relImp.nil R
  | e :: r => relImp.add (relImp_impOfM R env sn cid' cid h ct pos e) (relImp_impArgM R env sn cid' cid h ct pos r)

theorem relImp_impArgsM (R : Ren) (env : Env) (sn : String) (cid' cid : Nat) (h : R.c cid' cid) (ct : Tok) :
    ∀ (pos : Nat) (l : List (List MElem)),
      relImp R (impArgsM env sn cid' ct pos l) (impArgsM env sn cid ct pos l)
  | _, [] => relImp.nil R
  | pos, a :: r =>
    relImp.add (relImp_impArgM R env sn cid' cid h ct pos a) (relImp_impArgsM R env sn cid' cid h ct (pos + 1) r)

/-- **Commands**: the node and every piece of implicit data carry the id `cid`. -/
theorem elabC_ids (env : Env) (sn : String) (σ : String → String) (cid : Nat) (c : CmdM) (cmd : Cmd) (m : ImpData)
    (h : c.elabC env sn σ cid = .ok (cmd, m)) :
    relCmd (Rid cid (cid + 1)) cmd cmd ∧ relImp (Rid cid (cid + 1)) m m := by
  unfold CmdM.elabC at h
  cases he : argsErrM env c.argList with
  | some e => simp [he] at h
  | none =>
    simp only [he, Except.ok.injEq, Prod.mk.injEq] at h
    obtain ⟨rfl, rfl⟩ := h
    exact ⟨⟨⟨rfl, Nat.le_refl _, Nat.lt_succ_self _⟩, rfl, rfl, rfl⟩,
      relImp_impArgsM (Rid cid (cid + 1)) env sn cid cid ⟨rfl, Nat.le_refl _, Nat.lt_succ_self _⟩ _ 0 _⟩

/-! ### leaves -/

theorem relOp_self (R : Ren) {e : OpExpr} (h : relOptCmd R e.preamble e.preamble) : relOp R e e :=
  ⟨rfl, rfl, rfl, rfl, rfl, h⟩

theorem negLeaf_pre (neg : Bool) (t : OpExpr) : (negLeaf neg t).preamble = t.preamble := by cases neg <;> rfl

theorem res_ids (env : Env) (sn : String) (σ : String → String) (id : Nat) (lf : CLeaf) (t : OpExpr) (m : ImpData)
    (j : Nat) (h : CLeaf.res env sn σ id lf = .ok (t, m, j)) :
    id ≤ j ∧ relOptCmd (Rid id j) t.preamble t.preamble ∧ relImp (Rid id j) m m := by
  cases lf with
  | plain l =>
    simp only [CLeaf.res, Except.ok.injEq, Prod.mk.injEq] at h
    obtain ⟨rfl, rfl, rfl⟩ := h
    exact ⟨Nat.le_refl _, by rw [leafT_pre]; trivial, relImp.nil _⟩
  | kw l =>
    simp only [CLeaf.res, Except.ok.injEq, Prod.mk.injEq] at h
    obtain ⟨rfl, rfl, rfl⟩ := h
    exact ⟨Nat.le_refl _, by rw [ktree_pre]; trivial, relImp.nil _⟩
  | auto fm c =>
    simp only [CLeaf.res] at h
    cases hl : env.autoVars.lookup c.name.lit with
    | none => simp [hl] at h
    | some av =>
      simp only [hl] at h
      cases hc : c.elabC env sn σ id with
      | error e => simp [hc] at h
      | ok q =>
        obtain ⟨cmd, imp⟩ := q
        simp only [hc] at h
        cases hp : autoPosBad av c.nargs with
        | some pos => simp [hp] at h
        | none =>
          simp only [hp, Except.ok.injEq, Prod.mk.injEq] at h
          obtain ⟨rfl, rfl, rfl⟩ := h
          obtain ⟨r1, i1⟩ := elabC_ids env sn σ id c cmd imp hc
          exact ⟨Nat.le_succ _, r1, i1⟩
  | autoV c opTok v =>
    simp only [CLeaf.res] at h
    cases hl : env.autoVars.lookup c.name.lit with
    | none => simp [hl] at h
    | some av =>
      simp only [hl] at h
      cases hc : c.elabC env sn σ id with
      | error e => simp [hc] at h
      | ok q =>
        obtain ⟨cmd, imp⟩ := q
        simp only [hc] at h
        cases hp : autoPosBad av c.nargs with
        | some pos => simp [hp] at h
        | none =>
          simp only [hp, Except.ok.injEq, Prod.mk.injEq] at h
          obtain ⟨rfl, rfl, rfl⟩ := h
          obtain ⟨r1, i1⟩ := elabC_ids env sn σ id c cmd imp hc
          refine ⟨Nat.le_succ _, ?_, i1⟩
          rw [applyVal_pre]
          exact r1

/-! ### conditions over any leaf type -/
section
variable {L : Type} (res : (String → String) → Nat → L → Except PFail (OpExpr × ImpData × Nat))
  (σ : String → String)

theorem relB_bin {R : Ren} {l r : BoolExpr} (op : TT) (h1 : relB R l l) (h2 : relB R r r) :
    relB R (.bin l op r) (.bin l op r) := by
  simp [relB, h1, h2]

mutual
theorem elabOr_ids (hres : ∀ id lf t m j, res σ id lf = .ok (t, m, j) →
      id ≤ j ∧ relOptCmd (Rid id j) t.preamble t.preamble ∧ relImp (Rid id j) m m) :
    ∀ (neg : Bool) (g : GOr L) (id : Nat) (t : BoolExpr) (m : ImpData) (j : Nat),
      elabOr res σ neg g id = .ok (t, m, j) → id ≤ j ∧ relB (Rid id j) t t ∧ relImp (Rid id j) m m
  | neg, .one a, id, t, m, j, h => by
    rw [elabOr] at h
    exact elabAnd_ids hres neg a id t m j h
  | neg, .more a p r, id, t, m, j, h => by
    rw [elabOr] at h
    cases h1 : elabAnd res σ neg a id with
    | error e => simp [h1] at h
    | ok q =>
      obtain ⟨ta, ma, j1⟩ := q
      simp only [h1] at h
      cases h2 : elabOr res σ neg r j1 with
      | error e => simp [h2] at h
      | ok q2 =>
        obtain ⟨tr, mr, j2⟩ := q2
        simp only [h2, Except.ok.injEq, Prod.mk.injEq] at h
        obtain ⟨rfl, rfl, rfl⟩ := h
        obtain ⟨l1, r1, i1⟩ := elabAnd_ids hres neg a id ta ma j1 h1
        obtain ⟨l2, r2, i2⟩ := elabOr_ids hres neg r j1 tr mr _ h2
        exact ⟨by omega,
          relB_bin _ (relB.mono (Rid_sub (Nat.le_refl _) l2) r1) (relB.mono (Rid_sub l1 (Nat.le_refl _)) r2),
          relImp.add (relImp.mono (Rid_sub (Nat.le_refl _) l2) i1) (relImp.mono (Rid_sub l1 (Nat.le_refl _)) i2)⟩
theorem elabAnd_ids (hres : ∀ id lf t m j, res σ id lf = .ok (t, m, j) →
      id ≤ j ∧ relOptCmd (Rid id j) t.preamble t.preamble ∧ relImp (Rid id j) m m) :
    ∀ (neg : Bool) (g : GAnd L) (id : Nat) (t : BoolExpr) (m : ImpData) (j : Nat),
      elabAnd res σ neg g id = .ok (t, m, j) → id ≤ j ∧ relB (Rid id j) t t ∧ relImp (Rid id j) m m
  | neg, .one u, id, t, m, j, h => by
    rw [elabAnd] at h
    exact elabUn_ids hres neg u id t m j h
  | neg, .more u p r, id, t, m, j, h => by
    rw [elabAnd] at h
    cases h1 : elabUn res σ neg u id with
    | error e => simp [h1] at h
    | ok q =>
      obtain ⟨t1, m1, j1⟩ := q
      simp only [h1] at h
      cases h2 : elabAcc res σ neg t1 r j1 with
      | error e => simp [h2] at h
      | ok q2 =>
        obtain ⟨t2, m2, j2⟩ := q2
        simp only [h2, Except.ok.injEq, Prod.mk.injEq] at h
        obtain ⟨rfl, rfl, rfl⟩ := h
        obtain ⟨l1, r1, i1⟩ := elabUn_ids hres neg u id t1 m1 j1 h1
        obtain ⟨l2, r2, i2⟩ := elabAcc_ids hres neg t1 r j1 _ m2 _ h2 id l1 r1
        exact ⟨by omega, r2,
          relImp.add (relImp.mono (Rid_sub (Nat.le_refl _) l2) i1) (relImp.mono (Rid_sub l1 (Nat.le_refl _)) i2)⟩
theorem elabAcc_ids (hres : ∀ id lf t m j, res σ id lf = .ok (t, m, j) →
      id ≤ j ∧ relOptCmd (Rid id j) t.preamble t.preamble ∧ relImp (Rid id j) m m) :
    ∀ (neg : Bool) (left : BoolExpr) (g : GAnd L) (id : Nat) (t : BoolExpr) (m : ImpData) (j : Nat),
      elabAcc res σ neg left g id = .ok (t, m, j) → ∀ lo, lo ≤ id → relB (Rid lo id) left left →
        id ≤ j ∧ relB (Rid lo j) t t ∧ relImp (Rid id j) m m
  | neg, left, .one u, id, t, m, j, h => by
    rw [elabAcc] at h
    cases h1 : elabUn res σ neg u id with
    | error e => simp [h1] at h
    | ok q =>
      obtain ⟨t1, m1, j1⟩ := q
      simp only [h1, Except.ok.injEq, Prod.mk.injEq] at h
      obtain ⟨rfl, rfl, rfl⟩ := h
      obtain ⟨l1, r1, i1⟩ := elabUn_ids hres neg u id t1 m1 j1 h1
      intro lo hlo hleft
      exact ⟨l1, relB_bin _ (relB.mono (Rid_sub (Nat.le_refl _) l1) hleft) (relB.mono (Rid_sub hlo (Nat.le_refl _)) r1),
        i1⟩
  | neg, left, .more u p r, id, t, m, j, h => by
    rw [elabAcc] at h
    cases h1 : elabUn res σ neg u id with
    | error e => simp [h1] at h
    | ok q =>
      obtain ⟨t1, m1, j1⟩ := q
      simp only [h1] at h
      cases h2 : elabAcc res σ neg (.bin left (andOp neg) t1) r j1 with
      | error e => simp [h2] at h
      | ok q2 =>
        obtain ⟨t2, m2, j2⟩ := q2
        simp only [h2, Except.ok.injEq, Prod.mk.injEq] at h
        obtain ⟨rfl, rfl, rfl⟩ := h
        obtain ⟨l1, r1, i1⟩ := elabUn_ids hres neg u id t1 m1 j1 h1
        intro lo hlo hleft
        obtain ⟨l2, r2, i2⟩ := elabAcc_ids hres neg _ r j1 _ m2 _ h2 lo (by omega)
          (relB_bin _ (relB.mono (Rid_sub (Nat.le_refl _) l1) hleft) (relB.mono (Rid_sub hlo (Nat.le_refl _)) r1))
        exact ⟨by omega, r2,
          relImp.add (relImp.mono (Rid_sub (Nat.le_refl _) l2) i1) (relImp.mono (Rid_sub l1 (Nat.le_refl _)) i2)⟩
theorem elabUn_ids (hres : ∀ id lf t m j, res σ id lf = .ok (t, m, j) →
      id ≤ j ∧ relOptCmd (Rid id j) t.preamble t.preamble ∧ relImp (Rid id j) m m) :
    ∀ (neg : Bool) (g : GUn L) (id : Nat) (t : BoolExpr) (m : ImpData) (j : Nat),
      elabUn res σ neg g id = .ok (t, m, j) → id ≤ j ∧ relB (Rid id j) t t ∧ relImp (Rid id j) m m
  | neg, .leaf lf, id, t, m, j, h => by
    rw [elabUn] at h
    cases h1 : res σ id lf with
    | error e => simp [h1] at h
    | ok q =>
      obtain ⟨t1, m1, j1⟩ := q
      simp only [h1, Except.ok.injEq, Prod.mk.injEq] at h
      obtain ⟨rfl, rfl, rfl⟩ := h
      obtain ⟨l1, r1, i1⟩ := hres id lf t1 m1 j1 h1
      refine ⟨l1, ?_, i1⟩
      simp only [relB]
      exact relOp_self _ (by rw [negLeaf_pre]; exact r1)
  | neg, .paren n _ _ _ e, id, t, m, j, h => by
    rw [elabUn] at h
    exact elabOr_ids hres (neg != n) e id t m j h
end
end

theorem elabCond_idsE (env : Env) (sn : String) (σ : String → String) (c : SCond) (cid : Nat) (t : BoolExpr)
    (mc : ImpData) (c0 : Nat) (h : elabCond env sn σ c cid = .ok (t, mc, c0)) :
    cid ≤ c0 ∧ relB (Rid cid c0) t t ∧ relImp (Rid cid c0) mc mc :=
  elabOr_ids (CLeaf.res env sn) σ (fun id lf t m j h => res_ids env sn σ id lf t m j h) false c cid t mc c0 h

/-! ### statements -/

section
variable (env : Env) (sn : String) (σ : String → String)

mutual
theorem elabS_idsE : ∀ (x : SStmt) (B C : List Nat) (nx : Bool) (sid cid : Nat) (a : List Stmt) (m : ImpData)
    (s1 c1 : Nat), elabS env sn σ B C nx x sid cid = .ok (a, m, s1, c1) →
      cid ≤ c1 ∧ RelL (Rid cid c1) a a ∧ relImp (Rid cid c1) m m
  | .cmd c, _, _, _, sid, cid, a, m, s1, c1, h => by
    rw [elabS] at h
    cases hc : c.elabC env sn σ cid with
    | error e => simp [hc] at h
    | ok q =>
      obtain ⟨cmd, mc⟩ := q
      simp only [hc, Except.ok.injEq, Prod.mk.injEq] at h
      obtain ⟨rfl, rfl, rfl, rfl⟩ := h
      obtain ⟨r1, i1⟩ := elabC_ids env sn σ cid c cmd mc hc
      exact ⟨Nat.le_succ _, .cons (.cmd r1) .nil, i1⟩
  | .label .., _, _, _, _, _, _, _, _, _, h => by
    rw [elabS] at h
    simp only [Except.ok.injEq, Prod.mk.injEq] at h
    obtain ⟨rfl, rfl, rfl, rfl⟩ := h
    exact ⟨Nat.le_refl _, .cons (.label _ _ _) .nil, relImp.nil _⟩
  | .labelS .., _, _, _, _, _, _, _, _, _, h => by
    rw [elabS] at h
    simp only [Except.ok.injEq, Prod.mk.injEq] at h
    obtain ⟨rfl, rfl, rfl, rfl⟩ := h
    exact ⟨Nat.le_refl _, .cons (.label _ _ _) .nil, relImp.nil _⟩
  | .brk t, B, C, nx, sid, cid, a, m, s1, c1, h => by
    cases B with
    | nil => rw [elabS] at h; simp at h
    | cons b Bt =>
      rw [elabS] at h
      simp only [Except.ok.injEq, Prod.mk.injEq] at h
      obtain ⟨rfl, rfl, rfl, rfl⟩ := h
      exact ⟨Nat.le_refl _, .cons (.brk _ rfl) .nil, relImp.nil _⟩
  | .cont t, B, C, nx, sid, cid, a, m, s1, c1, h => by
    cases C with
    | nil => rw [elabS] at h; simp at h
    | cons c Ct =>
      cases nx with
      | false => rw [elabS] at h; simp at h
      | true =>
        rw [elabS] at h
        simp only [if_true, Except.ok.injEq, Prod.mk.injEq] at h
        obtain ⟨rfl, rfl, rfl, rfl⟩ := h
        exact ⟨Nat.le_refl _, .cons (.cont _ rfl) .nil, relImp.nil _⟩
  | .ite i lp c rp lb body rb elifs els, B, C, nx, sid, cid, a, m, s1, c1, h => by
    rw [elabS] at h
    cases hc : elabCond env sn σ c cid with
    | error e => simp [hc] at h
    | ok q =>
      obtain ⟨t, mc, cid0⟩ := q
      simp only [hc] at h
      cases hb : elabL env sn σ B C true body sid cid0 with
      | error e => simp [hb] at h
      | ok q2 =>
        obtain ⟨b, m1, s1', c1'⟩ := q2
        simp only [hb] at h
        cases hes : elabElifs env sn σ B C elifs s1' c1' with
        | error e => simp [hes] at h
        | ok q3 =>
          obtain ⟨es, m2, s2, c2⟩ := q3
          simp only [hes] at h
          cases hel : elabElse env sn σ B C els s2 c2 with
          | error e => simp [hel] at h
          | ok q4 =>
            obtain ⟨el, m3, s3, c3⟩ := q4
            simp only [hel, Except.ok.injEq, Prod.mk.injEq] at h
            obtain ⟨rfl, rfl, rfl, rfl⟩ := h
            obtain ⟨l0, r0, i0⟩ := elabCond_idsE env sn σ c cid t mc cid0 hc
            obtain ⟨l1, r1, i1⟩ := elabL_idsE body _ _ _ _ _ _ _ _ _ hb
            obtain ⟨l2, r2, i2⟩ := elabElifs_idsE elifs _ _ _ _ _ _ _ _ hes
            obtain ⟨l3, r3, i3⟩ := elabElse_idsE els _ _ _ _ _ _ _ _ hel
            refine ⟨by omega, .cons (.ite _ ?_ ?_ ?_ ?_) .nil,
              relImp.add ?_ (relImp.add ?_ (relImp.add ?_ ?_))⟩
            · exact relB.mono (Rid_sub (Nat.le_refl _) (by omega)) r0
            · exact RelL.mono (Rid_sub (by omega) (by omega)) r1
            · exact RelElifs.mono (Rid_sub (by omega) (by omega)) r2
            · exact RelOptL.mono (Rid_sub (by omega) (by omega)) r3
            · exact relImp.mono (Rid_sub (Nat.le_refl _) (by omega)) i0
            · exact relImp.mono (Rid_sub (by omega) (by omega)) i1
            · exact relImp.mono (Rid_sub (by omega) (by omega)) i2
            · exact relImp.mono (Rid_sub (by omega) (by omega)) i3
  | .while_ w lp c rp lb body rb, B, C, nx, sid, cid, a, m, s1, c1, h => by
    rw [elabS] at h
    cases hc : elabCond env sn σ c cid with
    | error e => simp [hc] at h
    | ok q =>
      obtain ⟨t, mc, cid0⟩ := q
      simp only [hc] at h
      cases hb : elabL env sn σ (sid :: B) (sid :: C) true body (sid + 1) cid0 with
      | error e => simp [hb] at h
      | ok q2 =>
        obtain ⟨b, m1, s1', c1'⟩ := q2
        simp only [hb, Except.ok.injEq, Prod.mk.injEq] at h
        obtain ⟨rfl, rfl, rfl, rfl⟩ := h
        obtain ⟨l0, r0, i0⟩ := elabCond_idsE env sn σ c cid t mc cid0 hc
        obtain ⟨l1, r1, i1⟩ := elabL_idsE body _ _ _ _ _ _ _ _ _ hb
        refine ⟨by omega, .cons (.while_ _ rfl ?_ ?_) .nil,
          relImp.add (relImp.mono (Rid_sub (Nat.le_refl _) (by omega)) i0)
            (relImp.mono (Rid_sub (by omega) (by omega)) i1)⟩
        · exact relB.mono (Rid_sub (Nat.le_refl _) (by omega)) r0
        · exact RelL.mono (Rid_sub (by omega) (by omega)) r1
  | .whileInf w lb body rb, B, C, nx, sid, cid, a, m, s1, c1, h => by
    rw [elabS] at h
    cases hb : elabL env sn σ (sid :: B) (sid :: C) true body (sid + 1) cid with
    | error e => simp [hb] at h
    | ok q2 =>
      obtain ⟨b, m1, s1', c1'⟩ := q2
      simp only [hb, Except.ok.injEq, Prod.mk.injEq] at h
      obtain ⟨rfl, rfl, rfl, rfl⟩ := h
      obtain ⟨l1, r1, i1⟩ := elabL_idsE body _ _ _ _ _ _ _ _ _ hb
      exact ⟨l1, .cons (.while_ _ rfl trivial r1) .nil, i1⟩
  | .doWhile d lb body rb w lp c rp, B, C, nx, sid, cid, a, m, s1, c1, h => by
    rw [elabS] at h
    cases hb : elabL env sn σ (sid :: B) (sid :: C) true body (sid + 1) cid with
    | error e => simp [hb] at h
    | ok q2 =>
      obtain ⟨b, m1, s1', c1'⟩ := q2
      simp only [hb] at h
      cases hc : elabCond env sn σ c c1' with
      | error e => simp [hc] at h
      | ok q =>
        obtain ⟨t, mc, cid2⟩ := q
        simp only [hc, Except.ok.injEq, Prod.mk.injEq] at h
        obtain ⟨rfl, rfl, rfl, rfl⟩ := h
        obtain ⟨l1, r1, i1⟩ := elabL_idsE body _ _ _ _ _ _ _ _ _ hb
        obtain ⟨l0, r0, i0⟩ := elabCond_idsE env sn σ c c1' t mc _ hc
        refine ⟨by omega, .cons (.doWhile _ rfl ?_ ?_) .nil,
          relImp.add (relImp.mono (Rid_sub (by omega) (by omega)) i1)
            (relImp.mono (Rid_sub (by omega) (Nat.le_refl _)) i0)⟩
        · exact relB.mono (Rid_sub (by omega) (Nat.le_refl _)) r0
        · exact RelL.mono (Rid_sub (by omega) (by omega)) r1
  | .switch_ sw lp v lp2 ops rp2 rp lb cases rb, B, C, nx, sid, cid, a, m, s1, c1, h => by
    rw [elabS] at h
    cases hcs : elabCases env sn σ (sid :: B) C cases [] false (sid + 1) cid with
    | error e => simp [hcs] at h
    | ok q =>
      obtain ⟨cs, m1, s1', c1'⟩ := q
      simp only [hcs] at h
      cases he : cs.isEmpty with
      | true => simp [he] at h
      | false =>
        simp only [he, Bool.false_eq_true, if_false, Except.ok.injEq, Prod.mk.injEq] at h
        obtain ⟨rfl, rfl, rfl, rfl⟩ := h
        obtain ⟨l1, r1, i1⟩ := elabCases_idsE cases _ _ _ _ _ _ _ _ _ _ hcs
        exact ⟨l1, .cons (.switch_ _ _ rfl r1) .nil, i1⟩
  | .switchA sw lp c rp lb cases rb, B, C, nx, sid, cid, a, m, s1, c1, h => by
    rw [elabS] at h
    cases hl : env.autoVars.lookup c.name.lit with
    | none => simp [hl] at h
    | some av =>
      simp only [hl] at h
      cases hc : c.elabC env sn σ cid with
      | error e => simp [hc] at h
      | ok qc =>
        obtain ⟨cmd, mc⟩ := qc
        simp only [hc] at h
        cases hp : autoPosBad av c.nargs with
        | some pos => simp [hp] at h
        | none =>
          simp only [hp] at h
          cases hcs : elabCases env sn σ (sid :: B) C cases [] false (sid + 1) (cid + 1) with
          | error e => simp [hcs] at h
          | ok q =>
            obtain ⟨cs, m1, s1', c1'⟩ := q
            simp only [hcs] at h
            cases he : cs.isEmpty with
            | true => simp [he] at h
            | false =>
              simp only [he, Bool.false_eq_true, if_false, Except.ok.injEq, Prod.mk.injEq] at h
              obtain ⟨rfl, rfl, rfl, rfl⟩ := h
              obtain ⟨rc, ic⟩ := elabC_ids env sn σ cid c cmd mc hc
              obtain ⟨l1, r1, i1⟩ := elabCases_idsE cases _ _ _ _ _ _ _ _ _ _ hcs
              refine ⟨by omega, .cons (.cmd (relCmd.mono (Rid_sub (Nat.le_refl _) (by omega)) rc))
                (.cons (.switch_ _ _ rfl (RelCases.mono (Rid_sub (by omega) (Nat.le_refl _)) r1)) .nil),
                relImp.add (relImp.mono (Rid_sub (Nat.le_refl _) (by omega)) ic)
                  (relImp.mono (Rid_sub (by omega) (Nat.le_refl _)) i1)⟩
  | .pory ps lp x rp lb cases rb, B, C, nx, sid, cid, a, m, s1, c1, h => by
    rw [elabS] at h
    cases h1 : (env.envErrors && env.switches.isEmpty) with
    | true => rw [h1] at h; simp at h
    | false =>
      rw [h1] at h
      cases h2 : (env.envErrors && (env.switches.lookup x.lit).isNone) with
      | true => rw [h2] at h; simp at h
      | false =>
        rw [h2] at h
        simp only [Bool.false_eq_true, if_false] at h
        cases hp : elabPCases env sn σ B C cases [] sid cid with
        | error e => simp [hp] at h
        | ok q =>
          obtain ⟨tb, s1', c1'⟩ := q
          simp only [hp] at h
          obtain ⟨l1, ht⟩ := elabPCases_idsE cases _ _ _ _ _ _ _ _ hp cid (Nat.le_refl _)
            (fun e he => absurd he List.not_mem_nil)
          cases hsel : selectCase env tb (swVal env x.lit) with
          | some r =>
            simp only [hsel, Except.ok.injEq, Prod.mk.injEq] at h
            obtain ⟨rfl, rfl, rfl, rfl⟩ := h
            obtain ⟨k, hk⟩ := selectCase_mem env hsel
            exact ⟨l1, (ht _ hk).1, (ht _ hk).2⟩
          | none =>
            simp only [hsel] at h
            cases hee : env.envErrors with
            | true => simp [hee] at h
            | false =>
              simp only [hee, Bool.false_eq_true, if_false, Except.ok.injEq, Prod.mk.injEq] at h
              obtain ⟨rfl, rfl, rfl, rfl⟩ := h
              exact ⟨l1, .nil, relImp.nil _⟩
theorem elabL_idsE : ∀ (b : List SStmt) (B C : List Nat) (last : Bool) (sid cid : Nat) (a : List Stmt)
    (m : ImpData) (s1 c1 : Nat), elabL env sn σ B C last b sid cid = .ok (a, m, s1, c1) →
      cid ≤ c1 ∧ RelL (Rid cid c1) a a ∧ relImp (Rid cid c1) m m
  | [], _, _, _, _, _, _, _, _, _, h => by
    rw [elabL_nilE] at h
    simp only [Except.ok.injEq, Prod.mk.injEq] at h
    obtain ⟨rfl, rfl, rfl, rfl⟩ := h
    exact ⟨Nat.le_refl _, .nil, relImp.nil _⟩
  | x :: rest, B, C, last, sid, cid, a, m, s1, c1, h => by
    rw [elabL_consE] at h
    cases hx : elabS env sn σ B C (rest.isEmpty && last) x sid cid with
    | error e => simp [hx] at h
    | ok q =>
      obtain ⟨a1, m1, s1', c1'⟩ := q
      simp only [hx] at h
      cases hr : elabL env sn σ B C last rest s1' c1' with
      | error e => simp [hr] at h
      | ok q2 =>
        obtain ⟨a2, m2, s2, c2⟩ := q2
        simp only [hr, Except.ok.injEq, Prod.mk.injEq] at h
        obtain ⟨rfl, rfl, rfl, rfl⟩ := h
        obtain ⟨l1, r1, i1⟩ := elabS_idsE x _ _ _ _ _ _ _ _ _ hx
        obtain ⟨l2, r2, i2⟩ := elabL_idsE rest _ _ _ _ _ _ _ _ _ hr
        exact ⟨by omega,
          RelL.append (RelL.mono (Rid_sub (Nat.le_refl _) l2) r1) (RelL.mono (Rid_sub l1 (Nat.le_refl _)) r2),
          relImp.add (relImp.mono (Rid_sub (Nat.le_refl _) l2) i1) (relImp.mono (Rid_sub l1 (Nat.le_refl _)) i2)⟩
theorem elabElifs_idsE : ∀ (es : List SElif) (B C : List Nat) (sid cid : Nat)
    (a : List (BoolExpr × List Stmt)) (m : ImpData) (s1 c1 : Nat),
    elabElifs env sn σ B C es sid cid = .ok (a, m, s1, c1) →
      cid ≤ c1 ∧ RelElifs (Rid cid c1) a a ∧ relImp (Rid cid c1) m m
  | [], _, _, _, _, _, _, _, _, h => by
    rw [elabElifs] at h
    simp only [Except.ok.injEq, Prod.mk.injEq] at h
    obtain ⟨rfl, rfl, rfl, rfl⟩ := h
    exact ⟨Nat.le_refl _, .nil, relImp.nil _⟩
  | .mk e lp c rp lb body rb :: rest, B, C, sid, cid, a, m, s1, c1, h => by
    rw [elabElifs] at h
    cases hc : elabCond env sn σ c cid with
    | error e => simp [hc] at h
    | ok q =>
      obtain ⟨t, mc, cid0⟩ := q
      simp only [hc] at h
      cases hb : elabL env sn σ B C true body sid cid0 with
      | error e => simp [hb] at h
      | ok q2 =>
        obtain ⟨b, m1, s1', c1'⟩ := q2
        simp only [hb] at h
        cases hes : elabElifs env sn σ B C rest s1' c1' with
        | error e => simp [hes] at h
        | ok q3 =>
          obtain ⟨es, m2, s2, c2⟩ := q3
          simp only [hes, Except.ok.injEq, Prod.mk.injEq] at h
          obtain ⟨rfl, rfl, rfl, rfl⟩ := h
          obtain ⟨l0, r0, i0⟩ := elabCond_idsE env sn σ c cid t mc cid0 hc
          obtain ⟨l1, r1, i1⟩ := elabL_idsE body _ _ _ _ _ _ _ _ _ hb
          obtain ⟨l2, r2, i2⟩ := elabElifs_idsE rest _ _ _ _ _ _ _ _ hes
          refine ⟨by omega, .cons ?_ ?_ ?_, relImp.add ?_ (relImp.add ?_ ?_)⟩
          · exact relB.mono (Rid_sub (Nat.le_refl _) (by omega)) r0
          · exact RelL.mono (Rid_sub (by omega) (by omega)) r1
          · exact RelElifs.mono (Rid_sub (by omega) (by omega)) r2
          · exact relImp.mono (Rid_sub (Nat.le_refl _) (by omega)) i0
          · exact relImp.mono (Rid_sub (by omega) (by omega)) i1
          · exact relImp.mono (Rid_sub (by omega) (by omega)) i2
theorem elabElse_idsE : ∀ (el : SElse) (B C : List Nat) (sid cid : Nat) (a : Option (List Stmt)) (m : ImpData)
    (s1 c1 : Nat), elabElse env sn σ B C el sid cid = .ok (a, m, s1, c1) →
      cid ≤ c1 ∧ RelOptL (Rid cid c1) a a ∧ relImp (Rid cid c1) m m
  | .none, _, _, _, _, _, _, _, _, h => by
    rw [elabElse] at h
    simp only [Except.ok.injEq, Prod.mk.injEq] at h
    obtain ⟨rfl, rfl, rfl, rfl⟩ := h
    exact ⟨Nat.le_refl _, .none, relImp.nil _⟩
  | .some e lb body rb, B, C, sid, cid, a, m, s1, c1, h => by
    rw [elabElse] at h
    cases hb : elabL env sn σ B C true body sid cid with
    | error e => simp [hb] at h
    | ok q2 =>
      obtain ⟨b, m1, s1', c1'⟩ := q2
      simp only [hb, Except.ok.injEq, Prod.mk.injEq] at h
      obtain ⟨rfl, rfl, rfl, rfl⟩ := h
      obtain ⟨l1, r1, i1⟩ := elabL_idsE body _ _ _ _ _ _ _ _ _ hb
      exact ⟨l1, .some r1, i1⟩
theorem elabCases_idsE : ∀ (cases : List SCase) (B C : List Nat) (seen : List String) (hd : Bool)
    (sid cid : Nat) (a : List SwitchCase) (m : ImpData) (s1 c1 : Nat),
    elabCases env sn σ B C cases seen hd sid cid = .ok (a, m, s1, c1) →
      cid ≤ c1 ∧ RelCases (Rid cid c1) a a ∧ relImp (Rid cid c1) m m
  | [], _, _, _, _, _, _, _, _, _, _, h => by
    rw [elabCases] at h
    simp only [Except.ok.injEq, Prod.mk.injEq] at h
    obtain ⟨rfl, rfl, rfl, rfl⟩ := h
    exact ⟨Nat.le_refl _, .nil, relImp.nil _⟩
  | .case ct vs colon body :: rest, B, C, seen, hd, sid, cid, a, m, s1, c1, h => by
    rw [elabCases] at h
    cases hseen : seen.contains (caseValue σ vs) with
    | true => rw [hseen] at h; simp at h
    | false =>
      rw [hseen] at h
      simp only [Bool.false_eq_true, if_false] at h
      cases hb : elabL env sn σ B C rest.isEmpty body sid cid with
      | error e => simp [hb] at h
      | ok q2 =>
        obtain ⟨b, m1, s1', c1'⟩ := q2
        simp only [hb] at h
        cases hr : elabCases env sn σ B C rest (caseValue σ vs :: seen) hd s1' c1' with
        | error e => simp [hr] at h
        | ok q3 =>
          obtain ⟨cs, m2, s2, c2⟩ := q3
          simp only [hr, Except.ok.injEq, Prod.mk.injEq] at h
          obtain ⟨rfl, rfl, rfl, rfl⟩ := h
          obtain ⟨l1, r1, i1⟩ := elabL_idsE body _ _ _ _ _ _ _ _ _ hb
          obtain ⟨l2, r2, i2⟩ := elabCases_idsE rest _ _ _ _ _ _ _ _ _ _ hr
          exact ⟨by omega,
            .cons _ _ (RelL.mono (Rid_sub (Nat.le_refl _) l2) r1) (RelCases.mono (Rid_sub l1 (Nat.le_refl _)) r2),
            relImp.add (relImp.mono (Rid_sub (Nat.le_refl _) l2) i1) (relImp.mono (Rid_sub l1 (Nat.le_refl _)) i2)⟩
  | .dflt d colon body :: rest, B, C, seen, hd, sid, cid, a, m, s1, c1, h => by
    rw [elabCases] at h
    cases hd with
    | true => simp at h
    | false =>
      simp only [Bool.false_eq_true, if_false] at h
      cases hb : elabL env sn σ B C rest.isEmpty body sid cid with
      | error e => simp [hb] at h
      | ok q2 =>
        obtain ⟨b, m1, s1', c1'⟩ := q2
        simp only [hb] at h
        cases hr : elabCases env sn σ B C rest seen true s1' c1' with
        | error e => simp [hr] at h
        | ok q3 =>
          obtain ⟨cs, m2, s2, c2⟩ := q3
          simp only [hr, Except.ok.injEq, Prod.mk.injEq] at h
          obtain ⟨rfl, rfl, rfl, rfl⟩ := h
          obtain ⟨l1, r1, i1⟩ := elabL_idsE body _ _ _ _ _ _ _ _ _ hb
          obtain ⟨l2, r2, i2⟩ := elabCases_idsE rest _ _ _ _ _ _ _ _ _ _ hr
          exact ⟨by omega,
            .cons _ _ (RelL.mono (Rid_sub (Nat.le_refl _) l2) r1) (RelCases.mono (Rid_sub l1 (Nat.le_refl _)) r2),
            relImp.add (relImp.mono (Rid_sub (Nat.le_refl _) l2) i1) (relImp.mono (Rid_sub l1 (Nat.le_refl _)) i2)⟩
theorem elabPCases_idsE : ∀ (cases : List SPCase) (B C : List Nat) (acc : List (String × List Stmt × ImpData))
    (sid cid : Nat) (tb : List (String × List Stmt × ImpData)) (s1 c1 : Nat),
    elabPCases env sn σ B C cases acc sid cid = .ok (tb, s1, c1) →
      ∀ lo, lo ≤ cid → TabIds lo cid acc → cid ≤ c1 ∧ TabIds lo c1 tb
  | [], _, _, _, _, _, _, _, _, h => by
    rw [elabPCases] at h
    simp only [Except.ok.injEq, Prod.mk.injEq] at h
    obtain ⟨rfl, rfl, rfl⟩ := h
    exact fun lo _ ht => ⟨Nat.le_refl _, ht⟩
  | .colon key ct x :: rest, B, C, acc, sid, cid, tb, s1, c1, h => by
    rw [elabPCases] at h
    cases hx : elabS env sn σ B C rest.isEmpty x sid cid with
    | error e => simp [hx] at h
    | ok q =>
      obtain ⟨a1, m1, s1', c1'⟩ := q
      simp only [hx] at h
      obtain ⟨l1, r1, i1⟩ := elabS_idsE x _ _ _ _ _ _ _ _ _ hx
      intro lo hlo ht
      obtain ⟨l2, ht2⟩ := elabPCases_idsE rest _ _ _ _ _ _ _ _ h lo (by omega) (by
        intro e he
        rcases List.mem_cons.1 he with rfl | he
        · exact ⟨RelL.mono (Rid_sub hlo (Nat.le_refl _)) r1, relImp.mono (Rid_sub hlo (Nat.le_refl _)) i1⟩
        · exact (ht.mono l1) e he)
      exact ⟨by omega, ht2⟩
  | .colon0 key ct :: rest, B, C, acc, sid, cid, tb, s1, c1, h => by
    rw [elabPCases] at h
    intro lo hlo ht
    exact elabPCases_idsE rest _ _ _ _ _ _ _ _ h lo hlo (by
      intro e he
      rcases List.mem_cons.1 he with rfl | he
      · exact ⟨.nil, relImp.nil _⟩
      · exact ht e he)
  | .brace key lbt body rbt :: rest, B, C, acc, sid, cid, tb, s1, c1, h => by
    rw [elabPCases] at h
    cases hx : elabL env sn σ B C true body sid cid with
    | error e => simp [hx] at h
    | ok q =>
      obtain ⟨a1, m1, s1', c1'⟩ := q
      simp only [hx] at h
      obtain ⟨l1, r1, i1⟩ := elabL_idsE body _ _ _ _ _ _ _ _ _ hx
      intro lo hlo ht
      obtain ⟨l2, ht2⟩ := elabPCases_idsE rest _ _ _ _ _ _ _ _ h lo (by omega) (by
        intro e he
        rcases List.mem_cons.1 he with rfl | he
        · exact ⟨RelL.mono (Rid_sub hlo (Nat.le_refl _)) r1, relImp.mono (Rid_sub hlo (Nat.le_refl _)) i1⟩
        · exact (ht.mono l1) e he)
      exact ⟨by omega, ht2⟩
end
end

end Pory.P2f
