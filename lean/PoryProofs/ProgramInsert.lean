import PoryProofs.ProgramIndep
/-
P2 helpers: inserting / removing one unrelated top-level statement (see PoryProofs/Properties/P2.lean,
`statement_independent`).
-/
namespace Pory.P2
open Pory Pory.Parser Pory.C02P Pory.StmtG Pory.TopParse Pory.Emit
open Pory.C12c

/-- Every run from a state with empty stacks: the stacks stay empty, the command-id counter does not decrease,
every command id handed out lies between the counters, and the state only grows (`Delta`). -/
theorem elabTops_selfD (env : Env) (ts : List STop) (s0 : PState) (hb : s0.breakStack = [])
    (hc : s0.continueStack = []) (tops : List Top) (s : PState) (h : elabTops env ts s0 = .ok (tops, s)) :
    s.breakStack = [] ∧ s.continueStack = [] ∧ s0.nextCmdId ≤ s.nextCmdId ∧
      All2 (RelTop (Rb 0 0 s0.nextCmdId s.nextCmdId)) tops tops ∧
      Delta (Rb 0 0 s0.nextCmdId s.nextCmdId) s0 s0 s s := by
  have hf := elabTops_frame env domAll 0 0 ts (agree_self s0 hb hc) (uses_all env ts s0)
  rw [h] at hf
  obtain ⟨topsB, b1, hb1, hA, hle, hr, hd⟩ := hf
  simp only [Except.ok.injEq, Prod.mk.injEq] at hb1
  obtain ⟨rfl, rfl⟩ := hb1
  exact ⟨hA.ba, hA.ca, hle, hr, hd⟩

theorem elabTops_single (env : Env) (t : STop) (s : PState) :
    elabTops env [t] s =
      match stepTop env t s with
      | .error e => .error e
      | .ok (o, s1) => .ok (optTop o, s1) := by
  simp only [elabTops]
  cases stepTop env t s with
  | error e => rfl
  | ok q => obtain ⟨o, s1⟩ := q; simp

theorem stepTop_constants (env : Env) (t : STop) (s st : PState) (o : Option Top) (hnc : t.isConst = false)
    (h : stepTop env t s = .ok (o, st)) : st.constants = s.constants := by
  cases t with
  | script kw md name lb body rb =>
    simp only [stepTop] at h
    cases he : elabE env name.lit (ctxOf s) body with
    | error e => rw [he] at h; cases h
    | ok q =>
      obtain ⟨a, imp, c'⟩ := q
      rw [he] at h
      simp only [Except.ok.injEq, Prod.mk.injEq] at h
      rw [← h.2]
      unfold afterScript
      rw [addImp_constants]
  | const => cases hnc
  | raw => simp only [stepTop, Except.ok.injEq, Prod.mk.injEq] at h; rw [← h.2]
  | movement => simp only [stepTop, Except.ok.injEq, Prod.mk.injEq] at h; rw [← h.2]
  | mart => simp only [stepTop, Except.ok.injEq, Prod.mk.injEq] at h; rw [← h.2]
  | text => simp only [stepTop, Except.ok.injEq, Prod.mk.injEq] at h; rw [← h.2]

/-- The keys and script names on which the hoisting tables of `s` and `st` agree. -/
def domBetween (s st : PState) : Dom :=
  { lit := fun _ => True
    kt := fun k => st.inlineTextsSet.lookup k = s.inlineTextsSet.lookup k
    km := fun k => st.inlineMovementsSet.lookup k = s.inlineMovementsSet.lookup k
    n := fun n => lookupD st.inlineTextCounts n = lookupD s.inlineTextCounts n ∧
      lookupD st.inlineMovementCounts n = lookupD s.inlineMovementCounts n }

/-! ### the scope-id counter does not decrease -/

theorem elabE_sid_le (env : Env) (sn : String) (c : Ctx) (hB : c.breakStack = []) (hC : c.continueStack = [])
    (b : List SStmt) (stmts : List Stmt) (imp : ImpData) (c' : Ctx) (h : elabE env sn c b = .ok (stmts, imp, c')) :
    c.nextSid ≤ c'.nextSid := by
  have hs := elabE_shift env sn { c with nextSid := 0, nextCmdId := 0 } hB hC c.nextSid c.nextCmdId b
  have hc : ({ c with nextSid := 0 + c.nextSid, nextCmdId := 0 + c.nextCmdId } : Ctx) = c := by
    cases c; simp
  simp only [hc] at hs
  rw [hs] at h
  cases h0 : elabE env sn { c with nextSid := 0, nextCmdId := 0 } b with
  | error e => rw [h0] at h; cases h
  | ok q =>
    obtain ⟨a, m, c0⟩ := q
    rw [h0] at h
    simp only [Except.ok.injEq, Prod.mk.injEq] at h
    rw [← h.2.2]
    simp

theorem stepTop_sid_le (env : Env) (t : STop) (s st : PState) (o : Option Top) (hb : s.breakStack = [])
    (hc : s.continueStack = []) (h : stepTop env t s = .ok (o, st)) : s.nextSid ≤ st.nextSid := by
  cases t with
  | script kw md name lb body rb =>
    simp only [stepTop] at h
    cases he : elabE env name.lit (ctxOf s) body with
    | error e => rw [he] at h; cases h
    | ok q =>
      obtain ⟨a, imp, c'⟩ := q
      rw [he] at h
      simp only [Except.ok.injEq, Prod.mk.injEq] at h
      rw [← h.2]
      unfold afterScript
      rw [addImp_nextSid]
      exact elabE_sid_le env name.lit (ctxOf s) hb hc body a imp c' he
  | const kw name eq vs =>
    simp only [stepTop] at h
    split at h
    · cases h
    · split at h
      · cases h
      · simp only [Except.ok.injEq, Prod.mk.injEq] at h; rw [← h.2]; exact Nat.le_refl _
  | raw => simp only [stepTop, Except.ok.injEq, Prod.mk.injEq] at h; rw [← h.2]; exact Nat.le_refl _
  | movement => simp only [stepTop, Except.ok.injEq, Prod.mk.injEq] at h; rw [← h.2]; exact Nat.le_refl _
  | mart => simp only [stepTop, Except.ok.injEq, Prod.mk.injEq] at h; rw [← h.2]; exact Nat.le_refl _
  | text => simp only [stepTop, Except.ok.injEq, Prod.mk.injEq] at h; rw [← h.2]; exact Nat.le_refl _

theorem topBlocks_length_le (o : Opts) (ps : List ((Nat × Nat) × String)) (tl : List String) :
    ∀ (tops : List Top) (bs : List (List Line)), topBlocks o ps tl tops = .ok bs → bs.length ≤ tops.length
  | [], bs, h => by simp only [topBlocks, Except.ok.injEq] at h; subst h; exact Nat.le_refl _
  | t :: r, bs, h => by
    simp only [topBlocks] at h
    cases he : C17.emitTopLines o ps tl t with
    | none =>
      rw [he] at h
      have := topBlocks_length_le o ps tl r bs h
      simp only [List.length_cons]; omega
    | some e =>
      rw [he] at h
      cases e with
      | error err => cases h
      | ok ls =>
        simp only at h
        cases hr : topBlocks o ps tl r with
        | error err => rw [hr] at h; cases h
        | ok bs' =>
          rw [hr] at h
          simp only [Except.ok.injEq] at h
          subst h
          have := topBlocks_length_le o ps tl r bs' hr
          simp only [List.length_cons]; omega

/-! ### inserting / removing a statement -/

/-- **The side condition** for the statement `t` between `pre` and `post` (finite checks on the elaboration of
`pre ++ t :: post`; vacuous when it fails before `post`):
* `t` is not a `const` definition;
* the scripts of `post` hoist only texts / movements whose dedupe-table entry `t` has not created, and — if
  they hoist something — are not named like `t` when `t` has created a hoisted text or movement
  (`Uses … (domBetween s st)`: the tables before and after `t` agree on what `post` looks up);
* no label statement inside a script of `pre` or `post` is the name of a text that `t` contributes (its own
  name for a `text` statement, the generated `…_Text_n` for a script). -/
def Unrelated (env : Env) (eofT : Tok) (pre : List STop) (t : STop) (post : List STop) : Prop :=
  match elabTops env pre (initState eofT) with
  | .error _ => True
  | .ok (topsP, s) =>
    match stepTop env t s with
    | .error _ => True
    | .ok (_, st) =>
      t.isConst = false ∧ Uses env (domBetween s st) post s ∧
      match elabTops env post s with
      | .error _ => True
      | .ok (topsQ, _) => ∀ n ∈ labelNames (topsP ++ topsQ), n ∈ textNames st → n ∈ textNames s

theorem labelNames_append : ∀ (a b : List Top), labelNames (a ++ b) = labelNames a ++ labelNames b
  | [], _ => rfl
  | t :: r, b => by cases t <;> simp [labelNames, labelNames_append r b]

/-- **Removing an unrelated statement.** If `pre ++ t :: post` compiles to `S'` and `t` is unrelated to the
rest, then `S'` consists, section by section, of blocks `P` (of `pre`), `T` (of `t`: at most one top-level
block, its hoisted movements / texts or its text), `Q` (of `post`), and `pre ++ post` compiles to `P` followed
by `Q`: every block of every other statement is unchanged, nothing else appears or disappears. -/
theorem remove_statement (env : Env) (o : Opts) (eofT : Tok) (pre : List STop) (t : STop) (post : List STop)
    (h : Unrelated env eofT pre t post) (S' : Sections)
    (hc : compileFile env o eofT (pre ++ t :: post) = .ok S') :
    ∃ P T Q : Sections, S' = P.append (T.append Q) ∧ T.tops.length ≤ 1 ∧
      compileFile env o eofT (pre ++ post) = .ok (P.append Q) := by
  rw [compileFile_ok_iff] at hc
  obtain ⟨tops', b0, he', nd1, nd2, hsec⟩ := hc
  unfold Unrelated at h
  rw [elabTops_append] at he'
  cases hpre : elabTops env pre (initState eofT) with
  | error e => rw [hpre] at he'; cases he'
  | ok q =>
    obtain ⟨topsP, s⟩ := q
    rw [hpre] at he' h
    simp only [elabTops] at he' h
    cases ht : stepTop env t s with
    | error e => rw [ht] at he'; cases he'
    | ok q2 =>
      obtain ⟨ot, st⟩ := q2
      rw [ht] at he' h
      obtain ⟨hnc, hu, hlab⟩ := h
      simp only at he'
      cases hpost' : elabTops env post st with
      | error e => rw [hpost'] at he'; cases he'
      | ok q3 =>
        obtain ⟨topsQ', b1⟩ := q3
        rw [hpost'] at he'
        simp only [Except.ok.injEq, Prod.mk.injEq] at he'
        obtain ⟨rfl, rfl⟩ := he'
        -- facts about the prefix and about `t`
        obtain ⟨sb, sc, _, hrP, hdP⟩ := elabTops_selfD env pre (initState eofT) rfl rfl topsP s hpre
        have h1t : elabTops env [t] s = .ok (optTop ot, st) := by rw [elabTops_single, ht]
        obtain ⟨stb, stc, hle, hrT, hdT⟩ := elabTops_selfD env [t] s sb sc (optTop ot) st h1t
        have hsid := stepTop_sid_le env t s st ot sb sc ht
        have hconst := stepTop_constants env t s st ot hnc ht
        have hA : Agree (domBetween s st) (st.nextCmdId - s.nextCmdId) (st.nextSid - s.nextSid) s st :=
          ⟨fun _ _ => by rw [hconst], sb, sc, stb, stc, by omega, by omega,
            ⟨fun _ hk => hk, fun _ hn => hn.1, fun _ hk => hk, fun _ hn => hn.2⟩⟩
        have hf := elabTops_frame env (domBetween s st) _ _ post hA hu
        cases hpost : elabTops env post s with
        | error e => rw [hpost, hpost'] at hf; cases hf
        | ok q4 =>
          obtain ⟨topsQ, a1⟩ := q4
          rw [hpost] at hf hlab
          obtain ⟨topsB, b1'', hb, _, hleQ, hrQ, hdQ⟩ := hf
          rw [hpost'] at hb
          simp only [Except.ok.injEq, Prod.mk.injEq] at hb
          obtain ⟨rfl, rfl⟩ := hb
          -- the growth of the states
          obtain ⟨pP, pP', hpP, _, hpPall⟩ := hdP.patches
          obtain ⟨δT, hδT, _⟩ := hdT.texts
          obtain ⟨δM, hδM, _⟩ := hdT.moves
          obtain ⟨δS, hδS, _⟩ := hdT.stmts
          obtain ⟨δP, δP', hδP, hδP', hδall⟩ := hdT.patches
          have : δP' = δP := List.append_cancel_left (hδP'.symm.trans hδP)
          subst this
          obtain ⟨ΔT, hΔT, hΔT'⟩ := hdQ.texts
          obtain ⟨ΔM, hΔM, hΔM'⟩ := hdQ.moves
          obtain ⟨ΔS, hΔS, hΔS'⟩ := hdQ.stmts
          obtain ⟨ΔP, ΔP', hΔP, hΔP', hΔall⟩ := hdQ.patches
          have hsP : ∀ p ∈ s.patches, p.1.1 < s.nextCmdId := by
            intro p hp
            rw [hpP] at hp
            have hp' : p ∈ pP := by simpa [initState] using hp
            obtain ⟨x, _, hx⟩ := All2.mem_right hpPall p hp'
            exact hx.1.2.2
          have hδb : ∀ p ∈ δP', s.nextCmdId ≤ p.1.1 ∧ p.1.1 < st.nextCmdId := by
            intro p hp
            obtain ⟨x, _, hx⟩ := All2.mem_right hδall p hp
            exact ⟨hx.1.2.1, hx.1.2.2⟩
          have hΔb : ∀ p ∈ ΔP, s.nextCmdId ≤ p.1.1 := by
            intro p hp
            obtain ⟨x, _, hx⟩ := All2.mem_right hΔall p hp
            exact hx.1.2.1
          have hΔb' : ∀ p ∈ ΔP', st.nextCmdId ≤ p.1.1 := by
            intro p hp
            obtain ⟨x, _, hx⟩ := All2.mem_left hΔall p hp
            have h1 := hx.1.1
            have h2 := hx.1.2.1
            omega
          -- text names
          have hmem : ∀ n, n ∈ textNames b1 ↔ n ∈ textNames a1 ∨ n ∈ (δT ++ δS).map (·.name) := by
            intro n
            unfold textNames
            rw [hΔT', hΔS', hΔT, hΔS, hδT, hδS]
            simp only [List.map_append, List.mem_append]
            constructor
            · rintro (((h | h) | h) | ((h | h) | h))
              · exact .inl (.inl (.inl h))
              · exact .inr (.inl h)
              · exact .inl (.inl (.inr h))
              · exact .inl (.inr (.inl h))
              · exact .inr (.inr h)
              · exact .inl (.inr (.inr h))
            · rintro (((h | h) | (h | h)) | (h | h))
              · exact .inl (.inl (.inl h))
              · exact .inl (.inr h)
              · exact .inr (.inl (.inl h))
              · exact .inr (.inr h)
              · exact .inl (.inl (.inr h))
              · exact .inr (.inl (.inr h))
          have hlab' : ∀ n ∈ labelNames (topsP ++ topsQ), (textNames b1).contains n = (textNames a1).contains n := by
            intro n hn
            apply contains_congr
            rw [hmem]
            constructor
            · rintro (h | h)
              · exact h
              · have h1 : n ∈ textNames st := by
                  unfold textNames
                  rw [hδT, hδS]
                  simp only [List.map_append, List.mem_append] at h ⊢
                  rcases h with h | h
                  · exact .inl (.inr h)
                  · exact .inr (.inr h)
                have h2 := hlab n hn h1
                unfold textNames at h2 ⊢
                rw [hΔT, hΔS]
                simp only [List.map_append, List.mem_append] at h2 ⊢
                rcases h2 with h2 | h2
                · exact .inl (.inl h2)
                · exact .inr (.inl h2)
            · exact .inl
          -- the blocks
          unfold sectionsOf at hsec
          cases hbs : topBlocks o b1.patches (textNames b1) (topsP ++ (optTop ot ++ topsQ')) with
          | error e => rw [hbs] at hsec; cases hsec
          | ok bs =>
            rw [hbs] at hsec
            simp only [Except.ok.injEq] at hsec
            rw [topBlocks_append, topBlocks_append] at hbs
            cases hbP : topBlocks o b1.patches (textNames b1) topsP with
            | error e => rw [hbP] at hbs; cases hbs
            | ok bP =>
              rw [hbP] at hbs
              cases hbT : topBlocks o b1.patches (textNames b1) (optTop ot) with
              | error e => rw [hbT] at hbs; cases hbs
              | ok bT =>
                rw [hbT] at hbs
                cases hbQ : topBlocks o b1.patches (textNames b1) topsQ' with
                | error e => rw [hbQ] at hbs; cases hbs
                | ok bQ =>
                  rw [hbQ] at hbs
                  simp only [Except.ok.injEq] at hbs
                  have eP : topBlocks o b1.patches (textNames b1) topsP =
                      topBlocks o a1.patches (textNames a1) topsP := by
                    refine topBlocks_frame o (Rb_mono_s 0 0 0 s.nextCmdId) ?_ hrP
                      (fun n hn => hlab' n (by rw [labelNames_append]; exact List.mem_append_left _ hn))
                    intro c' c hcc
                    obtain ⟨rfl, hlt⟩ := relCmd_Rb0_eq hcc
                    rw [hΔP', hδP, hΔP]
                    rw [patchedArgs_append_right _ ΔP', patchedArgs_append_right _ δP',
                      patchedArgs_append_right _ ΔP]
                    · intro p hp; have := hΔb p hp; omega
                    · intro p hp; have := (hδb p hp).1; omega
                    · intro p hp; have := hΔb' p hp; omega
                  have eQ : topBlocks o b1.patches (textNames b1) topsQ' =
                      topBlocks o a1.patches (textNames a1) topsQ := by
                    refine topBlocks_frame o (Rb_mono_s _ _ s.nextCmdId a1.nextCmdId) ?_ hrQ
                      (fun n hn => hlab' n (by rw [labelNames_append]; exact List.mem_append_right _ hn))
                    intro c' c hcc
                    rw [hΔP', hΔP, patchedArgs_append_left st.patches, patchedArgs_append_left s.patches]
                    · exact patchedArgs_rel (Rb_mono_c _ _ _ _) hΔall hcc
                    · intro p hp; have h1 := hsP p hp; have h2 := hcc.1.2.1; omega
                    · intro p hp
                      have h2 := hcc.1.2.1
                      have h3 := hcc.1.1
                      rw [hδP] at hp
                      rcases List.mem_append.1 hp with hp | hp
                      · have h1 := hsP p hp; omega
                      · have h1 := (hδb p hp).2; omega
                  rw [eP] at hbP
                  rw [eQ] at hbQ
                  refine ⟨⟨bP, s.inlineMovements.map (emitMovement o), s.inlineTexts.map (emitText o),
                      s.textStatements.map (emitText o)⟩,
                    ⟨bT, δM.map (emitMovement o), δT.map (emitText o), δS.map (emitText o)⟩,
                    ⟨bQ, ΔM.map (emitMovement o), ΔT.map (emitText o), ΔS.map (emitText o)⟩, ?_, ?_, ?_⟩
                  · rw [← hsec, ← hbs, hΔM', hΔT', hΔS', hδM, hδT, hδS]
                    simp [Sections.append, List.map_append, List.append_assoc]
                  · have := topBlocks_length_le o _ _ _ _ hbT
                    have h2 : (optTop ot).length ≤ 1 := by cases ot <;> simp [optTop]
                    simp only; omega
                  · rw [compileFile_ok_iff]
                    refine ⟨topsP ++ topsQ, a1, ?_, ?_, ?_, ?_⟩
                    · rw [elabTops_append, hpre]; simp only [hpost]
                    · refine List.Nodup.sublist ?_ nd1
                      unfold textNames
                      rw [hΔT', hΔS', hΔT, hΔS, hδT, hδS]
                      refine List.Sublist.map _ (List.Sublist.append ?_ ?_)
                      · exact List.Sublist.append (List.sublist_append_left _ _) (List.Sublist.refl _)
                      · exact List.Sublist.append (List.sublist_append_left _ _) (List.Sublist.refl _)
                    · refine List.Nodup.sublist ?_ nd2
                      unfold allMvNames
                      rw [mvNames_append, mvNames_append, mvNames_append, mvNames_rel hrQ, hΔM', hΔM, hδM]
                      refine List.Sublist.append ?_ ?_
                      · exact List.Sublist.append (List.Sublist.refl _) (List.sublist_append_right _ _)
                      · exact List.Sublist.map _
                          (List.Sublist.append (List.sublist_append_left _ _) (List.Sublist.refl _))
                    · unfold sectionsOf
                      rw [topBlocks_append, hbP, hbQ]
                      simp [Sections.append, hΔM, hΔT, hΔS, List.map_append]

end Pory.P2
