import PoryProofs.LexString
/-
Helpers for L1 (`PoryProofs/Properties/L1.lean`), part 0: character-class facts.

* `inL` / `isLetterL` / `isDigitL`: the character classes of the lexer with the Unicode range tables
  read as lists (`isLetterL_eq`, `isDigitL_eq`: they are the model's `isLetter` / `isDigit`).  The
  model's `Array.any` does not evaluate in the kernel in reasonable time (≈ 30 s for ONE character
  that is not a letter); the list versions do, so decidable side conditions about concrete tokens
  are discharged through them.
* `digit_not_letter`: no character is both a (Unicode) digit and a letter or `_` — checked on the
  tables (`digitsDisjoint_ok`).  Hence `NextToken`, which tests `isLetter` before `isDigit`, reads a
  run of digits as a number whatever digits they are.
-/
namespace Pory.L1
open Pory Pory.Lexer Pory.LexPos Pory.LexLayout

def inL (tab : List (Nat × Nat × Nat)) (n : Nat) : Bool :=
  tab.any fun (lo, hi, stride) => lo ≤ n && n ≤ hi && (n - lo) % stride == 0

theorem inRanges_inL (tab : Array (Nat × Nat × Nat)) (n : Nat) : inRanges tab n = inL tab.toList n :=
  inRanges_list tab n

/-- `isLetter` over the table as a list -/
def isLetterL (c : Char) : Bool := inL Facts.unicodeLetter.toList c.toNat || c == '_'
/-- `isDigit` over the table as a list -/
def isDigitL (c : Char) : Bool := inL Facts.unicodeDigit.toList c.toNat

theorem isLetterL_eq : isLetterL = isLetter := by
  funext c
  simp only [isLetterL, isLetter, inRanges_inL]

theorem isDigitL_eq : isDigitL = isDigit := by
  funext c
  simp only [isDigitL, isDigit, inRanges_inL]

/-- digit range `d` and letter range `l` have no common element: the intervals are disjoint or no
element of `d` is on the stride of `l` -/
def pairCheck (d l : Nat × Nat × Nat) : Bool :=
  decide (d.2.1 < l.1) || decide (l.2.1 < d.1) ||
    (List.range (d.2.1 - d.1 + 1)).all fun k =>
      !(decide (l.1 ≤ d.1 + k) && decide (d.1 + k ≤ l.2.1) && (d.1 + k - l.1) % l.2.2 == 0)

/-- no digit range contains `_` (95) or meets a letter range -/
def digitsDisjoint : Bool :=
  Facts.unicodeDigit.toList.all fun d =>
    (decide (95 < d.1) || decide (d.2.1 < 95)) && Facts.unicodeLetter.toList.all fun l => pairCheck d l

theorem digitsDisjoint_ok : digitsDisjoint = true := by decide +kernel

/-- **No digit is a letter** (in the lexer's sense: Unicode letter or `_`). -/
theorem digit_not_letter (c : Char) (h : isDigit c = true) : isLetter c = false := by
  have hd := digitsDisjoint_ok
  simp only [digitsDisjoint, List.all_eq_true, Bool.and_eq_true, Bool.or_eq_true,
    decide_eq_true_eq] at hd
  simp only [isDigit, inRanges_inL, inL, List.any_eq_true, Bool.and_eq_true, decide_eq_true_eq] at h
  obtain ⟨⟨lo, hi, st⟩, hr, ⟨h1, h2⟩, -⟩ := h
  obtain ⟨h95, hL⟩ := hd _ hr
  simp only at h95 hL h1 h2
  cases hl : isLetter c with
  | false => rfl
  | true =>
    exfalso
    simp only [isLetter, inRanges_inL, inL, Bool.or_eq_true, List.any_eq_true, Bool.and_eq_true,
      decide_eq_true_eq, beq_iff_eq] at hl
    rcases hl with ⟨⟨lo', hi', st'⟩, hr', ⟨g1, g2⟩, g3⟩ | hl
    · have := hL _ hr'
      simp only [pairCheck, Bool.or_eq_true, decide_eq_true_eq, List.all_eq_true, List.mem_range,
        Bool.not_eq_true', Bool.and_eq_false_iff, decide_eq_false_iff_not, beq_eq_false_iff_ne] at this
      simp only at g1 g2 g3 this
      rcases this with (this | this) | this
      · omega
      · omega
      · have := this (c.toNat - lo) (by omega)
        have e : lo + (c.toNat - lo) = c.toNat := by omega
        simp only [e] at this
        rcases this with (this | this) | this
        · exact this g1
        · exact this g2
        · exact this g3
    · have : c.toNat = 95 := by rw [hl]; rfl
      omega

end Pory.L1
