import PorySpec.Basic
import PorySpec.LeafSem
import PorySpec.Sem
import PorySpec.Impl
