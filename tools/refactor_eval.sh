#!/bin/bash
# tools/refactor_eval.sh <dir with <i>/patch.diff> : run all 20 checks against each behaviour-preserving
# refactoring (in scratch copies, 4 at a time); any check that exits non-zero is a false alarm to look at.
d=${1:-/tmp/refactors}; out=${2:-/root/scratch/refactor_eval}; mkdir -p $out
run() { i=$1; slot=$2; MUT_SLOT=_r$slot python3 /verif/tools/muttest.py $d/$i/patch.diff C01 C02 C03 C04 C05 C06 C07 C08 C09 C10 C11 C12 C13 C14 C15 C16 C17 C18 C19 C20 > $out/$i.json 2>&1; }
ids=$(ls $d | grep -E '^[0-9]+$' | sort -n)
slot=0
for i in $ids; do run $i $slot & slot=$(( (slot+1) % 4 )); if [ $slot -eq 0 ]; then wait; fi; done; wait
for i in $ids; do python3 - $out/$i.json $i <<'P'
import json,sys
t=open(sys.argv[1]).read()
try:
    d=json.loads(t[t.index("{"):]); bad={p:r["detail"][:160] for p,r in d["results"].items() if r["exit"]!=0}
    print("refactor", sys.argv[2], "tests_pass", d["tests_pass"], "ALARMS:" if bad else "no alarm", bad if bad else "")
except Exception as e: print("refactor", sys.argv[2], "ERROR", t[-300:])
P
done
