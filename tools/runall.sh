#!/bin/bash
# run every registered quick (or $1=thorough) check, print one line per check with its exit code
cd "$(dirname "$0")/.."
tier=${1:-quick}; bad=0
for p in C01 C02 C03 C04 C05 C06 C07 C08 C09 C10 C11 C12 C13 C14 C15 C16 C17 C18 C19 C20; do
  out=$(./check $p --tier $tier 2>&1); rc=$?
  echo "$p exit=$rc $(echo "$out" | grep -c '^KNOWN-FINDING') known | $(echo "$out" | tail -1 | cut -c1-150)"
  if [ $rc -ne 0 ]; then bad=1; echo "$out" | grep -A2 '^VIOLATION' | cut -c1-400; fi
done
exit $bad
