#!/usr/bin/env python3
"""Confirm a seeded change (tests still pass, demo fails with it and passes without) and run the
given checks against it.  tools/seedeval.py <seed dir> <id> C04 ...   -> writes /verif/seeded/<id>/"""
import sys, os, subprocess, shutil, json, glob
def sh(cmd, **kw):
    r = subprocess.run(cmd, shell=True, stdout=subprocess.PIPE, stderr=subprocess.STDOUT, **kw); return r.returncode, r.stdout.decode()
ENV = dict(os.environ, GOFLAGS="-mod=mod", GOPROXY="off", GOSUMDB="off", GOTOOLCHAIN="local")
def demo(wt, sd):
    """returns (exit code, tail) of the demonstration in worktree wt"""
    if os.path.exists(os.path.join(sd, "demo_test.go")):
        txt = open(os.path.join(sd, "demo_test.go")).read()
        pkg = "emitter"
        for line in txt.split("\n"):
            if line.startswith("package "): pkg = line.split()[1].replace("_test", ""); break
        if pkg == "main": pkg = "."
        dst = os.path.join(wt, pkg, "zz_seed_demo_test.go"); shutil.copy(os.path.join(sd, "demo_test.go"), dst)
        rc, out = sh("cd %s && go test -vet=off -count=1 ./%s/ 2>&1 | tail -15" % (wt, pkg), env=ENV)
        os.remove(dst)
        return (1 if ("FAIL" in out or rc != 0) else 0), out[-600:]
    d = os.path.join(sd, "demo")
    if os.path.isdir(d):
        tmp = "/root/scratch/demo_tmp" + os.environ.get("MUT_SLOT", ""); shutil.rmtree(tmp, ignore_errors=True); shutil.copytree(d, tmp)
        gm = open(os.path.join(tmp, "go.mod")).read()
        import re
        gm = re.sub(r"=>\s*\S+", "=> " + wt, gm); open(os.path.join(tmp, "go.mod"), "w").write(gm)
        rc, out = sh("cd %s && go run . %s 2>&1 | tail -15" % (tmp, wt), env=ENV)
        shutil.rmtree(tmp, ignore_errors=True)
        return (1 if (rc != 0 or "exit status" in out) else 0), out[-600:]
    return None, "no demo found"
def main():
    sd = os.path.abspath(sys.argv[1]); sid = sys.argv[2]; props = sys.argv[3:]
    wt = "/root/scratch/seedwt" + os.environ.get("MUT_SLOT", "")
    sh("git -C /repo worktree remove --force %s; rm -rf %s" % (wt, wt))
    rc, out = sh("git -C /repo worktree add -f %s HEAD" % wt); assert rc == 0, out
    d0, t0 = demo(wt, sd)
    rc, out = sh("git -C %s apply %s/patch.diff" % (wt, sd))
    if rc != 0: print("patch does not apply:", out); return 2
    rc, tout = sh("cd %s && go build ./... && go test -vet=off -count=1 ./... 2>&1 | tail -5" % wt, env=ENV)
    tests_ok = rc == 0 and "FAIL" not in tout
    d1, t1 = demo(wt, sd)
    sh("git -C /repo worktree remove --force %s" % wt)
    rc, mt = sh("python3 /verif/tools/muttest.py %s/patch.diff %s" % (sd, " ".join(props)))
    try: res = json.loads(mt[mt.index("{"):])["results"]
    except Exception: res = {"error": mt[-800:]}
    meta = {"id": sid, "source": sd, "tests_pass_with_patch": tests_ok, "demo_without_patch_exit": d0, "demo_with_patch_exit": d1,
            "confirmed": bool(tests_ok and d0 == 0 and d1 == 1), "checks": res}
    out = "/verif/seeded/" + sid; os.makedirs(out, exist_ok=True)
    shutil.copy(os.path.join(sd, "patch.diff"), out)
    for f in ("demo_test.go", "README.md"):
        if os.path.exists(os.path.join(sd, f)): shutil.copy(os.path.join(sd, f), out)
    if os.path.isdir(os.path.join(sd, "demo")): shutil.copytree(os.path.join(sd, "demo"), os.path.join(out, "demo"), dirs_exist_ok=True)
    json.dump(meta, open(os.path.join(out, "meta.json"), "w"), indent=1)
    print(json.dumps(meta, indent=1)[:3000])
main()
