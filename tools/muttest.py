#!/usr/bin/env python3
"""Run checks against a mutated copy of the repository without touching /repo or /verif:
   tools/muttest.py <patch.diff | revert:<commit>> C01 C02 ...
A copy of /verif (with its build output) lives in /root/scratch/vm, a worktree of /repo HEAD in
/root/scratch/mrepo; both are removed afterwards unless KEEP=1."""
import sys, os, subprocess, shutil, json
SLOT = os.environ.get("MUT_SLOT", "")
VM = "/root/scratch/vm" + SLOT; MR = "/root/scratch/mrepo" + SLOT
def sh(cmd, **kw): return subprocess.run(cmd, shell=True, stdout=subprocess.PIPE, stderr=subprocess.STDOUT, **kw)
def main():
    patch = sys.argv[1]; props = sys.argv[2:]
    sh("git -C /repo worktree remove --force %s; rm -rf %s" % (MR, MR))
    r = sh("git -C /repo worktree add -f %s HEAD" % MR); assert r.returncode == 0, r.stdout
    if patch.startswith("revert:"):
        c = patch.split(":", 1)[1]
        r = sh("git -C %s diff %s %s^ | git -C %s apply" % (MR, c, c, MR))
    else:
        r = sh("git -C %s apply %s" % (MR, os.path.abspath(patch)))
        if r.returncode != 0: r = sh("git -C %s apply -3 %s" % (MR, os.path.abspath(patch)))
    if r.returncode != 0: print("APPLY FAILED", r.stdout.decode()); return 2
    env = dict(os.environ, GOFLAGS="-mod=mod", GOPROXY="off", GOSUMDB="off", GOTOOLCHAIN="local")
    t = sh("cd %s && go build ./... && go test -vet=off -count=1 ./... 2>&1 | tail -4" % MR, env=env)
    tests_ok = "FAIL" not in t.stdout.decode() and t.returncode == 0
    os.makedirs(VM, exist_ok=True)
    sh("rsync -a --delete --exclude .git --exclude evidence --exclude replays --exclude .work/lock /verif/ %s/" % VM)
    results = {}
    for p in props:
        e = dict(env, VERIF_REPO=MR)
        r = sh("cd %s && ./check %s" % (VM, p), env=e)
        out = r.stdout.decode()
        viol = [l for l in out.split("\n") if l.startswith("VIOLATION")]
        results[p] = {"exit": r.returncode, "violation": viol[0] if viol else None,
                      "detail": out.split("\n")[out.split("\n").index(viol[0]) + 1][:300] if viol else out.strip().split("\n")[-1][:200]}
    print(json.dumps({"patch": patch, "tests_pass": tests_ok, "results": results}, indent=1))
    if not os.environ.get("KEEP"):
        sh("git -C /repo worktree remove --force %s" % MR)
    return 0
sys.exit(main())
