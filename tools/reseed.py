#!/usr/bin/env python3
"""Re-run every kept seeded change against the current checks and refresh seeded/<id>/meta.json.
   tools/reseed.py [id ...]      (default: all of /verif/seeded)
For each seed the checks listed in its meta.json (plus the check of its own property) run through
tools/muttest.py, i.e. in a copy of /verif against a scratch worktree of /repo with the patch applied.
Nothing is applied to /repo itself."""
import sys, os, json, subprocess, re
SEEDED = "/verif/seeded"
def one(arg):
    sid, slot = arg
    return run_one(sid, slot)

def main():
    ids = sys.argv[1:] or sorted(os.listdir(SEEDED))
    import concurrent.futures
    jobs = int(os.environ.get("RESEED_JOBS", "4"))
    missed = []
    missed = []
    for w in range(0, len(ids), jobs):
        wave = ids[w:w + jobs]
        with concurrent.futures.ThreadPoolExecutor(max_workers=jobs) as ex:
            for sid, ok in ex.map(lambda a: run_one(*a), [(sid, "_s%d" % k) for k, sid in enumerate(wave)]):
                if not ok: missed.append(sid)
    print("MISSED:", missed)

def run_one(sid, slot):
    if True:
        d = os.path.join(SEEDED, sid); mp = os.path.join(d, "meta.json")
        if not os.path.exists(mp): return sid, True
        meta = json.load(open(mp)); prop = sid.split("-")[0]
        props = [prop] + [p for p in meta.get("checks", {}) if p != prop and re.match(r"^C\d\d$", p)]
        r = subprocess.run(["python3", "/verif/tools/muttest.py", os.path.join(d, "patch.diff")] + props, stdout=subprocess.PIPE, stderr=subprocess.STDOUT,
                           env=dict(os.environ, MUT_SLOT=slot))
        out = r.stdout.decode()
        try: res = json.loads(out[out.index("{"):])
        except Exception:
            print(sid, "ERROR", out[-300:]); return sid, False
        meta["checks"] = res["results"]; meta["tests_pass_with_patch"] = res["tests_pass"]
        meta["property"] = prop
        meta["caught_by"] = [p for p, x in res["results"].items() if x["exit"] != 0]
        if "needs_to_manifest" not in meta:
            rd = os.path.join(d, "README.md"); txt = open(rd).read() if os.path.exists(rd) else ""
            m = re.search(r"(?is)what it needs[^\n]*\n(.*?)(\n\*\*|\n## |\Z)", txt)
            meta["needs_to_manifest"] = (m.group(0).strip()[:900] if m else "see README.md")
        meta["what_was_run"] = [
            "git apply patch.diff in a scratch worktree of /repo HEAD; go build ./... && go test -vet=off -count=1 ./... (must pass)",
            "the demonstration (demo_test.go dropped into its package / demo program) without the patch (must pass) and with it (must fail)",
            "tools/muttest.py: the listed ./check commands in a copy of /verif against the patched worktree (VERIF_REPO); results in 'checks'"]
        json.dump(meta, open(mp, "w"), indent=1)
        print(sid, "caught by", meta["caught_by"] or "NOTHING", flush=True)
        return sid, bool(meta["caught_by"])
main()
