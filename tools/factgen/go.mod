module factgen

go 1.13
