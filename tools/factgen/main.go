// factgen re-reads /repo with go/ast on every run and regenerates the Lean tables the model
// is built on (PoryModel/Generated/Facts.lean), plus a static inventory (JSON) used by C17/C18.
// It uses only the standard library. If a table cannot be found the tool exits 3 and prints
// the name of the table; the caller then keeps the last committed facts and records the skip.
package main

import (
	"encoding/json"
	"fmt"
	"go/ast"
	"go/parser"
	"go/token"
	"os"
	"path/filepath"
	"sort"
	"strconv"
	"strings"
	"unicode"
)

var fset = token.NewFileSet()

func parseFile(repo, rel string) *ast.File {
	f, err := parser.ParseFile(fset, filepath.Join(repo, rel), nil, parser.ParseComments)
	if err != nil {
		fail("parse " + rel + ": " + err.Error())
	}
	return f
}

func fail(what string) {
	fmt.Fprintln(os.Stderr, "factgen: cannot extract: "+what)
	os.Exit(3)
}

func unq(e ast.Expr) string {
	bl, ok := e.(*ast.BasicLit)
	if !ok || bl.Kind != token.STRING {
		fail("expected string literal")
	}
	s, err := strconv.Unquote(bl.Value)
	if err != nil {
		fail("unquote")
	}
	return s
}

func leanStr(s string) string {
	var sb strings.Builder
	sb.WriteByte('"')
	for _, r := range s {
		switch r {
		case '"':
			sb.WriteString("\\\"")
		case '\\':
			sb.WriteString("\\\\")
		case '\n':
			sb.WriteString("\\n")
		case '\t':
			sb.WriteString("\\t")
		default:
			sb.WriteRune(r)
		}
	}
	sb.WriteByte('"')
	return sb.String()
}

// token constants: name -> string value, in source order
func tokenConsts(f *ast.File) ([]string, map[string]string) {
	names := []string{}
	vals := map[string]string{}
	for _, d := range f.Decls {
		gd, ok := d.(*ast.GenDecl)
		if !ok || gd.Tok != token.CONST {
			continue
		}
		for _, sp := range gd.Specs {
			vs := sp.(*ast.ValueSpec)
			for i, n := range vs.Names {
				if i < len(vs.Values) {
					if bl, ok := vs.Values[i].(*ast.BasicLit); ok && bl.Kind == token.STRING {
						names = append(names, n.Name)
						vals[n.Name] = unq(bl)
					}
				}
			}
		}
	}
	return names, vals
}

func findVar(f *ast.File, name string) ast.Expr {
	if e := lookupVar(f, name); e != nil {
		return e
	}
	fail("var " + name)
	return nil
}

func lookupVar(f *ast.File, name string) ast.Expr {
	for _, d := range f.Decls {
		gd, ok := d.(*ast.GenDecl)
		if !ok || gd.Tok != token.VAR {
			continue
		}
		for _, sp := range gd.Specs {
			vs := sp.(*ast.ValueSpec)
			for i, n := range vs.Names {
				if n.Name == name && i < len(vs.Values) {
					return vs.Values[i]
				}
			}
		}
	}
	return nil
}

func findFunc(f *ast.File, name string) *ast.FuncDecl {
	for _, d := range f.Decls {
		fd, ok := d.(*ast.FuncDecl)
		if ok && fd.Name.Name == name {
			return fd
		}
	}
	fail("func " + name)
	return nil
}

func selName(e ast.Expr) string {
	switch x := e.(type) {
	case *ast.SelectorExpr:
		return x.Sel.Name
	case *ast.Ident:
		return x.Name
	}
	fail("selector expected")
	return ""
}

// all string literals appearing in a function body, in source order
func stringLits(n ast.Node) []string {
	out := []string{}
	ast.Inspect(n, func(x ast.Node) bool {
		if bl, ok := x.(*ast.BasicLit); ok && bl.Kind == token.STRING {
			s, _ := strconv.Unquote(bl.Value)
			out = append(out, s)
		}
		return true
	})
	return out
}

func intLits(n ast.Node) []string {
	out := []string{}
	ast.Inspect(n, func(x ast.Node) bool {
		if bl, ok := x.(*ast.BasicLit); ok && bl.Kind == token.INT {
			out = append(out, bl.Value)
		}
		return true
	})
	return out
}

func rangesOf(tabs ...*unicode.RangeTable) [][3]uint32 {
	out := [][3]uint32{}
	for _, t := range tabs {
		for _, r := range t.R16 {
			out = append(out, [3]uint32{uint32(r.Lo), uint32(r.Hi), uint32(r.Stride)})
		}
		for _, r := range t.R32 {
			out = append(out, [3]uint32{r.Lo, r.Hi, r.Stride})
		}
	}
	return out
}

func leanRanges(name string, rs [][3]uint32) string {
	var sb strings.Builder
	fmt.Fprintf(&sb, "def %s : Array (Nat × Nat × Nat) := #[", name)
	for i, r := range rs {
		if i > 0 {
			sb.WriteString(", ")
		}
		if i%6 == 0 {
			sb.WriteString("\n  ")
		}
		fmt.Fprintf(&sb, "(%d, %d, %d)", r[0], r[1], r[2])
	}
	sb.WriteString("]\n")
	return sb.String()
}

type site struct {
	File string `json:"file"`
	Line int    `json:"line"`
	What string `json:"what"`
}

// mapPairs: the key/value expressions of a package-level map literal that the function reads
// (the table form of what may also be written as a switch), in source order.
func mapPairs(f *ast.File, fn *ast.FuncDecl) [][2]ast.Expr {
	var out [][2]ast.Expr
	ast.Inspect(fn, func(x ast.Node) bool {
		id, ok := x.(*ast.Ident)
		if !ok || out != nil {
			return true
		}
		if cl, ok := lookupVar(f, id.Name).(*ast.CompositeLit); ok {
			if _, isMap := cl.Type.(*ast.MapType); isMap {
				for _, e := range cl.Elts {
					if kv, ok := e.(*ast.KeyValueExpr); ok {
						out = append(out, [2]ast.Expr{kv.Key, kv.Value})
					}
				}
			}
		}
		return true
	})
	return out
}

func main() {
	repo := "/repo"
	out := ""
	inv := ""
	for i := 1; i < len(os.Args); i++ {
		switch os.Args[i] {
		case "-repo":
			repo = os.Args[i+1]
			i++
		case "-out":
			out = os.Args[i+1]
			i++
		case "-inventory":
			inv = os.Args[i+1]
			i++
		}
	}
	tokF := parseFile(repo, "token/token.go")
	parF := parseFile(repo, "parser/parser.go")
	fmtF := parseFile(repo, "parser/formattext.go")
	emF := parseFile(repo, "emitter/emitter.go")
	brF := parseFile(repo, "emitter/branch.go")
	chF := parseFile(repo, "emitter/chunk.go")

	var sb strings.Builder
	sb.WriteString("/- GENERATED by tools/factgen from /repo on every check run. Do not edit. -/\n")
	sb.WriteString("import PoryModel.TokType\nnamespace Pory.Facts\nopen Pory\n\n")

	// 1. token type strings
	names, vals := tokenConsts(tokF)
	sb.WriteString("def ttString : TT → String\n")
	for _, n := range names {
		if n == "CMPVAR" || n == "CMPFLAG" {
			continue
		}
		fmt.Fprintf(&sb, "  | .%s => %s\n", n, leanStr(vals[n]))
	}
	sb.WriteString("\n")

	// 2. keywords
	kw := findVar(tokF, "keywords").(*ast.CompositeLit)
	type kv struct{ k, v string }
	kws := []kv{}
	for _, e := range kw.Elts {
		p := e.(*ast.KeyValueExpr)
		kws = append(kws, kv{unq(p.Key), selName(p.Value)})
	}
	sort.SliceStable(kws, func(i, j int) bool { return kws[i].k < kws[j].k })
	sb.WriteString("def keywords : List (String × TT) := [\n")
	for i, p := range kws {
		c := ","
		if i == len(kws)-1 {
			c = ""
		}
		fmt.Fprintf(&sb, "  (%s, .%s)%s\n", leanStr(p.k), p.v, c)
	}
	sb.WriteString("]\n\n")

	// 3. topLevelTokens
	tl := findVar(parF, "topLevelTokens").(*ast.CompositeLit)
	tls := []string{}
	for _, e := range tl.Elts {
		p := e.(*ast.KeyValueExpr)
		if id, ok := p.Value.(*ast.Ident); !ok || id.Name != "true" {
			fail("topLevelTokens value")
		}
		tls = append(tls, "."+selName(p.Key))
	}
	fmt.Fprintf(&sb, "def topLevelTokens : List TT := [%s]\n\n", strings.Join(tls, ", "))

	// 4. textSuffixes
	ts := findVar(parF, "textSuffixes").(*ast.CompositeLit)
	tss := []string{}
	for _, e := range ts.Elts {
		p := e.(*ast.KeyValueExpr)
		tss = append(tss, fmt.Sprintf("(%s, %s)", leanStr(unq(p.Key)), leanStr(unq(p.Value))))
	}
	sort.Strings(tss)
	fmt.Fprintf(&sb, "def textSuffixes : List (String × String) := [%s]\n\n", strings.Join(tss, ", "))

	// 5. namedParameters (values of the const names)
	_, pvals := tokenConsts(parF)
	np := findVar(parF, "namedParameters").(*ast.CompositeLit)
	nps := []string{}
	for _, e := range np.Elts {
		p := e.(*ast.KeyValueExpr)
		nps = append(nps, leanStr(pvals[selName(p.Key)]))
	}
	fmt.Fprintf(&sb, "def namedParameters : List String := [%s]\n", strings.Join(nps, ", "))
	for _, n := range []string{"formatParamFontId", "formatParamMaxLineLength", "formatParamNumLines", "formatParamCursorOverlapWidth"} {
		v, ok := pvals[n]
		if !ok {
			fail(n)
		}
		fmt.Fprintf(&sb, "def %s : String := %s\n", n, leanStr(v))
	}
	sb.WriteString("\n")

	// 6. getNegatedBooleanOperator
	neg := findFunc(parF, "getNegatedBooleanOperator")
	var sw *ast.SwitchStmt
	ast.Inspect(neg, func(x ast.Node) bool {
		if s, ok := x.(*ast.SwitchStmt); ok && sw == nil {
			sw = s
		}
		return true
	})
	negPairs := mapPairs(parF, neg)
	if sw == nil && negPairs == nil {
		fail("getNegatedBooleanOperator switch / map")
	}
	sb.WriteString("def negatedOperator : List (TT × TT) := [")
	first := true
	if sw == nil {
		for _, kv := range negPairs {
			if !first {
				sb.WriteString(", ")
			}
			first = false
			fmt.Fprintf(&sb, "(.%s, .%s)", selName(kv[0]), selName(kv[1]))
		}
		sw = &ast.SwitchStmt{Body: &ast.BlockStmt{}}
	}
	for _, c := range sw.Body.List {
		cc := c.(*ast.CaseClause)
		if cc.List == nil {
			continue
		}
		ret, ok := cc.Body[0].(*ast.ReturnStmt)
		if !ok {
			fail("negation case body")
		}
		for _, k := range cc.List {
			if !first {
				sb.WriteString(", ")
			}
			first = false
			fmt.Fprintf(&sb, "(.%s, .%s)", selName(k), selName(ret.Results[0]))
		}
	}
	sb.WriteString("]\n\n")

	// 7. renderVarComparison opcode table
	rvc := findFunc(brF, "renderVarComparison")
	sw = nil
	ast.Inspect(rvc, func(x ast.Node) bool {
		if s, ok := x.(*ast.SwitchStmt); ok && sw == nil {
			sw = s
		}
		return true
	})
	opPairs := mapPairs(brF, rvc)
	if sw == nil && opPairs == nil {
		fail("renderVarComparison switch / map")
	}
	sb.WriteString("def varCompareOpcode : List (TT × String) := [")
	first = true
	if sw == nil {
		for _, kv := range opPairs {
			if !first {
				sb.WriteString(", ")
			}
			first = false
			fmt.Fprintf(&sb, "(.%s, %s)", selName(kv[0]), leanStr(unq(kv[1])))
		}
		sw = &ast.SwitchStmt{Body: &ast.BlockStmt{}}
	}
	for _, c := range sw.Body.List {
		cc := c.(*ast.CaseClause)
		lits := stringLits(cc)
		if len(cc.List) != 1 || len(lits) != 1 {
			fail("renderVarComparison case")
		}
		// literal looks like "\tgoto_if_eq %s_%d\n"
		op := strings.TrimSuffix(strings.TrimPrefix(lits[0], "\t"), " %s_%d\n")
		if !first {
			sb.WriteString(", ")
		}
		first = false
		fmt.Fprintf(&sb, "(.%s, %s)", selName(cc.List[0]), leanStr(op))
	}
	sb.WriteString("]\n")
	lits := stringLits(rvc)
	if len(lits) < 3 {
		fail("renderVarComparison literals")
	}
	fmt.Fprintf(&sb, "def compareCommand : String := %s\ndef compareStrictCommand : String := %s\n\n", leanStr(lits[0]), leanStr(lits[1]))

	// 8. flag / defeated rendering literals
	rfc := stringLits(findFunc(brF, "renderFlagComparison"))
	rdc := stringLits(findFunc(brF, "renderDefeatedComparison"))
	if len(rfc) != 2 || len(rdc) != 3 {
		fail("flag/defeated rendering literals")
	}
	fmt.Fprintf(&sb, "def flagSetFmt : String := %s\ndef flagUnsetFmt : String := %s\n", leanStr(rfc[0]), leanStr(rfc[1]))
	fmt.Fprintf(&sb, "def checkTrainerFmt : String := %s\ndef trainerSetFmt : String := %s\ndef trainerUnsetFmt : String := %s\n\n", leanStr(rdc[0]), leanStr(rdc[1]), leanStr(rdc[2]))

	// 9. default scopes: the argument of parseScopeModifier in each parse...Statement
	sb.WriteString("def defaultScope : List (String × TT) := [")
	first = true
	for _, fn := range []string{"parseScriptStatement", "parseTextStatement", "parseMovementStatement", "parseMartStatement", "parseMapscriptsStatement"} {
		fd := findFunc(parF, fn)
		found := ""
		ast.Inspect(fd, func(x ast.Node) bool {
			if ce, ok := x.(*ast.CallExpr); ok {
				if se, ok := ce.Fun.(*ast.SelectorExpr); ok && se.Sel.Name == "parseScopeModifier" && len(ce.Args) == 1 {
					found = selName(ce.Args[0])
				}
			}
			return true
		})
		if found == "" {
			fail("default scope of " + fn)
		}
		if !first {
			sb.WriteString(", ")
		}
		first = false
		fmt.Fprintf(&sb, "(%s, .%s)", leanStr(fn), found)
	}
	sb.WriteString("]\n\n")

	// 10. terminators, multiplier bounds
	mv := findFunc(emF, "emitMovementStatement")
	mt := findFunc(emF, "emitMartStatement")
	mvl := stringLits(mv)
	mtl := stringLits(mt)
	if len(mvl) == 0 || len(mtl) == 0 {
		fail("terminators")
	}
	fmt.Fprintf(&sb, "def movementTerminator : String := %s\ndef martTerminator : String := %s\n", leanStr(mvl[0]), leanStr(mtl[0]))
	pmv := findFunc(parF, "parseMovementValue")
	bounds := []string{}
	ast.Inspect(pmv, func(x ast.Node) bool {
		if be, ok := x.(*ast.BinaryExpr); ok {
			if id, ok := be.X.(*ast.Ident); ok && id.Name == "num" {
				if bl, ok := be.Y.(*ast.BasicLit); ok {
					bounds = append(bounds, be.Op.String()+" "+bl.Value)
				}
			}
		}
		return true
	})
	if len(bounds) != 2 || bounds[0] != "<= 0" || !strings.HasPrefix(bounds[1], "> ") {
		fail("multiplier bounds " + strings.Join(bounds, ";"))
	}
	fmt.Fprintf(&sb, "def multiplierMax : Nat := %s\n\n", strings.TrimPrefix(bounds[1], "> "))

	// 11. label formats
	tl1 := stringLits(findFunc(parF, "getImplicitTextLabel"))
	ml1 := stringLits(findFunc(parF, "getImplicitMovementLabel"))
	gl := stringLits(findFunc(chF, "getLabel"))
	if len(tl1) != 1 || len(ml1) != 1 || len(gl) != 1 {
		fail("label formats")
	}
	fmt.Fprintf(&sb, "def textLabelFmt : String := %s\ndef movementLabelFmt : String := %s\ndef chunkLabelFmt : String := %s\n\n", leanStr(tl1[0]), leanStr(ml1[0]), leanStr(gl[0]))

	// 12. format text constants
	_, fvals := tokenConsts(fmtF)
	tf, ok := fvals["testFontID"]
	if !ok {
		fail("testFontID")
	}
	fmt.Fprintf(&sb, "def testFontID : String := %s\n", leanStr(tf))
	rw := intLits(findFunc(fmtF, "getRunePixelWidth"))
	cw := intLits(findFunc(fmtF, "getControlCodePixelWidth"))
	if len(rw) != 1 || len(cw) != 1 {
		fail("test font widths")
	}
	fb := ""
	for _, d := range fmtF.Decls {
		if gd, ok := d.(*ast.GenDecl); ok && gd.Tok == token.CONST {
			for _, sp := range gd.Specs {
				vs := sp.(*ast.ValueSpec)
				if vs.Names[0].Name == "fallbackWidth" {
					fb = vs.Values[0].(*ast.BasicLit).Value
				}
			}
		}
	}
	if fb == "" {
		fail("fallbackWidth")
	}
	fmt.Fprintf(&sb, "def testRuneWidth : Int := %s\ndef testControlCodeWidth : Int := %s\ndef fallbackWidth : Int := %s\n\n", rw[0], cw[0], fb)

	// 12b. the AutoVar commands of the shipped command_config.json (names only, sorted)
	{
		raw, err := os.ReadFile(filepath.Join(repo, "command_config.json"))
		if err != nil {
			fail("command_config.json")
		}
		var cc struct {
			AutoVarCommands map[string]json.RawMessage `json:"autovar_commands"`
		}
		if err := json.Unmarshal(raw, &cc); err != nil {
			fail("command_config.json: " + err.Error())
		}
		ns := []string{}
		for k := range cc.AutoVarCommands {
			ns = append(ns, k)
		}
		sort.Strings(ns)
		qs := []string{}
		for _, k := range ns {
			qs = append(qs, leanStr(k))
		}
		fmt.Fprintf(&sb, "def shippedAutoVarCommands : List String := [%s]\n\n", strings.Join(qs, ", "))
	}

	// 13. Unicode classes used by the lexer (Go standard library tables of the toolchain in use)
	sb.WriteString(leanRanges("unicodeLetter", rangesOf(unicode.Letter)))
	sb.WriteString(leanRanges("unicodeDigit", rangesOf(unicode.Digit)))
	sb.WriteString(leanRanges("unicodeSpace", rangesOf(unicode.White_Space)))
	sb.WriteString("\nend Pory.Facts\n")

	if out != "" {
		if err := os.WriteFile(out, []byte(sb.String()), 0644); err != nil {
			fail(err.Error())
		}
	} else {
		fmt.Print(sb.String())
	}

	// ---- static inventory (C17 / C18) ----
	if inv != "" {
		sites := []site{}
		// names that syntactically have a map type (struct fields, vars, parameters, make(map…) / map literals)
		mapNames := map[string]bool{}
		files := []string{"token/token.go", "lexer/lexer.go", "ast/ast.go", "parser/parser.go", "parser/formattext.go", "parser/parse_error.go", "emitter/emitter.go", "emitter/branch.go", "emitter/chunk.go"}
		isMap := func(e ast.Expr) bool {
			switch x := e.(type) {
			case *ast.MapType:
				return true
			case *ast.CompositeLit:
				_, ok := x.Type.(*ast.MapType)
				return ok
			case *ast.CallExpr:
				if id, ok := x.Fun.(*ast.Ident); ok && id.Name == "make" && len(x.Args) > 0 {
					_, ok := x.Args[0].(*ast.MapType)
					return ok
				}
			}
			return false
		}
		for _, rel := range files {
			f := parseFile(repo, rel)
			ast.Inspect(f, func(x ast.Node) bool {
				switch n := x.(type) {
				case *ast.Field:
					if isMap(n.Type) {
						for _, id := range n.Names {
							mapNames[id.Name] = true
						}
					}
				case *ast.ValueSpec:
					for i, id := range n.Names {
						if (n.Type != nil && isMap(n.Type)) || (i < len(n.Values) && isMap(n.Values[i])) {
							mapNames[id.Name] = true
						}
					}
				case *ast.AssignStmt:
					for i, l := range n.Lhs {
						if id, ok := l.(*ast.Ident); ok && i < len(n.Rhs) && isMap(n.Rhs[i]) {
							mapNames[id.Name] = true
						}
					}
				}
				return true
			})
		}
		for _, rel := range files {
			f := parseFile(repo, rel)
			ast.Inspect(f, func(x ast.Node) bool {
				if rs, ok := x.(*ast.RangeStmt); ok {
					name := ""
					switch e := rs.X.(type) {
					case *ast.Ident:
						name = e.Name
					case *ast.SelectorExpr:
						name = e.Sel.Name
					}
					if mapNames[name] {
						sites = append(sites, site{rel, fset.Position(rs.Pos()).Line, "range-over-map " + name})
					}
				}
				return true
			})
		}
		for _, rel := range []string{"token/token.go", "lexer/lexer.go", "ast/ast.go", "parser/parser.go", "parser/formattext.go", "parser/parse_error.go", "emitter/emitter.go", "emitter/branch.go", "emitter/chunk.go"} {
			f := parseFile(repo, rel)
			for _, d := range f.Decls {
				if gd, ok := d.(*ast.GenDecl); ok && gd.Tok == token.VAR {
					for _, sp := range gd.Specs {
						for _, n := range sp.(*ast.ValueSpec).Names {
							sites = append(sites, site{rel, fset.Position(n.Pos()).Line, "pkgvar " + n.Name})
						}
					}
				}
			}
			ast.Inspect(f, func(x ast.Node) bool {
				switch s := x.(type) {
				case *ast.ForStmt:
					if s.Cond == nil {
						sites = append(sites, site{rel, fset.Position(s.Pos()).Line, "for-without-condition"})
					}
				case *ast.CallExpr:
					if id, ok := s.Fun.(*ast.Ident); ok && id.Name == "panic" {
						sites = append(sites, site{rel, fset.Position(s.Pos()).Line, "panic"})
					}
				case *ast.GoStmt:
					sites = append(sites, site{rel, fset.Position(s.Pos()).Line, "go-statement"})
				}
				return true
			})
		}
		b, _ := json.MarshalIndent(sites, "", " ")
		os.WriteFile(inv, b, 0644)
		// error-message format strings (static tie: each must occur in the Lean model)
		msgs := []string{}
		for _, rel := range []string{"parser/parser.go", "parser/formattext.go", "emitter/emitter.go", "emitter/chunk.go"} {
			f := parseFile(repo, rel)
			ast.Inspect(f, func(x ast.Node) bool {
				ce, ok := x.(*ast.CallExpr)
				if !ok {
					return true
				}
				name := ""
				switch fn := ce.Fun.(type) {
				case *ast.Ident:
					name = fn.Name
				case *ast.SelectorExpr:
					name = fn.Sel.Name
				}
				if name == "NewParseError" || name == "NewRangeParseError" || name == "New" || name == "Errorf" {
					for _, a := range ce.Args {
						ast.Inspect(a, func(y ast.Node) bool {
							if bl, ok := y.(*ast.BasicLit); ok && bl.Kind == token.STRING {
								if s, err := strconv.Unquote(bl.Value); err == nil && len(s) > 8 {
									msgs = append(msgs, s)
								}
							}
							return true
						})
					}
				}
				return true
			})
		}
		mb, _ := json.MarshalIndent(msgs, "", " ")
		os.WriteFile(filepath.Join(filepath.Dir(inv), "messages.json"), mb, 0644)
	}
}
