#!/bin/sh
# Build the framework from files on disk only (offline): Go harness + fact extractor, then the
# Lean model, driver and all proof modules.
set -e
cd "$(dirname "$0")"
export GOFLAGS=-mod=mod GOPROXY=off GOSUMDB=off GOTOOLCHAIN=local
mkdir -p .work evidence replays
(cd harness/run && go build -tags verif -o ../../.work/pvh .)
(cd tools/factgen && go build -o ../../.work/factgen .)
.work/factgen -repo /repo -out .work/Facts.lean.new -inventory .work/inventory.json && \
  { cmp -s .work/Facts.lean.new lean/PoryModel/Generated/Facts.lean || cp .work/Facts.lean.new lean/PoryModel/Generated/Facts.lean; }
(cd lean && lake build driver PoryModel PorySpec PoryProofs)
echo setup-ok
