// pvh: runs the real poryscript packages (lexer, parser, emitter, FormatText) in-process on
// the cases of the line protocol and prints one result line per case.
//
//	LEX <hexsrc>
//	FMT <hexcfg> <hextext> <maxWidth> <overlap> <hexfontid> <numLines>
//	COMPILE <hexcfg> <hexsrc>
//	PARSE <hexcfg> <hexsrc>      (canonical dump of the AST, see astdump.go)
//	CLI <hexcfg> <hexsrc>        (command line program vs library calls, see cli.go)
//
// Panics are recovered per case (PANIC), a case running longer than the watchdog limit is
// reported as HANG.
package main

import (
	"sort"
	"bufio"
	"crypto/sha1"
	"encoding/hex"
	"encoding/json"
	"fmt"
	"io/ioutil"
	"log"
	"os"
	"path/filepath"
	"strconv"
	"strings"
	"time"

	"github.com/huderlem/poryscript/emitter"
	"github.com/huderlem/poryscript/lexer"
	"github.com/huderlem/poryscript/parser"
	"github.com/huderlem/poryscript/token"
)

func hx(s string) string {
	if len(s) == 0 {
		return "-"
	}
	return hex.EncodeToString([]byte(s))
}

func unhx(s string) string {
	if s == "-" {
		return ""
	}
	b, err := hex.DecodeString(s)
	if err != nil {
		return ""
	}
	return string(b)
}

type cfg struct {
	optimize, lm, lint bool
	path, deffont      string
	maxlen             int
	switches           map[string]string
	autovars           map[string]parser.AutoVarCommand
	fonts              parser.FontConfig
	nofc               bool // the font config file does not exist (the load fails: same as an empty config, plus a warning)
}

func atoi(s string) int {
	n, _ := strconv.Atoi(s)
	return n
}

var cfgCache = map[string]*cfg{}

// parseCfg returns ONE object per distinct configuration text: compilations that are given the same
// options in one process share the same switch / auto-var maps, as they would in a long-running caller.
func parseCfg(h string) *cfg {
	if c, ok := cfgCache[h]; ok {
		return c
	}
	c := parseCfgFresh(h)
	// the option MAPS are shared by all configurations that spell them alike (e.g. a lint run and a normal run of one caller)
	sk := fmt.Sprint(c.switches)
	if m, ok := switchMaps[sk]; ok {
		c.switches = m
	} else {
		switchMaps[sk] = c.switches
	}
	ak := ""
	names := []string{}
	for k := range c.autovars {
		names = append(names, k)
	}
	sort.Strings(names)
	for _, k := range names {
		v := c.autovars[k]
		pos := "-"
		if v.VarNameArgPosition != nil {
			pos = fmt.Sprint(*v.VarNameArgPosition)
		}
		ak += k + "=" + v.VarName + "/" + pos + ";"
	}
	if m, ok := autovarMaps[ak]; ok {
		c.autovars = m
	} else {
		autovarMaps[ak] = c.autovars
	}
	cfgCache[h] = c
	return c
}

var switchMaps = map[string]map[string]string{}
var autovarMaps = map[string]map[string]parser.AutoVarCommand{}

func parseCfgFresh(h string) *cfg {
	c := &cfg{optimize: true, lm: true, switches: map[string]string{}, autovars: map[string]parser.AutoVarCommand{}}
	c.fonts.Fonts = map[string]parser.Fonts{}
	for _, line := range strings.Split(unhx(h), "\n") {
		f := strings.Split(line, " ")
		switch {
		case len(f) == 2 && f[0] == "opt":
			c.optimize = f[1] == "1"
		case len(f) == 2 && f[0] == "lm":
			c.lm = f[1] == "1"
		case len(f) == 2 && f[0] == "lint":
			c.lint = f[1] == "1"
		case len(f) == 2 && f[0] == "path":
			c.path = unhx(f[1])
		case len(f) == 2 && f[0] == "deffont":
			c.deffont = unhx(f[1])
		case len(f) == 2 && f[0] == "maxlen":
			c.maxlen = atoi(f[1])
		case len(f) == 3 && f[0] == "sw":
			c.switches[unhx(f[1])] = unhx(f[2])
		case len(f) == 4 && f[0] == "autovar":
			av := parser.AutoVarCommand{VarName: unhx(f[2])}
			if f[3] != "-" {
				p := atoi(f[3])
				av.VarNameArgPosition = &p
			}
			c.autovars[unhx(f[1])] = av
		case len(f) == 2 && f[0] == "nofc":
			c.nofc = f[1] == "1"
		case len(f) == 2 && f[0] == "fontdefault":
			c.fonts.DefaultFontID = unhx(f[1])
		case len(f) == 5 && f[0] == "font":
			c.fonts.Fonts[unhx(f[1])] = parser.Fonts{Widths: map[string]int{}, MaxLineLength: atoi(f[2]), NumLines: atoi(f[3]), CursorOverlapWidth: atoi(f[4])}
		case len(f) == 4 && f[0] == "width":
			if fo, ok := c.fonts.Fonts[unhx(f[1])]; ok {
				fo.Widths[unhx(f[2])] = atoi(f[3])
			}
		}
	}
	return c
}

var workDir string
var fontFiles = map[string]string{}

// The parser loads its font config from a file path; write the case's font table there.
func fontFile(fc parser.FontConfig) string {
	b, _ := json.Marshal(fc)
	key := fmt.Sprintf("%x", sha1.Sum(b))
	if p, ok := fontFiles[key]; ok {
		return p
	}
	p := filepath.Join(workDir, "fc_"+key+".json")
	ioutil.WriteFile(p, b, 0644)
	fontFiles[key] = p
	return p
}

func lexCase(src string) string {
	l := lexer.New(src)
	// The lexer returns EOF for every NUL character and then, forever, at the real end of
	// input. Read until four identical EOF tokens in a row (only the real end repeats), then
	// keep one token of that final run. The model driver trims its final run the same way.
	toks := []token.Token{}
	run := 0
	for run < 4 {
		t := l.NextToken()
		if t.Type == token.EOF && len(toks) > 0 && toks[len(toks)-1] == t {
			run++
		} else if t.Type == token.EOF {
			run = 1
		} else {
			run = 0
		}
		toks = append(toks, t)
		if len(toks) > 20000000 {
			return "HANG"
		}
	}
	for len(toks) >= 2 && toks[len(toks)-1] == toks[len(toks)-2] {
		toks = toks[:len(toks)-1]
	}
	var sb strings.Builder
	sb.WriteString("TOKS ")
	for i, t := range toks {
		if i > 0 {
			sb.WriteByte(';')
		}
		fmt.Fprintf(&sb, "%s/%s/%d/%d/%d/%d/%d/%d", string(t.Type), hx(t.Literal), t.LineNumber, t.EndLineNumber, t.StartCharIndex, t.EndCharIndex, t.StartUtf8CharIndex, t.EndUtf8CharIndex)
	}
	return sb.String()
}

func fmtCase(f []string) string {
	c := parseCfg(f[1])
	out, err := c.fonts.FormatText(unhx(f[2]), atoi(f[3]), atoi(f[4]), unhx(f[5]), atoi(f[6]))
	if err != nil {
		return "ERR " + hx(err.Error())
	}
	return "OK " + hx(out)
}

func compileCase(f []string) string {
	c := parseCfg(f[1])
	src := unhx(f[2])
	cc := parser.CommandConfig{AutoVarCommands: c.autovars}
	var p *parser.Parser
	if c.lint {
		p = parser.NewLintParser(lexer.New(src), cc)
	} else {
		ff := fontFile(c.fonts)
		if c.nofc {
			ff = filepath.Join(workDir, "no_such_dir", "font_config.json")
		}
		p = parser.New(lexer.New(src), cc, ff, c.deffont, c.maxlen, c.switches)
	}
	// every fourth input (by length) a second parser for the same input is created first and run to
	// completion while the first one is alive: two parsers in one process must not disturb each other
	twin := len(src)%4 == 1
	var twinRes string
	if twin {
		var p2 *parser.Parser
		if c.lint {
			p2 = parser.NewLintParser(lexer.New(src), cc)
		} else {
			ff := fontFile(c.fonts)
			if c.nofc {
				ff = filepath.Join(workDir, "no_such_dir", "font_config.json")
			}
			p2 = parser.New(lexer.New(src), cc, ff, c.deffont, c.maxlen, c.switches)
		}
		twinRes = emitAll(p2, c, false)
	}
	if len(src)%4 == 3 {
		// a decoy: another parser with a different configuration is created (and never used) before this one parses
		dav := map[string]parser.AutoVarCommand{}
		for k, v := range c.autovars {
			dav[k] = parser.AutoVarCommand{VarName: v.VarName + "_DECOY", VarNameArgPosition: nil}
		}
		_ = parser.New(lexer.New("script Decoy { lock }"), parser.CommandConfig{AutoVarCommands: dav}, filepath.Join(workDir, "decoy_fonts.json"), "DECOY", 7, map[string]string{"V": "DECOY", "GAME": "DECOY"})
	}
	res := emitAll(p, c, len(src)%4 == 2)
	if twin && twinRes != res {
		return "TWINDIFF " + hx("a second parser alive at the same time changes the result: "+decodeForHumans(twinRes)+" | "+decodeForHumans(res))
	}
	return res
}

// emitAll parses and emits; with again it calls Emit() a second time on the same emitter, which must give the same text
func emitAll(p *parser.Parser, c *cfg, again bool) string {
	prog, err := p.ParseProgram()
	if err != nil {
		return errLine(err)
	}
	e := emitter.New(prog, c.optimize, c.lm, c.path)
	out, err := e.Emit()
	if err != nil {
		return errLine(err)
	}
	if again {
		out2, err2 := e.Emit()
		if err2 != nil || out2 != out {
			return "EMIT2DIFF " + hx("a second Emit() on the same emitter gives another result")
		}
	}
	return "OK " + hx(out)
}

func errLine(err error) string {
	if pe, ok := err.(parser.ParseError); ok {
		return fmt.Sprintf("PERR %d %d %d %d %d %d %s", pe.LineNumberStart, pe.LineNumberEnd, pe.CharStart, pe.Utf8CharStart, pe.CharEnd, pe.Utf8CharEnd, hx(pe.Message))
	}
	return "EERR " + hx(err.Error())
}

func runCase(line string) (res string) {
	defer func() {
		if r := recover(); r != nil {
			res = "PANIC " + hx(fmt.Sprint(r))
		}
	}()
	f := strings.Split(line, " ")
	switch {
	case len(f) == 2 && f[0] == "LEX":
		return lexCase(unhx(f[1]))
	case len(f) == 7 && f[0] == "FMT":
		return fmtCase(f)
	case len(f) == 3 && f[0] == "COMPILE":
		return compileCase(f)
	case len(f) == 3 && f[0] == "PARSE":
		return parseCase(f)
	case len(f) == 3 && f[0] == "CLI":
		return cliCase(f)
	}
	return "BADLINE"
}

func main() {
	log.SetOutput(ioutil.Discard)
	workDir = os.Getenv("PVH_WORKDIR")
	if workDir == "" {
		d, err := ioutil.TempDir("", "pvh")
		if err != nil {
			panic(err)
		}
		workDir = d
		defer os.RemoveAll(d)
	} else {
		os.MkdirAll(workDir, 0755)
	}
	limit := 10 * time.Second
	if v := os.Getenv("PVH_TIMEOUT_S"); v != "" {
		limit = time.Duration(atoi(v)) * time.Second
	}
	sc := bufio.NewScanner(os.Stdin)
	sc.Buffer(make([]byte, 1<<26), 1<<26)
	w := bufio.NewWriter(os.Stdout)
	defer w.Flush()
	for sc.Scan() {
		line := sc.Text()
		ch := make(chan string, 1)
		go func() { ch <- runCase(line) }()
		select {
		case r := <-ch:
			fmt.Fprintln(w, r)
		case <-time.After(limit):
			fmt.Fprintln(w, "HANG")
		}
		w.Flush()
	}
}
