// Canonical dump of the parser's AST for the PARSE operation of the line protocol (see
// ../README.md). Pointer identity (break / continue targets) is replaced by the pre-order number
// of the loop or switch statement inside its script; everything else is printed field by field.
package main

import (
	"fmt"
	"strings"

	"github.com/huderlem/poryscript/ast"
	"github.com/huderlem/poryscript/lexer"
	"github.com/huderlem/poryscript/parser"
	"github.com/huderlem/poryscript/token"
)

type dumper struct {
	sb    strings.Builder
	scope map[ast.Statement]int
	next  int
}

func (d *dumper) w(format string, a ...interface{}) { fmt.Fprintf(&d.sb, format, a...) }

func (d *dumper) tok(t token.Token) {
	d.w("<%s/%s/%d/%d/%d/%d/%d/%d>", string(t.Type), hx(t.Literal), t.LineNumber, t.EndLineNumber, t.StartCharIndex, t.EndCharIndex, t.StartUtf8CharIndex, t.EndUtf8CharIndex)
}

func (d *dumper) toks(ts []token.Token) {
	d.w("[")
	for _, t := range ts {
		d.tok(t)
	}
	d.w("]")
}

func (d *dumper) strs(ss []string) {
	d.w("[")
	for i, s := range ss {
		if i > 0 {
			d.w(",")
		}
		d.w("%s", hx(s))
	}
	d.w("]")
}

func b01(b bool) string {
	if b {
		return "1"
	}
	return "0"
}

func (d *dumper) cmd(c *ast.CommandStatement) {
	d.w("c(")
	d.tok(c.Token)
	d.w(",%s,", hx(c.Name.Value))
	d.strs(c.Args)
	d.w(")")
}

func (d *dumper) cond(e ast.BooleanExpression) {
	switch x := e.(type) {
	case nil:
		d.w("-")
	case *ast.BinaryExpression:
		d.w("B(")
		d.cond(x.Left)
		d.w(",%s,", string(x.Operator))
		d.cond(x.Right)
		d.w(")")
	case *ast.OperatorExpression:
		d.w("L(")
		d.tok(x.Operand)
		d.w(",%s,%s,%s,%s,", string(x.Operator), hx(x.ComparisonValue), b01(x.ComparisonValueType == ast.StrictValueComparison), string(x.Type))
		if x.PreambleStatement != nil {
			d.cmd(x.PreambleStatement)
		} else {
			d.w("-")
		}
		d.w(")")
	default:
		d.w("?cond")
	}
}

func (d *dumper) block(b *ast.BlockStatement) {
	d.w("{")
	if b != nil {
		for _, s := range b.Statements {
			d.stmt(s)
		}
	}
	d.w("}")
}

func (d *dumper) enter(s ast.Statement) int {
	k := d.next
	d.next++
	d.scope[s] = k
	return k
}

func (d *dumper) target(s ast.Statement) string {
	if k, ok := d.scope[s]; ok {
		return fmt.Sprint(k)
	}
	return "?"
}

func (d *dumper) condBody(c *ast.ConditionExpression) {
	if c == nil {
		d.w("-,{}")
		return
	}
	d.cond(c.Expression)
	d.w(",")
	d.block(c.Body)
}

func (d *dumper) stmt(s ast.Statement) {
	switch x := s.(type) {
	case *ast.CommandStatement:
		d.cmd(x)
	case *ast.LabelStatement:
		d.w("l(")
		d.tok(x.Token)
		d.w(",%s,%s)", hx(x.Name.Value), b01(x.IsGlobal))
	case *ast.IfStatement:
		d.w("i(")
		d.tok(x.Token)
		d.w(",")
		d.condBody(x.Consequence)
		d.w(",[")
		for _, e := range x.ElifConsequences {
			d.w("e(")
			d.condBody(e)
			d.w(")")
		}
		d.w("],")
		if x.ElseConsequence != nil {
			d.block(x.ElseConsequence)
		} else {
			d.w("-")
		}
		d.w(")")
	case *ast.WhileStatement:
		d.w("w(%d,", d.enter(x))
		d.tok(x.Token)
		d.w(",")
		d.condBody(x.Consequence)
		d.w(")")
	case *ast.DoWhileStatement:
		d.w("d(%d,", d.enter(x))
		d.tok(x.Token)
		d.w(",")
		d.condBody(x.Consequence)
		d.w(")")
	case *ast.BreakStatement:
		d.w("b(")
		d.tok(x.Token)
		d.w(",%s)", d.target(x.ScopeStatment))
	case *ast.ContinueStatement:
		d.w("n(")
		d.tok(x.Token)
		d.w(",%s)", d.target(x.LoopStatment))
	case *ast.SwitchStatement:
		d.w("s(%d,", d.enter(x))
		d.tok(x.Token)
		d.w(",")
		d.tok(x.Operand)
		d.w(",[")
		for _, c := range x.Cases {
			d.w("k(%s,", b01(c.IsDefault))
			if !c.IsDefault {
				d.tok(c.Value)
			}
			d.w(",")
			d.block(c.Body)
			d.w(")")
		}
		d.w("])")
	default:
		d.w("?stmt")
	}
}

func (d *dumper) script(s *ast.ScriptStatement) {
	if s == nil {
		d.w("-")
		return
	}
	d.scope = map[ast.Statement]int{}
	d.next = 0
	d.w("S(%s,%s,", hx(s.Name.Value), string(s.Scope))
	d.block(s.Body)
	d.w(")")
}

func (d *dumper) top(s ast.Statement) {
	switch x := s.(type) {
	case *ast.ScriptStatement:
		d.w("TS(")
		d.tok(x.Token)
		d.w(",")
		d.script(x)
		d.w(")")
	case *ast.RawStatement:
		d.w("TR(")
		d.tok(x.Token)
		d.w(",")
		d.tok(x.ValueToken)
		d.w(",%s)", hx(x.Value))
	case *ast.TextStatement:
		d.w("TT(")
		d.tok(x.Token)
		d.w(",%s,%s,%s,%s)", hx(x.Name.Value), hx(x.Value), hx(x.StringType), b01(x.Scope == token.GLOBAL))
	case *ast.MovementStatement:
		d.w("TM(")
		d.tok(x.Token)
		d.w(",%s,%s,", hx(x.Name.Value), string(x.Scope))
		d.toks(x.MovementCommands)
		d.w(")")
	case *ast.MartStatement:
		d.w("TA(")
		d.tok(x.Token)
		d.w(",%s,%s,", hx(x.Name.Value), string(x.Scope))
		d.toks(x.TokenItems)
		d.w(",")
		d.strs(x.Items)
		d.w(")")
	case *ast.MapScriptsStatement:
		d.w("TP(")
		d.tok(x.Token)
		d.w(",%s,%s,[", hx(x.Name.Value), string(x.Scope))
		for _, m := range x.MapScripts {
			d.w("m(")
			d.tok(m.Type)
			d.w(",%s,", hx(m.Name))
			d.script(m.Script)
			d.w(")")
		}
		d.w("],[")
		for _, t := range x.TableMapScripts {
			d.w("t(")
			d.tok(t.Type)
			d.w(",%s,[", hx(t.Name))
			for _, e := range t.Entries {
				d.w("e(")
				d.tok(e.Condition)
				d.w(",%s,%s,", hx(e.Comparison), hx(e.Name))
				d.script(e.Script)
				d.w(")")
			}
			d.w("])")
		}
		d.w("])")
	default:
		d.w("?top")
	}
}

func dumpProgram(p *ast.Program) string {
	d := &dumper{scope: map[ast.Statement]int{}}
	d.w("P[")
	for _, s := range p.TopLevelStatements {
		d.top(s)
	}
	d.w("][")
	for _, t := range p.Texts {
		d.w("X(%s,%s,%s,%s,", hx(t.Name), hx(t.Value), hx(t.StringType), b01(t.IsGlobal))
		d.tok(t.Token)
		d.w(")")
	}
	d.w("]")
	return d.sb.String()
}

func parseCase(f []string) string {
	c := parseCfg(f[1])
	src := unhx(f[2])
	cc := parser.CommandConfig{AutoVarCommands: c.autovars}
	var p *parser.Parser
	if c.lint {
		p = parser.NewLintParser(lexer.New(src), cc)
	} else {
		p = parser.New(lexer.New(src), cc, fontFile(c.fonts), c.deffont, c.maxlen, c.switches)
	}
	prog, err := p.ParseProgram()
	if err != nil {
		return errLine(err)
	}
	return "AST " + hx(dumpProgram(prog))
}
