module pvh

go 1.13

require github.com/huderlem/poryscript v0.0.0

replace github.com/huderlem/poryscript => /repo
