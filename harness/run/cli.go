// CLI operation of the line protocol: runs the command line program (main.go, built by ./check into
// $PVH_CLI) on the case's input and options and compares what it prints with what the library calls
// of compileCase return in this process. This ties the glue of main.go (flag parsing, reading the
// input, config files, passing the path on, printing errors) to the packages the model describes.
//
//	CLI <hexcfg> <hexsrc>   ->   CLISAME | CLIDIFF <hex description> | CLISKIP <reason>
package main

import (
	"bytes"
	"encoding/json"
	"fmt"
	"io/ioutil"
	"os"
	"os/exec"
	"path/filepath"
	"sort"
	"strings"
	"time"

	"github.com/huderlem/poryscript/parser"
)

func cliCase(f []string) string {
	cli := os.Getenv("PVH_CLI")
	if cli == "" {
		return "CLISKIP no-cli-binary"
	}
	c := parseCfg(f[1])
	if c.lint {
		return "CLISKIP lint"
	}
	src := unhx(f[2])
	want := compileCase(f) // library path: OK <hex> | PERR ... | EERR <hex>
	dir, err := ioutil.TempDir(workDir, "cli")
	if err != nil {
		return "CLISKIP tempdir"
	}
	defer os.RemoveAll(dir)
	args := []string{}
	if c.path != "" {
		if strings.ContainsAny(c.path, "\x00") || strings.HasPrefix(c.path, "/") || strings.Contains(c.path, "..") {
			return "CLISKIP path"
		}
		os.MkdirAll(filepath.Dir(filepath.Join(dir, c.path)), 0755)
		if err := ioutil.WriteFile(filepath.Join(dir, c.path), []byte(src), 0644); err != nil {
			return "CLISKIP write"
		}
		args = append(args, "-i", c.path)
	}
	fb, _ := json.Marshal(c.fonts)
	ioutil.WriteFile(filepath.Join(dir, "fc.json"), fb, 0644)
	cb, _ := json.Marshal(parser.CommandConfig{AutoVarCommands: c.autovars})
	ioutil.WriteFile(filepath.Join(dir, "cc.json"), cb, 0644)
	fcArg := "fc.json"
	if c.nofc {
		fcArg = "no_such_dir/font_config.json"
	}
	args = append(args, "-fc", fcArg, "-cc", "cc.json", fmt.Sprintf("-optimize=%v", c.optimize), fmt.Sprintf("-lm=%v", c.lm))
	if c.deffont != "" {
		args = append(args, "-f", c.deffont)
	}
	if c.maxlen != 0 {
		args = append(args, "-l", fmt.Sprint(c.maxlen))
	}
	keys := []string{}
	for k := range c.switches {
		keys = append(keys, k)
	}
	sort.Strings(keys)
	for _, k := range keys {
		if strings.Contains(k, "=") || k == "" {
			return "CLISKIP switch"
		}
		if len(src)%3 == 0 {
			args = append(args, "-s", k+"=__decoy__") // a repeated -s: the last definition counts
		}
		args = append(args, "-s", k+"="+c.switches[k])
	}
	// every other case writes through -o into a file that already holds (longer) stale content:
	// the program must replace the file, not overwrite its beginning
	useOut := len(src)%2 == 1
	outPath := filepath.Join(dir, "out.inc")
	if useOut {
		ioutil.WriteFile(outPath, []byte(strings.Repeat("STALE OUTPUT LINE\n", 16384)), 0644)
		args = append(args, "-o", "out.inc")
	}
	cmd := exec.Command(cli, args...)
	cmd.Dir = dir
	if c.path == "" {
		cmd.Stdin = strings.NewReader(src)
	}
	var so, se bytes.Buffer
	cmd.Stdout = &so
	cmd.Stderr = &se
	done := make(chan error, 1)
	if err := cmd.Start(); err != nil {
		return "CLISKIP start"
	}
	go func() { done <- cmd.Wait() }()
	var werr error
	select {
	case werr = <-done:
	case <-time.After(10 * time.Second):
		cmd.Process.Kill()
		return "CLIDIFF " + hx("the command line program did not finish within 10 s")
	}
	var got string
	if werr == nil {
		text := so.String()
		if useOut {
			b, rerr := ioutil.ReadFile(outPath)
			if rerr != nil {
				text = "<-o file unreadable> " + text
			} else if so.Len() != 0 {
				text = "<output on stdout although -o was given> " + text
			} else {
				text = string(b)
			}
		}
		got = "OK " + hx(text)
	} else {
		// warnings about the font configuration go to the same stream; the error is what counts
		kept := []string{}
		for _, ln := range strings.Split(se.String(), "\n") {
			if !strings.HasPrefix(ln, "PORYSCRIPT WARNING:") {
				kept = append(kept, ln)
			}
		}
		got = "ERR " + strings.TrimSpace(strings.Join(kept, "\n"))
	}
	wf := strings.Split(want, " ")
	switch wf[0] {
	case "OK":
		if got == want {
			return "CLISAME"
		}
	case "PERR":
		if got == fmt.Sprintf("ERR PORYSCRIPT ERROR: line %s: %s", wf[1], unhx(wf[7])) {
			return "CLISAME"
		}
	case "EERR":
		if got == "ERR PORYSCRIPT ERROR: "+unhx(wf[1]) {
			return "CLISAME"
		}
	}
	d := got
	if strings.HasPrefix(got, "OK ") {
		d = "OK " + unhx(got[3:])
	}
	if len(d) > 600 {
		d = d[:600]
	}
	return "CLIDIFF " + hx(fmt.Sprintf("library: %s | command line: %s", decodeForHumans(want), d))
}

func decodeForHumans(r string) string {
	f := strings.Split(r, " ")
	switch f[0] {
	case "OK":
		t := unhx(f[1])
		if len(t) > 600 {
			t = t[:600]
		}
		return "OK " + t
	case "PERR":
		return fmt.Sprintf("error line %s: %s", f[1], unhx(f[7]))
	case "EERR":
		return "error " + unhx(f[1])
	}
	return r
}
